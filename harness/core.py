"""Shared machinery of every check: regeneration of Gen/, the Coq build, evaluation of
model cases inside Coq, the verdict protocol, evidence and known findings."""
import fcntl
import hashlib
import json
import os
import random
import re
import shutil
import subprocess
import sys
import tempfile
import time

VERIF = os.path.dirname(os.path.dirname(os.path.abspath(__file__)))
REPO = os.environ.get("XV_REPO", "/repo")
COQ = os.path.join(VERIF, "coq")
EVID = os.path.join(VERIF, "evidence")
REPLAY = os.path.join(EVID, "replay")
LOCK = os.path.join(COQ, ".build.lock")
FORBIDDEN = r"\b(Admitted|admit|Axiom|Parameter|Conjecture|bypass_check)\b|Unset Guard|Admit Obligations|-type-in-type|-impredicative-set"

_HELD = None      # the build lock while held by this process (regen -> build)

PROOF_KW = re.compile(r"^\s*(?:Local\s+|Global\s+|Program\s+)?(Theorem|Lemma|Example|Corollary|Fact|Proposition|Remark)\s+([A-Za-z0-9_']+)", re.M)


def sh(cmd, timeout=600, cwd=None, env=None):
    try:
        p = subprocess.run(cmd, shell=isinstance(cmd, str), cwd=cwd, env=env, timeout=timeout,
                           stdout=subprocess.PIPE, stderr=subprocess.STDOUT, text=True)
        return p.returncode, p.stdout
    except subprocess.TimeoutExpired as e:
        return 124, (e.stdout or "") + "\n[timeout]"


# ------------------------------------------------------------------ Gen/
def regen():
    """Run every translator against REPO; write Gen files only if changed.
    Returns {unit: {"ok": bool, "detail": str}}."""
    sys.path.insert(0, VERIF)
    import warnings
    warnings.simplefilter("ignore")
    from harness.translator import UNITS
    from harness.translator.pyz import Refused
    status = {}
    os.makedirs(os.path.join(COQ, "Gen"), exist_ok=True)
    # the lock is taken here and kept until the following build() has finished, so that no
    # other check can regenerate Gen/ from a different tree in between
    global _HELD
    if _HELD is None:
        _HELD = open(LOCK, "w")
        fcntl.flock(_HELD, fcntl.LOCK_EX)
    if True:
        for name, mod in UNITS.items():
            path = os.path.join(COQ, "Gen", name + ".v")
            try:
                text = mod.generate(REPO)
            except Refused as e:
                status[name] = {"ok": False, "detail": f"translator refused: {e}"}
                continue
            except Exception as e:  # fail closed on anything unexpected
                status[name] = {"ok": False, "detail": f"translator error: {type(e).__name__}: {e}"}
                continue
            old = open(path).read() if os.path.exists(path) else None
            if old != text:
                with open(path, "w") as f:
                    f.write(text)
            status[name] = {"ok": True, "detail": "regenerated" if old != text else "unchanged",
                            "sha": hashlib.sha256(text.encode()).hexdigest()[:16]}
    global LAST_GEN
    LAST_GEN = status
    return status


LAST_GEN = {}


# ------------------------------------------------------------------ build
def project_files():
    out = []
    for line in open(os.path.join(COQ, "_CoqProject")):
        line = line.strip()
        if line.endswith(".v"):
            out.append(line)
    return out


def closure(vfile):
    """Project files `vfile` depends on (transitively), by its XV imports."""
    files = project_files()
    by_base = {os.path.basename(f)[:-2]: f for f in files}
    seen, todo = [], [vfile]
    while todo:
        f = todo.pop()
        if f in seen:
            continue
        seen.append(f)
        try:
            txt = open(os.path.join(COQ, f)).read()
        except FileNotFoundError:
            continue
        for m in re.finditer(r"From\s+XV\s+Require\s+(?:Import|Export)?\s*([^.]*)\.", txt):
            for nm in m.group(1).split():
                if nm in by_base:
                    todo.append(by_base[nm])
    return seen


def ensure_makefile():
    mk = os.path.join(COQ, "Makefile")
    cp = os.path.join(COQ, "_CoqProject")
    if not os.path.exists(mk) or os.path.getmtime(mk) < os.path.getmtime(cp):
        sh("coq_makefile -f _CoqProject -o Makefile", cwd=COQ)


def build(prop_file, timeout=1500):
    """Build the dependency closure of Props/<prop>.v with make (full .vo), then compile the
    property file itself with coqc capturing `Print Assumptions`.  Returns a dict."""
    t0 = time.time()
    deps = [f for f in closure(prop_file) if f != prop_file]
    res = {"prop_file": prop_file, "deps": sorted(deps), "ok": False, "failed_file": None,
           "log_tail": "", "assumptions": "", "cmds": []}
    global _HELD
    if _HELD is None:
        _HELD = open(LOCK, "w")
        fcntl.flock(_HELD, fcntl.LOCK_EX)
    try:
        # a unit whose translator refused keeps its previous Gen file (so that cases can still be evaluated
        # against it), but every property whose proofs depend on that unit is NOT shown to hold on this tree
        refused = [u for u, st in LAST_GEN.items() if not st.get("ok") and f"Gen/{u}.v" in deps]
        if refused:
            u = refused[0]
            res["failed_file"] = f"Gen/{u}.v"
            res["log_tail"] = (f"the translator of {', '.join(refused)} did not accept the current source, so the "
                               f"definitions the proofs are about could not be regenerated: {LAST_GEN[u]['detail']}")
            res["wall_s"] = time.time() - t0
            if _HELD is not None:
                pass
            return res
        return _build_locked(prop_file, timeout, deps, res, t0)
    finally:
        fcntl.flock(_HELD, fcntl.LOCK_UN)
        _HELD.close()
        _HELD = None


def _build_locked(prop_file, timeout, deps, res, t0):
    if True:
        ensure_makefile()
        targets = " ".join(d[:-2] + ".vo" for d in deps)
        cmd = f"timeout {timeout} make -j8 {targets}"
        res["cmds"].append(f"cd {COQ} && {cmd}")
        rc, out = sh(cmd, timeout=timeout + 30, cwd=COQ)
        if rc != 0:
            m = re.findall(r'File "\./([^"]+)", line (\d+)', out)
            res["failed_file"] = m[-1][0] if m else "?"
            res["log_tail"] = out[-3000:]
            res["wall_s"] = time.time() - t0
            return res
        cmd = f"timeout 600 coqc -q -R . XV -w -notation-overridden {prop_file}"
        res["cmds"].append(f"cd {COQ} && {cmd}")
        rc, out = sh(cmd, timeout=630, cwd=COQ)
        if rc != 0:
            res["failed_file"] = prop_file
            res["log_tail"] = out[-3000:]
            res["wall_s"] = time.time() - t0
            return res
    res["ok"] = True
    res["assumptions"] = out.strip()
    if os.environ.get("XV_TIER") == "thorough" and os.environ.get("XV_COQCHK", "1") == "1":
        # independent re-check of the compiled property file and everything it depends on
        mod = "XV." + prop_file[:-2].replace("/", ".")
        cmd = f"timeout 1200 coqchk -silent -o -R . XV {mod}"
        res["cmds"].append(f"cd {COQ} && {cmd}")
        rc, chk = sh(cmd, timeout=1230, cwd=COQ)
        res["coqchk"] = {"rc": rc, "summary": chk.strip()[-1500:]}
        if rc != 0:
            res["ok"] = False
            res["failed_file"] = prop_file
            res["log_tail"] = "coqchk failed: " + chk[-2000:]
    res["wall_s"] = time.time() - t0
    return res


def obligations(prop_file, failed_file=None):
    """(total, discharged, names): proof statements in the closure; discharged = those in
    files that compiled (everything when the build succeeded)."""
    files = closure(prop_file)
    total, names = 0, []
    per_file = {}
    for f in files:
        try:
            txt = open(os.path.join(COQ, f)).read()
        except FileNotFoundError:
            continue
        found = PROOF_KW.findall(txt)
        per_file[f] = [n for _, n in found]
        total += len(found)
    if failed_file is None:
        discharged = total
    else:
        # files that do not depend on the failed one still compiled
        bad = {f for f in files if failed_file in closure(f)}
        discharged = sum(len(v) for f, v in per_file.items() if f not in bad)
    for f in files:
        if f.startswith("Props/"):
            names = per_file.get(f, [])
    return total, discharged, names


def forbidden_scan():
    hits = []
    for root, _, fs in os.walk(COQ):
        for f in fs:
            if f.endswith(".v") or f == "_CoqProject":
                p = os.path.join(root, f)
                if "/Run/" in p:
                    continue
                for i, line in enumerate(open(p, errors="replace"), 1):
                    code = re.sub(r"\(\*.*?\*\)", "", line)
                    if re.search(FORBIDDEN, code):
                        hits.append(f"{os.path.relpath(p, COQ)}:{i}: {line.strip()[:100]}")
    return hits


# ------------------------------------------------------------------ model evaluation
def coqval(v):
    """Python canonical value -> Gallina term of type `val`."""
    if v is None:
        return "VN"
    if isinstance(v, bool):
        return f"VZ {1 if v else 0}"
    if isinstance(v, int):
        return f"VZ ({v})" if v < 0 else f"VZ {v}"
    if isinstance(v, str):
        return 'VS "' + v.replace('"', '""') + '"'
    if isinstance(v, (list, tuple)):
        return "VL [" + "; ".join(coqval(x) for x in v) + "]"
    raise TypeError(f"not canonical: {v!r}")


def zopt(v):
    return "None" if v is None else f"(Some ({int(v)}))"


def zlist(l):
    return "[" + "; ".join(f"({int(x)})" if x < 0 else str(int(x)) for x in l) + "]"


def natlist(l):
    return "[" + "; ".join(str(int(x)) for x in l) + "]%nat"


def ensure_built(imports, timeout=900):
    """Bring the .vo files of the modules a case file imports up to date (they may lie outside the dependency
    closure of the property file that build() made).  Failures are left to the case compilation to report."""
    targets = []
    for name in imports.split():
        for sub in ("Model", "Gen", "Bridge", "Proofs"):
            if os.path.exists(os.path.join(COQ, sub, name + ".v")):
                targets.append(f"{sub}/{name}.vo")
                break
    if not targets or not os.path.exists(os.path.join(COQ, "Makefile")):
        return
    def mk():
        try:
            subprocess.run(["make", "-k", "-j8"] + targets, cwd=COQ, stdout=subprocess.DEVNULL,
                           stderr=subprocess.DEVNULL, timeout=timeout)
        except Exception:  # noqa
            pass
    if _HELD is not None:          # this process already holds the build lock (between regen and build)
        mk()
        return
    with open(LOCK, "w") as lk:
        fcntl.flock(lk, fcntl.LOCK_EX)
        try:
            mk()
        finally:
            fcntl.flock(lk, fcntl.LOCK_UN)


def run_cases(imports, pairs, chunk=400, jobs=8, preamble="", timeout=900):
    """pairs: list of (model_expr_of_type_val : str, observed canonical python value).
    Evaluates `val_eqb model observed` for every pair inside Coq (vm_compute) and returns
    (bad_indices, info).  Raises RuntimeError if Coq itself fails."""
    if not pairs:
        return [], {"files": 0}
    ensure_built(imports)
    d = tempfile.mkdtemp(prefix="xvrun-", dir=os.path.join(COQ, "Run"))
    try:
        names = []
        for ci, start in enumerate(range(0, len(pairs), chunk)):
            nm = f"cases_{ci}"
            names.append((nm, start))
            with open(os.path.join(d, nm + ".v"), "w") as f:
                f.write(f"From XV Require Import {imports}.\nOpen Scope Z_scope.\n{preamble}\n")
                f.write("Definition cases : list (val * val) := [\n")
                f.write(";\n".join(f"({m}, {coqval(o)})" for m, o in pairs[start:start + chunk]))
                f.write("\n].\nEval vm_compute in (bad_idx cases).\n")
        procs = []
        bad = []
        logs = {}
        pending = list(names)
        running = []
        while pending or running:
            while pending and len(running) < jobs:
                nm, start = pending.pop(0)
                p = subprocess.Popen(
                    f"ulimit -s unlimited; timeout {timeout} coqc -q -R {COQ} XV -w -notation-overridden {nm}.v",
                    shell=True, cwd=d, stdout=subprocess.PIPE, stderr=subprocess.STDOUT, text=True)
                running.append((p, nm, start))
            p, nm, start = running.pop(0)
            out, _ = p.communicate()
            if p.returncode != 0:
                raise RuntimeError(f"coqc failed on {nm}: {out[-2000:]}")
            m = re.search(r"=\s*\[(.*?)\]", out, re.S)
            if not m:
                raise RuntimeError(f"cannot parse coqc output for {nm}: {out[-500:]}")
            bad += [start + int(x) for x in re.findall(r"\d+", m.group(1))]
        return sorted(bad), {"files": len(names)}
    finally:
        shutil.rmtree(d, ignore_errors=True)


def eval_model(imports, exprs, preamble="", timeout=600):
    """Evaluate arbitrary Gallina expressions; returns the raw printed results (strings)."""
    ensure_built(imports)
    d = tempfile.mkdtemp(prefix="xveval-", dir=os.path.join(COQ, "Run"))
    try:
        with open(os.path.join(d, "ev.v"), "w") as f:
            f.write(f"From XV Require Import {imports}.\nOpen Scope Z_scope.\n{preamble}\n")
            for i, e in enumerate(exprs):
                f.write(f'Eval vm_compute in ({e}).\n')
        rc, out = sh(f"ulimit -s unlimited; timeout {timeout} coqc -q -R {COQ} XV -w -notation-overridden ev.v",
                     cwd=d, timeout=timeout + 30)
        if rc != 0:
            raise RuntimeError(out[-2000:])
        parts = re.split(r"^\s*= ", out, flags=re.M)[1:]
        return [re.sub(r"\s+", " ", p.rsplit("\n     : ", 1)[0]).strip() for p in parts]
    finally:
        shutil.rmtree(d, ignore_errors=True)


# ------------------------------------------------------------------ findings / verdict
def load_known():
    p = os.path.join(VERIF, "known_findings.json")
    if not os.path.exists(p):
        return []
    return json.load(open(p))


class Check:
    """Collects the outcome of one property check and writes evidence / verdict."""

    def __init__(self, pid, tier, seed):
        self.pid, self.tier, self.seed = pid, tier, seed
        self.t0 = time.time()
        self.rng = random.Random(seed)
        self.violations = []      # dicts: key, what, replay(dict)
        self.notes = []
        self.cov = {}
        self.assumptions = []
        self.samples = []
        self.evaluations = 0
        self.nontrivial = set()
        self.dist = {}
        self.broken = []          # broken obligations (build / bridge / translator)
        import glob as _g
        for old in _g.glob(os.path.join(REPLAY, f"{pid}-*.json")):
            os.remove(old)

    def count(self, bucket, key=1):
        d = self.dist.setdefault(bucket, {})
        d[str(key)] = d.get(str(key), 0) + 1

    def case(self, sig, nontrivial=True, sample=None):
        self.evaluations += 1
        if nontrivial:
            self.nontrivial.add(sig if isinstance(sig, str) else json.dumps(sig, sort_keys=True, default=str))
        if sample is not None and len(self.samples) < 400:
            self.samples.append(sample)

    def violation(self, key, what, replay):
        for v in self.violations:
            if v["key"] == key:
                v.setdefault("more", 0)
                v["more"] += 1
                return
        self.violations.append({"key": key, "what": what, "replay": replay})

    def _pick_samples(self, k=6):
        n = len(self.samples)
        if n <= k:
            return self.samples
        return [self.samples[(i * (n - 1)) // (k - 1)] for i in range(k)]

    def obligation_broken(self, what, detail):
        for b in self.broken:
            if b["what"] == what:
                b["count"] = b.get("count", 1) + 1
                if len(b.setdefault("more_details", [])) < 2:
                    b["more_details"].append(detail)
                return
        self.broken.append({"what": what, "detail": detail})

    def finish(self, build_res, prop_file, trusted_base, rule, level="proof", extra=None):
        os.makedirs(REPLAY, exist_ok=True)
        known = [k for k in load_known() if k.get("property") == self.pid and k.get("status") == "known"]
        known_keys = {k["key"]: k for k in known}
        lines, exit_code = [], 0
        real = []
        for v in self.violations:
            if v["key"] in known_keys:
                lines.append(f"KNOWN-FINDING: property={self.pid} {v['key']}: {known_keys[v['key']]['what']}")
            else:
                real.append(v)
        for v in real:
            h = hashlib.sha256((self.pid + v["key"]).encode()).hexdigest()[:10]
            path = os.path.join(REPLAY, f"{self.pid}-{h}.json")
            with open(path, "w") as f:
                json.dump({"property": self.pid, "key": v["key"], "what": v["what"], "replay": v["replay"],
                           "seed": self.seed, "tier": self.tier,
                           "replay_cmd": f"./check {self.pid} --replay {path}"}, f, indent=1, default=str)
            lines.append(f"VIOLATION property={self.pid} replay={path}")
            exit_code = 1
        if self.broken and not real:
            # an obligation no longer checks and no concrete failing input was found
            h = hashlib.sha256((self.pid + json.dumps(self.broken, sort_keys=True)).encode()).hexdigest()[:10]
            path = os.path.join(REPLAY, f"{self.pid}-{h}.json")
            with open(path, "w") as f:
                json.dump({"property": self.pid, "broken_obligations": self.broken,
                           "note": "no concrete failing input found by the search; the property is no "
                                   "longer shown to hold because these obligations do not check",
                           "seed": self.seed, "tier": self.tier}, f, indent=1, default=str)
            lines.append(f"VIOLATION property={self.pid} replay={path} no-failing-input-found")
            exit_code = 1
        total, discharged, names = obligations(prop_file, None if build_res.get("ok") else build_res.get("failed_file"))
        scan = forbidden_scan()
        cov = {
            "obligations": total, "discharged": discharged,
            "checker_cmd": " ; ".join(build_res.get("cmds", [])),
            "trusted_base": trusted_base + ["Print Assumptions: " + (build_res.get("assumptions") or "(not available: build failed)")],
            "property_theorems": names,
            "evaluations": self.evaluations,
            "distinct_nontrivial": len(self.nontrivial),
            "rule": rule,
            "samples": self._pick_samples() or ["(no correspondence case run)"],
            "input_distribution": self.dist,
            "forbidden_word_scan": scan or "clean",
            "coqchk": build_res.get("coqchk", "not run in this tier"),
            "broken_obligations": self.broken,
            "notes": self.notes,
        }
        cov.update(self.cov)
        if extra:
            cov.update(extra)
        ev = {"property_id": self.pid, "tier": self.tier, "seed": self.seed, "level": level,
              "coverage": cov, "assumptions": self.assumptions, "wall_s": round(time.time() - self.t0, 2),
              "violations": len(real) + (1 if self.broken and not real else 0)}
        os.makedirs(EVID, exist_ok=True)
        with open(os.path.join(EVID, f"{self.pid}.json"), "w") as f:
            json.dump(ev, f, indent=1, default=str)
        if scan:
            lines.append(f"VIOLATION property={self.pid} replay={os.path.join(EVID, self.pid + '.json')} no-failing-input-found")
            exit_code = 1
        for ln in lines:
            print(ln)
        print(f"[{self.pid}] tier={self.tier} seed={self.seed} obligations={discharged}/{total} "
              f"cases={self.evaluations} distinct={len(self.nontrivial)} violations={len(real)} "
              f"broken={len(self.broken)} wall={time.time() - self.t0:.1f}s")
        return exit_code


def scratch_dir(prefix="xv-"):
    base = os.environ.get("XV_SCRATCH", "/var/tmp")
    return tempfile.mkdtemp(prefix=prefix, dir=base)


def generic_replay(run_fn, path):
    """Replay by re-running the (deterministic, seeded) check that produced the file and
    reporting whether the same violation key shows up again."""
    r = json.load(open(path))
    print("replaying", path)
    print(json.dumps({k: r.get(k) for k in ("property", "key", "what")}, indent=1)[:1500])
    if "replay" in r:
        print("input:", json.dumps(r["replay"], default=str)[:3000])
    if "key" not in r:
        print(json.dumps(r, indent=1, default=str)[:3000])
    rc = run_fn(r.get("tier", "quick"), int(r.get("seed", 0)))
    return rc


def safe_run_cases(check, imports, pairs, what="model evaluation", **kw):
    """run_cases, but a failure of Coq itself (e.g. a Gen file that no longer type-checks) is
    recorded as a broken obligation instead of aborting the check."""
    try:
        return run_cases(imports, pairs, **kw)
    except RuntimeError as e:
        check.obligation_broken(f"{what}: the model could not be evaluated", str(e)[-1500:])
        return [], {"files": 0, "failed": True}
