"""C03 -- labelled outputs name every number correctly (Dataset and DataFrame)."""
import functools
import itertools
import json
import os
import shutil

import numpy as np

from harness import core
from harness.core import zlist, natlist
from harness.impl import runner as R
from harness.impl.crops import py_perm

PROP_FILE = "Props/C03.v"
TRUSTED = [
    "Coq 8.16.1 kernel (coqc, full .vo build); vm_compute for the old-flow witness and case evaluation",
    "translator gen_runner.py: abstract interpretation of combo_runner_core's data flow (which list is run, the "
    "un-shuffle, which list becomes info['settings'], _unflatten pinned to the transcribed text), bridged in "
    "Bridge/BridgeRunner.v; C03_df_rows is proved over the regenerated flow",
    "translator gen_label.py: statement shape of results_to_df (row steps in order) and results_to_ds (coordinate "
    "order, dimension order, result/name pairing, attrs copied, constants to coordinates or to the Dataset's own "
    "attributes); bridged in Bridge/BridgeLabel.v, interpreted by Model/LabelFlow.v (C03_generated_builders)",
    "hand model Model/Label.v of results_to_ds / results_to_df, validated by differential execution",
    "xarray.Dataset construction (np.asarray of the nested tuple, coords, attrs), pandas.DataFrame construction and "
    "multi_concat for functions returning Dataset/DataArray/dict are library behaviour: oracle-tested only",
]
RULE = ("random sweeps (grids and case sets as in C01/C02) x runner descriptions: 1-3 output variables, scalar or "
        "1-d array outputs with an internal dimension given by var_coords or by a constant, spellings of "
        "var_names/var_dims (str, tuple, dict, dict with tuple keys), constants / resources / attrs, through "
        "combo_runner_to_ds, case_runner_to_ds, *_to_df, Runner.run_combos / run_cases, label(), functions returning "
        "Dataset / dict with var_names=None, shuffle and parallel options; plus histories of 2-4 runs through ONE Runner / "
        "label object or one shared attrs mapping with per-call constants (no state carried between runs); distinct = distinct (sweep, description, "
        "api, options); non-trivial = at least two settings")

VAR_ID = {"v0": 100, "v1": 101, "v2": 102}
DIM_ID = {"t": 8}
ATTR_ID = {"at1": 300, "at2": 301}
T_COORDS = [0, 1, 2]


def out_of(kind, c):
    if kind == 11:
        return 10 * c
    if kind in (12, 13):
        return tuple(10 * c + j for j in range(kind - 10))
    if kind == 21:
        return np.array([10 * c + 100 * t for t in range(3)])
    if kind == 31:
        return f"s{10 * c}"
    if kind == 32:
        return (10 * c, 10 * c + 1)
    if kind in (22, 23):
        return tuple(np.array([10 * c + j + 100 * t for t in range(3)]) for j in range(kind - 20))
    raise ValueError(kind)


def labelled_fn(ranks, kind, mode, **kw):
    c = 0
    for a, v in kw.items():
        aid = R.ARGS.index(a) if a in R.ARGS else (R.CONST_ARGS[a] if a in R.CONST_ARGS else DIM_ID[a])
        r = ranks[a][v] if a in ranks else (len(v) if isinstance(v, (list, tuple, np.ndarray)) else v)
        c += (r + 1) * 7 ** aid
    out = out_of(kind, c)
    if mode == "plain":
        return out
    import xarray as xr
    nv = kind % 10
    outs = out if isinstance(out, tuple) else (out,)
    if kind >= 20:
        dv = {f"v{j}": (("t",), np.asarray(o)) for j, o in enumerate(outs)}
    else:
        dv = {f"v{j}": ((), o) for j, o in enumerate(outs)}
    if mode == "dataset":
        return xr.Dataset(dv, coords={"t": T_COORDS} if kind >= 20 else None)
    if mode == "dataset-nolabel":
        return xr.Dataset(dv)            # the internal dimension is labelled by a constant of the run instead
    return {k: v for k, v in dv.items()}   # dict of (dims, data)


def spell_var_dims(rng, names, arrays):
    if not arrays:
        return rng.choice([None, {}])
    r = rng.random()
    if len(names) == 1 and r < 0.3:
        return "t"
    if r < 0.5:
        return tuple(("t",) if rng.random() < 0.5 else "t" for _ in names) if len(names) > 1 else {names[0]: "t"}
    if r < 0.75 and len(names) > 1:
        return {tuple(names): ["t"]}
    return {n: (["t"] if rng.random() < 0.5 else "t") for n in names}


def canon_ds(ds, sw, fn_args, names, var_dims_model, const_dims):
    import xarray as xr
    coords = []
    for a in fn_args:
        coords.append([sw.argid(a), [sw.rank[a][v.item() if hasattr(v, "item") else v] for v in ds[a].values]])
    for d in ds.dims:
        if d not in fn_args and d in ds.coords and d not in const_dims:
            coords.append([DIM_ID[d], [int(x) for x in ds[d].values]])
    vs = []
    for n in names:
        da = ds[n]
        order = list(fn_args) + [d for d in da.dims if d not in fn_args]
        arr = da.transpose(*order).values

        def walk(a, depth):
            if depth == len(fn_args):
                flat = np.atleast_1d(a)
                if flat.dtype.kind == "f" and np.isnan(flat).all():
                    return ["leaf", ["hole"]]
                if flat.dtype == object and all(x is None or (isinstance(x, float) and np.isnan(x)) for x in flat):
                    return ["leaf", ["hole"]]
                return ["leaf", R.canon_result(a if np.ndim(a) else a.item() if hasattr(a, "item") else a)]
            return [walk(x, depth + 1) for x in a]
        vs.append([VAR_ID[n], [sw.argid(d) if d in sw.rank else DIM_ID[d] for d in da.dims], walk(arr, 0)])
    attrs = [[ATTR_ID.get(k, R.CONST_ARGS.get(k)), int(v)] for k, v in ds.attrs.items()]
    cc = [[DIM_ID[d], len(ds[d].values)] for d in const_dims if d in ds.coords]
    return [0, [coords, vs, attrs, cc]]


def one_case(c, rng, tmp):
    import xyzpy
    with_cases = rng.random() < 0.35
    sw = R.Sweep(rng, with_cases=with_cases, max_args=3, max_vals=3, kind=0, allow_consts=False)
    nv = rng.randint(1, 3)
    arrays = rng.random() < 0.45
    kind = (20 if arrays else 10) + nv
    names = [f"v{j}" for j in range(nv)]
    one_iterable = None
    to_df = (not arrays) and rng.random() < 0.35
    if to_df and nv == 1 and rng.random() < 0.35:
        kind = one_iterable = rng.choice([31, 32])         # ONE output that can be iterated over (a string, a pair)
    mode = "plain"
    if not to_df and rng.random() < 0.12:
        mode = rng.choice(["dataset", "dict"])
    # constants / resources / attrs
    constants, resources, attrs = {}, {}, {}
    if rng.random() < 0.5:
        constants["k1"] = rng.randint(0, 4)
    if rng.random() < 0.4:
        resources["k2"] = rng.randint(0, 4)
    if rng.random() < 0.4:
        attrs["at1"] = rng.randint(0, 9)
    t_source = None
    if arrays and mode == "plain":
        t_source = rng.choice(["var_coords", "constant", "none"])
        if t_source == "constant":
            constants["t"] = list(T_COORDS)
    if arrays and mode != "plain" and rng.random() < 0.5:
        # labelled results whose internal dimension carries no coordinate of its own: a constant naming that
        # dimension supplies it (coordinate, not attribute), exactly as with declared var_dims
        t_source = "constant"
        constants["t"] = list(T_COORDS)
        if mode == "dataset":
            mode = "dataset-nolabel"
    var_coords = {"t": list(T_COORDS)} if t_source == "var_coords" else None
    shuffle = rng.choice([False, False, True, rng.randint(2, 99)])
    api = rng.choice(["function", "function", "Runner", "label"])
    fn = functools.partial(labelled_fn, sw.rank, kind, mode)
    var_names = None if mode != "plain" else (names[0] if nv == 1 and rng.random() < 0.5 else tuple(names))
    var_dims = None if mode != "plain" else spell_var_dims(rng, names, arrays)
    desc = {"sweep": sw.describe(), "n_vars": nv, "arrays": arrays, "to_df": to_df, "mode": mode, "api": api,
            "constants": {k: (v if not isinstance(v, list) else "list") for k, v in constants.items()},
            "resources": resources, "attrs": attrs, "t_source": t_source, "shuffle": shuffle,
            "var_names": var_names, "var_dims": repr(var_dims), "kind_override": one_iterable}
    extra = {}
    pool = None
    if rng.random() < 0.06:
        extra["parallel"] = True
        extra["num_workers"] = 2
    elif rng.random() < 0.06:
        import concurrent.futures as cf
        pool = cf.ThreadPoolExecutor(2)
        extra["executor"] = pool
    combos = sw.combos_arg(rng, iterators=True) if sw.combos else None      # values may be one-shot iterables
    cases_t = [tuple(cc) for cc in sw.cases]
    # a single case argument may be given as bare values (also strings) and as a bare name
    bare = len(sw.case_args) == 1 and rng.random() < 0.5
    cases_sp = [cc[0] for cc in cases_t] if bare else cases_t
    fn_args_sp = sw.case_args[0] if (bare and rng.random() < 0.5) else tuple(sw.case_args)
    desc["bare_case_values"] = bare
    given = {"constants": constants, "resources": resources, "attrs": attrs}
    # what xyzpy is handed: copies, now and then spelled as a list of (name, value) pairs (anything dict() accepts)
    def handed_form(m):
        return list(m.items()) if (m and rng.random() < 0.12) else dict(m)
    constants, resources, attrs = handed_form(constants), handed_form(resources), handed_form(attrs)
    if var_coords and rng.random() < 0.12:
        var_coords = list(var_coords.items())
    desc["pair_lists"] = [k for k, v in (("constants", constants), ("resources", resources), ("attrs", attrs),
                                         ("var_coords", var_coords)) if isinstance(v, list)]
    try:
        if api == "function":
            if sw.cases and rng.random() < 0.5:
                f = xyzpy.case_runner_to_df if to_df else xyzpy.case_runner_to_ds
                out = f(fn, fn_args_sp, cases_sp, var_names, var_dims=var_dims, var_coords=var_coords,
                        combos=combos, constants=constants or None, resources=resources or None,
                        attrs=attrs or None, shuffle=shuffle, verbosity=0, **extra)
            else:
                f = xyzpy.combo_runner_to_df if to_df else xyzpy.combo_runner_to_ds
                cases_d = None
                if sw.cases:
                    # dict cases: the first fixes the argument order, later ones may spell their keys in any order
                    cases_d = sw.cases_dicts()
                    for ci in range(1, len(cases_d)):
                        items = list(cases_d[ci].items())
                        if len(items) > 1 and rng.random() < 0.5:
                            rng.shuffle(items)
                            cases_d[ci] = dict(items)
                    if len(cases_d) == 1 and rng.random() < 0.5:
                        cases_d = cases_d[0]          # a single case may be given as the bare dict
                        desc["single_dict_case"] = True
                out = f(fn, combos, var_names, var_dims=var_dims, var_coords=var_coords,
                        cases=cases_d, constants=constants or None,
                        resources=resources or None, attrs=attrs or None, shuffle=shuffle, verbosity=0, **extra)
        else:
            # the runner's own fn_args: any order when the call names its fn_args itself (run_cases below does)
            own_args = list(sw.case_args + sw.combo_args)
            if sw.cases and rng.random() < 0.6:
                rng.shuffle(own_args)
            desc["runner_fn_args"] = list(own_args)
            # default runner settings given at construction (a per-call setting overrides them)
            defaults, percall = {}, {"shuffle": shuffle, "verbosity": 0}
            r = rng.random()
            if r < 0.25:
                defaults, percall = {"shuffle": shuffle, "verbosity": 0}, {}
            elif r < 0.45:
                defaults = {"shuffle": rng.choice([True, 5, False]), "verbosity": 0}
            desc["runner_defaults"] = {k: repr(v) for k, v in defaults.items()}
            if api == "label":
                runner = xyzpy.label(var_names, var_dims=var_dims, var_coords=var_coords,
                                     constants=constants or None, resources=resources or None, attrs=attrs or None,
                                     fn_args=tuple(own_args), **defaults)(fn)
            elif rng.random() < 0.3:
                # the description assigned after construction, through the Runner's attributes
                desc["runner_attributes_assigned"] = True
                runner = xyzpy.Runner(fn, None, attrs=attrs or None, **defaults)
                runner.fn_args = tuple(own_args)
                runner.var_names = var_names
                runner.var_dims = var_dims
                runner.var_coords = var_coords
                runner.constants = constants or None
                runner.resources = resources or None
            else:
                runner = xyzpy.Runner(fn, var_names, var_dims=var_dims, var_coords=var_coords,
                                      constants=constants or None, resources=resources or None, attrs=attrs or None,
                                      fn_args=tuple(own_args), **defaults)
            if sw.cases:
                # the sub-grid in any spelling run_combos accepts (dict, tuple of pairs, a single pair)
                out = runner.run_cases(cases_sp, fn_args=fn_args_sp, combos=combos,
                                       to_df=to_df, **percall, **extra)
            else:
                out = runner.run_combos(combos, to_df=to_df, **percall, **extra)
    except Exception as e:  # noqa
        if pool is not None:
            pool.shutdown()
        return desc, {"error": f"{type(e).__name__}: {str(e)[:200]}"}, None, sw
    if pool is not None:
        pool.shutdown()
    modified = {k: v for k, v in (("constants", constants), ("resources", resources), ("attrs", attrs))
                if dict(v) != given[k] or (isinstance(v, list) and v != list(given[k].items()))}
    constants, resources, attrs = given["constants"], given["resources"], given["attrs"]
    fn_args = list(sw.case_args) + list(sw.combo_args)
    perm = py_perm(shuffle, sw.n_settings()) if shuffle else None
    # model input: consts = resources then constants (dict merge order of combo_runner_to_ds)
    kw_consts = [(R.CONST_ARGS[k], v) for k, v in resources.items()]
    kw_consts += [((R.CONST_ARGS[k] if k in R.CONST_ARGS else DIM_ID[k]), (len(v) if isinstance(v, list) else v))
                  for k, v in constants.items()]
    sw2 = sw
    sw2.consts = {}
    inp = sw.coq_input(False, False, perm).replace(" [] false false", " CONSTS false false", 1)
    inp = inp.replace("CONSTS", "[" + "; ".join(f"({a}, {v})" for a, v in kw_consts) + "]")
    obs = {"out": out}
    if modified:
        obs["caller_modified"] = {k: repr(v) for k, v in modified.items()}
    if to_df:
        rows = []
        for _, r in out.iterrows():
            kwp = []
            outs = []
            for col in out.columns:
                v = r[col]
                if col in VAR_ID:
                    outs.append([VAR_ID[col], R.canon_result(v)])
                elif col in sw.rank:
                    kwp.append([sw.argid(col), sw.rank[col][v.item() if hasattr(v, "item") else v]])
                else:
                    kwp.append([ATTR_ID.get(col, R.CONST_ARGS.get(col)), int(v)])
            rows.append([kwp, outs])
        obs["canon"] = rows
        model = (f"run_df {kind} {zlist([R.CONST_ARGS[k] for k in resources])} "
                 f"[{'; '.join(f'({ATTR_ID[k]}, {v})' for k, v in attrs.items())}] "
                 f"{zlist([VAR_ID[n] for n in names])} {inp}")
    elif mode == "plain":
        const_dims = [k for k in constants if k in DIM_ID]
        obs["canon"] = canon_ds(out, sw, fn_args, names, None, const_dims)
        vd = "[" + "; ".join(f"({VAR_ID[n]}, [{DIM_ID['t']}])" for n in names) + "]" if arrays else "[]"
        vc = f"[({DIM_ID['t']}, {zlist(T_COORDS)})]" if t_source == "var_coords" else "[]"
        cs = "[" + "; ".join(f"({(R.CONST_ARGS[k] if k in R.CONST_ARGS else DIM_ID[k])}, "
                             f"{(len(v) if isinstance(v, list) else v)})" for k, v in constants.items()) + "]"
        at = "[" + "; ".join(f"({ATTR_ID[k]}, {v})" for k, v in attrs.items()) + "]"
        model = f"run_ds {kind} {zlist([VAR_ID[n] for n in names])} {vd} {vc} {cs} {at} {inp}"
    else:
        model = None
    return desc, obs, model, sw


def ds_model_expr(sw, kind, names, constants, resources, attrs, perm):
    """run_ds expression for scalar outputs (the same construction as in one_case)."""
    kw_consts = [(R.CONST_ARGS[k], v) for k, v in resources.items()]
    kw_consts += [(R.CONST_ARGS[k], v) for k, v in constants.items()]
    sw.consts = {}
    inp = sw.coq_input(False, False, perm).replace(" [] false false", " CONSTS false false", 1)
    inp = inp.replace("CONSTS", "[" + "; ".join(f"({a}, {v})" for a, v in kw_consts) + "]")
    cs = "[" + "; ".join(f"({R.CONST_ARGS[k]}, {v})" for k, v in constants.items()) + "]"
    at = "[" + "; ".join(f"({ATTR_ID[k]}, {v})" for k, v in attrs.items()) + "]"
    return f"run_ds {kind} {zlist([VAR_ID[n] for n in names])} [] [] {cs} {at} {inp}"


def history_case(c, rng):
    """Several runs through ONE Runner / label object (or one attrs dict handed to several calls): every run's
    Dataset must be the model's for that run's own description -- nothing carried over from earlier runs."""
    import xyzpy
    sw = R.Sweep(rng, with_cases=False, max_args=3, max_vals=3, kind=0, allow_consts=False)
    nv = rng.randint(1, 2)
    kind = 10 + nv
    names = [f"v{j}" for j in range(nv)]
    attrs = {"at1": rng.randint(0, 9)}
    if rng.random() < 0.3:
        attrs["at2"] = rng.randint(0, 9)
    if rng.random() < 0.15:
        attrs = {}
    base = {"k1": rng.randint(0, 4)} if rng.random() < 0.25 else {}
    resources = {"k2": rng.randint(0, 4)} if rng.random() < 0.4 else {}
    api = rng.choice(["Runner", "label", "shared-dict"])
    fn = functools.partial(labelled_fn, sw.rank, kind, "plain")
    fn_args = list(sw.combo_args)
    shared = dict(attrs)
    if api == "Runner":
        runner = xyzpy.Runner(fn, tuple(names), constants=base or None, resources=resources or None,
                              attrs=shared or None, fn_args=tuple(fn_args))
    elif api == "label":
        runner = xyzpy.label(tuple(names), constants=base or None, resources=resources or None,
                             attrs=shared or None, fn_args=tuple(fn_args))(fn)
    out = []
    for i in range(rng.randint(2, 4)):
        callc = {}
        if rng.random() < (0.8 if i == 0 else 0.35):
            callc["k1"] = rng.randint(0, 4)
        shuffle = rng.choice([False, False, True])
        combos = sw.combos_arg(rng)
        eff = {**base, **callc}
        desc = {"history": True, "api": api, "run": i, "sweep": sw.describe(), "n_vars": nv, "arrays": False,
                "to_df": False, "mode": "plain", "constants": dict(eff), "call_constants": dict(callc),
                "resources": resources, "attrs": attrs, "shuffle": shuffle, "t_source": None}
        try:
            if api == "shared-dict":
                ds = xyzpy.combo_runner_to_ds(fn, combos, tuple(names), constants=eff or None,
                                              resources=resources or None, attrs=shared or None, shuffle=shuffle,
                                              verbosity=0)
            else:
                ds = runner.run_combos(combos, constants=callc, shuffle=shuffle, verbosity=0)
        except Exception as e:  # noqa
            out.append((desc, {"error": f"{type(e).__name__}: {str(e)[:200]}"}, None, sw, eff))
            continue
        perm = py_perm(shuffle, sw.n_settings()) if shuffle else None
        obs = {"out": ds, "canon": canon_ds(ds, sw, fn_args, names, None, [])}
        model = ds_model_expr(sw, kind, names, eff, resources, attrs, perm)
        if shared != attrs:
            obs["caller_attrs_modified"] = dict(shared)
        out.append((desc, obs, model, sw, eff))
    return out


def shifted_fn(a, b, n=3):
    """Returns labelled data itself; its internal coordinate `x` depends on the swept argument a."""
    import xarray as xr
    x = [10 * a + i for i in range(n)]
    return xr.Dataset({"u": (("x",), np.array([100.0 * a + 10 * b + i for i in range(n)])),
                       "w": ((), float(a - b))}, coords={"x": x})


UNSORTABLE = [1 + 2j, 2 - 1j, 3j, -1 + 0.5j]


def unsort_fn(u, n, m=0):
    return 1000.0 * UNSORTABLE.index(u) + 10 * n + m


def unsortable_stream(c, n):
    """Case sets in which ONE argument takes values Python cannot order (complex numbers): the coordinate of every
    other case argument is still the sorted union of its values, and selecting any case by label gives the
    function's value there (oracle only: the model's coordinates are sorted lists of ranks)."""
    import xyzpy
    for k in range(n):
        rng = c.rng
        nvals = rng.sample(range(0, 40), rng.randint(2, 4)) if rng.random() < 0.7 else \
            [x / 4 for x in rng.sample(range(-9, 60), rng.randint(2, 4))]
        mvals = rng.sample(range(-5, 30), rng.randint(1, 3))
        three = rng.random() < 0.4
        cases = []
        for _ in range(rng.randint(2, 6)):
            cs = (rng.choice(UNSORTABLE), rng.choice(nvals)) + ((rng.choice(mvals),) if three else ())
            if cs not in cases:
                cases.append(cs)
        names = ("u", "n", "m") if three else ("u", "n")
        order = list(range(len(names)))
        rng.shuffle(order)                      # the unsortable argument first, last or in the middle
        fa = tuple(names[i] for i in order)
        cs_sp = [tuple(cs[i] for i in order) for cs in cases]
        api = rng.choice(["case_runner_to_ds", "combo_runner_to_ds", "Runner.run_cases", "label.run_cases"])
        shuffle = rng.choice([False, False, True, 5])
        rep = {"stream": "unsortable-case-argument", "api": api, "fn_args": list(fa),
               "cases": [[str(v) for v in cs] for cs in cs_sp], "shuffle": shuffle}
        try:
            if api == "case_runner_to_ds":
                ds = xyzpy.case_runner_to_ds(unsort_fn, fa, cs_sp, "out", shuffle=shuffle, verbosity=0)
            elif api == "combo_runner_to_ds":
                ds = xyzpy.combo_runner_to_ds(unsort_fn, None, "out", cases=[dict(zip(fa, cs)) for cs in cs_sp],
                                              shuffle=shuffle, verbosity=0)
            elif api == "Runner.run_cases":
                ds = xyzpy.Runner(unsort_fn, "out", fn_args=fa).run_cases(cs_sp, shuffle=shuffle, verbosity=0)
            else:
                ds = xyzpy.label("out", fn_args=fa)(unsort_fn).run_cases(cs_sp, shuffle=shuffle, verbosity=0)
        except Exception as e:  # noqa
            c.violation("raised", f"{type(e).__name__}: {str(e)[:160]}", rep)
            continue
        c.case(json.dumps(rep, sort_keys=True), nontrivial=True, sample=rep if k % 10 == 0 else None)
        c.count("api", "unsortable/" + api)
        bad = None
        for j, nm in enumerate(names):
            if nm == "u":
                if sorted(map(str, ds["u"].values.tolist())) != sorted({str(cs[0]) for cs in cases}):
                    bad = f"coordinate u holds {ds['u'].values.tolist()}"
                continue
            want = sorted({cs[j] for cs in cases})
            got = [v.item() if hasattr(v, "item") else v for v in ds[nm].values]
            if got != want:
                bad = f"coordinate {nm} holds {got}, the sorted union of its case values is {want}"
        if bad is None:
            asked = {cs: unsort_fn(*cs) for cs in cases}
            for pt in itertools.product(*[ds[nm].values.tolist() for nm in names]):
                v = float(ds["out"].sel(**dict(zip(names, pt))).values)
                if pt in asked and v != asked[pt]:
                    bad = f"case {pt} holds {v}, the function gives {asked[pt]}"
                elif pt not in asked and not np.isnan(v):
                    bad = f"point {pt} was not a case but holds {v}"
        if bad:
            c.violation("dataset-differs", "unsortable case argument: " + bad, rep)


def mixed_fn(a, b):
    return 10 * a + b, np.array([100.0 * a + 10 * b + t for t in range(3)])


def mixed_outputs_stream(c, n):
    """One scalar output next to one array output, the internal dimension declared in every spelling of var_dims
    (positional with an EMPTY entry for the scalar, either order; mapping; mapping with tuple keys): the scalar has
    the swept dimensions only, the array those followed by its own, every number in place (oracle only)."""
    import xyzpy
    for k in range(n):
        rng = c.rng
        swap = rng.random() < 0.5                      # which output comes first
        names = ("arr", "s") if swap else ("s", "arr")
        fn = (lambda a, b: mixed_fn(a, b)[::-1]) if swap else mixed_fn
        empty = rng.choice([(), []])
        dims_t = rng.choice([("t",), ["t"], "t"])
        spelling = rng.choice(["positional", "positional", "mapping", "mapping-with-empty"])
        if spelling == "positional":
            var_dims = [dims_t, empty] if swap else [empty, dims_t]
            if rng.random() < 0.5:
                var_dims = tuple(var_dims)
        elif spelling == "mapping":
            var_dims = {"arr": dims_t}
        else:
            var_dims = {"arr": dims_t, "s": empty}
        avals = sorted(rng.sample(range(1, 6), rng.randint(1, 3)))
        bvals = sorted(rng.sample(range(0, 4), rng.randint(1, 2)))
        api = rng.choice(["combo_runner_to_ds", "Runner.run_combos", "label.run_combos"])
        rep = {"stream": "scalar-and-array-outputs", "api": api, "names": list(names), "var_dims": repr(var_dims),
               "a": avals, "b": bvals}
        try:
            if api == "combo_runner_to_ds":
                ds = xyzpy.combo_runner_to_ds(fn, {"a": avals, "b": bvals}, names, var_dims=var_dims,
                                              var_coords={"t": [0, 1, 2]}, verbosity=0)
            elif api == "Runner.run_combos":
                ds = xyzpy.Runner(fn, names, var_dims=var_dims, var_coords={"t": [0, 1, 2]}).run_combos(
                    {"a": avals, "b": bvals}, verbosity=0)
            else:
                ds = xyzpy.label(names, var_dims=var_dims, var_coords={"t": [0, 1, 2]})(fn).run_combos(
                    {"a": avals, "b": bvals}, verbosity=0)
        except Exception as e:  # noqa
            c.case(json.dumps(rep, sort_keys=True), nontrivial=True)
            c.violation("raised", f"{type(e).__name__}: {str(e)[:160]} (var_dims={var_dims!r})", rep)
            continue
        c.case(json.dumps(rep, sort_keys=True), nontrivial=True, sample=rep if k % 10 == 0 else None)
        c.count("api", "mixed/" + api); c.count("var_dims_spelling", spelling)
        bad = None
        if tuple(ds["s"].dims) != ("a", "b") or tuple(ds["arr"].dims) != ("a", "b", "t"):
            bad = f"s has dims {ds['s'].dims}, arr has dims {ds['arr'].dims}"
        else:
            for a in avals:
                for b in bvals:
                    sv, av = mixed_fn(a, b)
                    if float(ds["s"].sel(a=a, b=b)) != sv or list(ds["arr"].sel(a=a, b=b).values) != list(av):
                        bad = f"values at a={a}, b={b}"
        if bad:
            c.violation("dataset-differs", "scalar and array outputs: " + bad, rep)


def shifted_coord_stream(c, n):
    """Functions that return a Dataset / DataArray whose INTERNAL coordinate depends on a swept argument (same
    length for every setting): the results are outer-aligned, so selecting a setting and one of ITS x labels
    gives the number the function returned there, and the other settings' labels are missing for it."""
    import xyzpy
    for k in range(n):
        rng = c.rng
        avals = sorted(rng.sample(range(1, 6), rng.randint(2, 3)))
        bvals = sorted(rng.sample(range(0, 4), rng.randint(1, 2)))
        api = rng.choice(["combo_runner_to_ds", "case_runner_to_ds", "Runner.run_combos", "label.run_cases"])
        shuffle = rng.choice([False, False, True, 7])
        rep = {"stream": "internal-coordinate-depends-on-argument", "api": api, "a": avals, "b": bvals, "shuffle": shuffle}
        try:
            if api == "combo_runner_to_ds":
                ds = xyzpy.combo_runner_to_ds(shifted_fn, {"a": avals, "b": bvals}, None, shuffle=shuffle, verbosity=0)
            elif api == "case_runner_to_ds":
                ds = xyzpy.case_runner_to_ds(shifted_fn, ("a", "b"), [(a, b) for a in avals for b in bvals], None,
                                             shuffle=shuffle, verbosity=0)
            elif api == "Runner.run_combos":
                ds = xyzpy.Runner(shifted_fn, None).run_combos({"a": avals, "b": bvals}, shuffle=shuffle, verbosity=0)
            else:
                ds = xyzpy.label(None, fn_args=("a", "b"))(shifted_fn).run_cases(
                    [(a, b) for a in avals for b in bvals], shuffle=shuffle, verbosity=0)
        except Exception as e:  # noqa
            c.violation("raised", f"{type(e).__name__}: {str(e)[:160]}", rep)
            continue
        c.case(json.dumps(rep, sort_keys=True), nontrivial=True, sample=rep if k % 10 == 0 else None)
        c.count("api", "shifted/" + api)
        bad = None
        for a in avals:
            for b in bvals:
                sub = ds.sel(a=a, b=b)
                own = [10 * a + i for i in range(3)]
                for i, x in enumerate(own):
                    if x not in ds["x"].values or float(sub["u"].sel(x=x)) != 100.0 * a + 10 * b + i:
                        bad = (f"u.sel(a={a}, b={b}, x={x}) = "
                               f"{float(sub['u'].sel(x=x)) if x in ds['x'].values else 'no such label'}, the function "
                               f"returned {100.0 * a + 10 * b + i} there")
                for x in ds["x"].values:
                    if int(x) not in own and not np.isnan(float(sub["u"].sel(x=x))):
                        bad = f"u.sel(a={a}, b={b}, x={int(x)}) holds {float(sub['u'].sel(x=x))} but the function never returned that label for this setting"
                if float(sub["w"]) != float(a - b):
                    bad = f"w.sel(a={a}, b={b}) = {float(sub['w'])}"
        if bad:
            c.violation("ds-sel-wrong-value", bad, rep)


def oracle(desc, obs, sw, constants_full):
    """The property statement on the real output (independent of the Coq model)."""
    bad = []
    if "error" in obs:
        return [("raised", obs["error"])]
    out = obs["out"]
    fn_args = list(sw.case_args) + list(sw.combo_args)
    kind = desc.get("kind_override") or ((20 if desc["arrays"] else 10) + desc["n_vars"])
    names = [f"v{j}" for j in range(desc["n_vars"])]
    consts = dict(desc["resources"])
    consts.update(constants_full)
    requested = []
    for cs in (sw.cases or [()]):
        for vals in itertools.product(*[v for _, v in sw.combos]):
            kw = dict(zip(sw.case_args, cs))
            kw.update(zip(sw.combo_args, vals))
            requested.append(kw)

    def expected(kw):
        full = dict(kw)
        full.update(consts)
        c = 0
        for a, v in full.items():
            aid = R.ARGS.index(a) if a in R.ARGS else (R.CONST_ARGS[a] if a in R.CONST_ARGS else DIM_ID[a])
            r = sw.rank[a][v] if a in sw.rank else (len(v) if isinstance(v, list) else v)
            c += (r + 1) * 7 ** aid
        o = out_of(kind, c)
        if kind in (31, 32):
            return (o,)                 # ONE output, whatever its type
        return o if isinstance(o, tuple) else (o,)
    if desc["to_df"]:
        if len(out) != len(requested):
            bad.append(("df-row-count", f"{len(out)} rows for {len(requested)} evaluated settings"))
        for k in desc["resources"]:
            if k in out.columns:
                bad.append(("df-resource-recorded", f"resource {k} is a column"))
        for _, r in out.iterrows():
            kw = {a: (r[a].item() if hasattr(r[a], "item") else r[a]) for a in fn_args}
            exp = expected(kw)
            plain = lambda x: tuple(plain(y) for y in x) if isinstance(x, (tuple, list)) else (x if isinstance(x, str) else int(x))   # noqa
            got = tuple(plain(r[n]) for n in names)
            if got != tuple(plain(x) for x in exp):
                bad.append(("df-row-mispaired", f"row with {kw} holds outputs {got}, the function gives {exp}"))
                break
        return bad
    ds = out
    for a in fn_args:
        if a not in ds.dims:
            bad.append(("ds-arg-not-a-dimension", a))
            return bad
        want = sorted({c[sw.case_args.index(a)] for c in sw.cases}) if a in sw.case_args else list(dict(sw.combos)[a])
        if [v.item() if hasattr(v, "item") else v for v in ds[a].values] != want:
            bad.append(("ds-coordinate-values", f"coordinate of {a} is {list(ds[a].values)}, swept {want}"))
    for j, n in enumerate(names):
        if n not in ds:
            bad.append(("ds-variable-missing", n))
            continue
        if desc["mode"] == "plain":
            want_dims = tuple(fn_args) + (("t",) if desc["arrays"] else ())
            if tuple(ds[n].dims) != want_dims:
                bad.append(("ds-variable-dims", f"{n} has dims {ds[n].dims}, expected {want_dims}"))
                continue
        reqset = {tuple(kw[a] for a in fn_args) for kw in requested}
        for vals in itertools.product(*[[v.item() if hasattr(v, "item") else v for v in ds[a].values] for a in fn_args]):
            kw = dict(zip(fn_args, vals))
            got = np.atleast_1d(ds[n].sel(kw).values)
            if tuple(vals) in reqset:
                exp = np.atleast_1d(expected(kw)[j])
                if got.shape != exp.shape or not np.array_equal(got.astype(float), exp.astype(float)):
                    bad.append(("ds-sel-wrong-value", f"{n}.sel({kw}) = {got.tolist()}, function returned {exp.tolist()}"))
                    break
            elif not (got.dtype.kind == "f" and np.isnan(got).all()):
                bad.append(("ds-unrequested-not-missing", f"{n}.sel({kw}) = {got.tolist()}"))
                break
    for k, v in constants_full.items():
        if k in ds.dims:
            if k not in ds.coords:
                bad.append(("ds-constant-dimension-without-coordinate", k))
        elif ds.attrs.get(k) != v:
            bad.append(("ds-constant-not-attribute", f"{k}: {ds.attrs.get(k)}"))
    for k in desc["resources"]:
        if k in ds.attrs or k in ds.coords:
            bad.append(("ds-resource-recorded", k))
    for k, v in desc["attrs"].items():
        if ds.attrs.get(k) != v:
            bad.append(("ds-attr-lost", k))
    allowed = set(desc["attrs"]) | {k for k in constants_full if k not in ds.dims}
    extra = sorted(set(ds.attrs) - allowed)
    if extra:
        bad.append(("ds-attribute-not-of-this-run", f"attributes {extra} = {[ds.attrs[k] for k in extra]} are neither "
                    "attrs nor constants of this run"))
    seen = set()
    return [b for b in bad if not (b[0] in seen or seen.add(b[0]))]


def run(tier, seed):
    c = core.Check("C03", tier, seed)
    gen_st = core.regen()
    b = core.build(PROP_FILE)
    c.cov["translator"] = {k: v for k, v in gen_st.items() if k in ("GenRunner", "GenLabel", "GenFarmer")}
    c.cov["build"] = {"ok": b["ok"], "failed_file": b["failed_file"], "wall_s": round(b.get("wall_s", 0), 1)}
    for u in ("GenRunner", "GenLabel", "GenFarmer"):
        if u in gen_st and not gen_st[u]["ok"]:
            c.obligation_broken(f"translator {u}", gen_st[u]["detail"])
    if not b["ok"]:
        c.obligation_broken(f"Coq build of {b['failed_file']}", b["log_tail"][-1200:])
    n = 300 if tier == "quick" else 2500
    if c.broken:
        n = 900
    tmp = core.scratch_dir("xv-c03-")
    pairs, metas = [], []
    try:
        for _ in range(n):
            st = c.rng.getstate()
            desc, obs, model, sw = one_case(c, c.rng, tmp)
            constants_full = {k: (T_COORDS if v == "list" else v) for k, v in desc["constants"].items()}
            c.case(json.dumps(desc, sort_keys=True, default=str), nontrivial=sw.n_settings() > 1,
                   sample={**desc, "observed": obs.get("canon")} if sw.n_settings() <= 4 else None)
            c.count("api", desc["api"]); c.count("to_df", desc["to_df"]); c.count("mode", desc["mode"])
            c.count("n_vars", desc["n_vars"]); c.count("arrays", desc["arrays"]); c.count("shuffle", bool(desc["shuffle"]))
            c.count("cases", bool(sw.cases)); c.count("t_source", str(desc["t_source"]))
            fails = oracle(desc, obs, sw, constants_full)
            if "caller_modified" in obs:
                fails.append(("caller-mapping-modified", f"the mapping(s) handed to xyzpy were modified by the run: "
                              f"{obs['caller_modified']} (a later run with the same mapping is mislabelled)"))
            for key, msg in fails:
                c.violation(key, msg, desc)
            if model is not None and "canon" in obs and not fails:
                pairs.append((model, obs["canon"]))
                metas.append(desc)
        for h in range(40 if tier == "quick" else 300):
            for desc, obs, model, sw, eff in history_case(c, c.rng):
                c.case(json.dumps(desc, sort_keys=True, default=str), nontrivial=desc["run"] > 0,
                       sample={**desc, "observed": obs.get("canon")} if sw.n_settings() <= 2 else None)
                c.count("api", "history/" + desc["api"]); c.count("history_run", desc["run"])
                fails = oracle(desc, obs, sw, eff)
                if "caller_attrs_modified" in obs:
                    fails.append(("caller-attrs-modified", f"the attrs mapping handed to xyzpy now holds "
                                  f"{obs['caller_attrs_modified']}"))
                for key, msg in fails:
                    c.violation(key, msg, desc)
                if model is not None and "canon" in obs and not fails:
                    pairs.append((model, obs["canon"]))
                    metas.append(desc)
        shifted_coord_stream(c, 12 if tier == "quick" and not c.broken else 80)
        unsortable_stream(c, 20 if tier == "quick" and not c.broken else 150)
        mixed_outputs_stream(c, 20 if tier == "quick" and not c.broken else 150)
        bad, _ = core.safe_run_cases(c, "Prelude Grid Perm Runner RunnerInst Flow Label LabelInst", pairs, chunk=120)
        for i in bad:
            c.obligation_broken("correspondence Model/Label.v vs results_to_ds / results_to_df",
                                {"case": metas[i], "model_expr": pairs[i][0][:2500], "observed": pairs[i][1]})
        c.cov["disagreements_checked"] = len(bad)
        c.cov["model_compared"] = len(pairs)
    finally:
        R.shutdown_loky()
        shutil.rmtree(tmp, ignore_errors=True)
    c.assumptions = ["output variables are numeric scalars or 1-d arrays over one internal dimension",
                     "constants, resources and attrs have pairwise distinct names"]
    return c.finish(b, PROP_FILE, TRUSTED, RULE)


def replay(path):
    return core.generic_replay(run, path)
