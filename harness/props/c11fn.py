"""The function sown by the C11 check (module level, so that the crop can pickle it by reference)."""


def c11_fn(a):
    return 7 * a + 1
