"""C10 -- killing a worker at any instant never corrupts what is later reaped.

Every crash point is a REAL process death: the operation runs in a child process that calls
os._exit(137) at the K-th file-operation boundary (harness/fsx/crashrun.py), optionally after a torn
write.  After each death fresh processes inspect the directory, reap it (strict and allow_incomplete),
run the documented recovery, and (thorough) crash the recovery itself and recover again.  Everything
observed is compared with the Coq model Model/CrashFS.v after the same prefix of atomic steps; the
property statement is checked by an independent Python oracle."""
import json
import re
import os
import shutil
import subprocess
import sys
import time

from harness import core
from harness.fsx import crash as X

PROP_FILE = "Props/C10.v"
IMPORTS = "Prelude CrashFS CrashProofs"
SAMPLER_KEY = "sampler-crop/crash-between-table-save-and-delete"
TRUSTED = [
    "Coq 8.16.1 kernel (coqc, full .vo build); vm_compute for the concrete witnesses (_refuted lemmas, Examples) and "
    "for case evaluation",
    "P1: a strict prefix of a pickle / joblib / HDF5 file never loads (exercised: every torn file produced by a torn "
    "write or a kill before close is loaded by the inspecting process and must fail)",
    "P2: os.replace within one directory is atomic and unlink/rmdir/mkdir are atomic; the process dies, the kernel "
    "survives (durability after power loss -- fsync, directory entries -- is below the model)",
    "hand model Model/CrashFS.v (atomic steps of sow / grow / check_bad / reap per farmer kind, glob semantics of the "
    "progress counts, the documented recovery) tied to cropping.py / farming.py by (i) translators gen_crash.py "
    "(order of effects in write_to_disk, Crop.prepare, sow_*, grow, save_full_ds / save_full_df), gen_stages.py "
    "(sync before delete), gen_names.py (temporary name, no remove-first) with bridge lemmas, (ii) differential "
    "execution: the event log of every operation is translated to model steps and compared, and at every crash point "
    "the surviving directory, the progress counts, both reaps and the recovery are compared with the model",
    "harness/fsx/crashrun.py: Python-level interposition (builtins.open / io.open, file write / close, os.replace, "
    "os.rename, os.remove, os.unlink, os.rmdir, os.mkdir, os.scandir order, opaque HDF5 save) and os._exit(137) at the "
    "chosen boundary stand for SIGKILL at that boundary; validated in the thorough tier against real SIGKILLs injected "
    "by strace on syscall entry",
    "the sown function is deterministic; a re-sow in the recovery re-creates the same sweep (for a Sampler: the same "
    "seeded draw)",
]
RULE = ("crops of 2-5 batches (quick: 3) x farmer kind {none, Runner, Harvester (joblib / h5netcdf engine, data already "
        "in the file), Sampler (rows already in the table)} x operation {sow of a fresh crop, re-sow over a fully grown "
        "crop, grow(i), Crop.grow(ids), grow_missing, reap}; for each operation a dry run gives its N counted "
        "file-operation events and EVERY K in 0..N-1 is a crash point (thorough only: a run of more than 4 writes to one "
        "multi-part pickle is sampled at its first, second, middle and last write), plus torn-write variants {1 byte, half, len-1} "
        "of write events (quick: half only), rmtree / glob order permuted by a seeded os.scandir; thorough adds a second "
        "crash at up to 20 boundaries of the recovery.  distinct = distinct (scenario, operation, K, torn); non-trivial = "
        "the child really died (exit 137) and the surviving directory differs from the pre-state")

OPS = ["sow-fresh", "resow-grown", "grow-fn", "crop-grow", "grow-missing", "reap"]


# ------------------------------------------------------------------ explorations
class Exploration:
    def __init__(self, scen, opname, rng, idx):
        self.scen, self.opname, self.idx = scen, opname, idx
        self.perm_seed = rng.randint(1, 10 ** 6)
        nb = scen.nb
        old = [scen.old_op] if scen.old_op else []
        sow, growall = {"name": "sow"}, {"name": "grow_missing"}
        self.model_pre = []
        if opname == "sow-fresh":
            self.pre, self.op, self.model_op = old, sow, "OSow SW 3"
        elif opname == "resow-grown":
            self.pre, self.op, self.model_op = old + [sow, growall], sow, "OSow SW 3"
            self.model_pre = ["OSow SW 1", "OGrowMissing 2"]
        elif opname == "grow-fn":
            i = rng.randint(1, nb)
            done = sorted(rng.sample([j for j in range(1, nb + 1) if j != i], rng.randint(0, nb - 1)))
            self.pre = old + [sow] + ([{"name": "crop_grow", "ids": done}] if done else [])
            self.op, self.model_op = {"name": "grow_fn", "ids": [i]}, f"OGrow {core.natlist([i])} 3"
            self.model_pre = ["OSow SW 1"] + ([f"OGrow {core.natlist(done)} 2"] if done else [])
        elif opname == "crop-grow":
            ids = rng.sample(range(1, nb + 1), rng.randint(2, nb)) if nb >= 2 else [1]
            self.pre, self.op = old + [sow], {"name": "crop_grow", "ids": ids}
            self.model_op, self.model_pre = f"OGrow {core.natlist(ids)} 3", ["OSow SW 1"]
        elif opname == "grow-missing":
            done = sorted(rng.sample(range(1, nb + 1), rng.randint(0, nb - 1)))
            self.pre = old + [sow] + ([{"name": "crop_grow", "ids": done}] if done else [])
            self.op, self.model_op = growall, "OGrowMissing 3"
            self.model_pre = ["OSow SW 1"] + ([f"OGrow {core.natlist(done)} 2"] if done else [])
        elif opname == "reap":
            self.pre, self.op = old + [sow, growall], {"name": "reap"}
            self.model_op = None           # needs the deletion schedule of the dry run
            self.model_pre = ["OSow SW 1", "OGrowMissing 2"]
        else:
            raise ValueError(opname)
        self.tag = f"{idx}:{scen.kind}:{scen.engine if scen.kind == 'Harvester' else '-'}:B{nb}:{opname}"

    # ---- model expressions
    def coq_pre(self):
        ops = "; ".join(o.replace("SW", self.scen.coq_sweep()) for o in self.model_pre)
        return f"(run_ops {X.F_COQ} [{ops}] {self.scen.coq_base()})"

    def coq_op(self):
        if self.opname == "reap":
            return f"(OReap {self.scen.coq_kind()} {X.deletion_schedule(self.dry['events'])})"
        return "(" + self.model_op.replace("SW", self.scen.coq_sweep()) + ")"

    def coq_steps(self):
        """the model's atomic steps of the operation from the pre-state"""
        if self.opname == "resow-grown" and self.scen.kind == "Sampler":
            # sow_samples clears the results of the earlier sow first, in directory-listing order
            ids = [int(m.group(1)) for e in self.dry["events"] if "i" in e and e["k"] == "unlink"
                   for m in [re.search(r"xyz-result-(\d+)\.jbdmp$", e["p"])] if m]
            return (f"(resow_samples_steps {self.coq_pre()} {core.natlist(ids)} "
                    f"{self.scen.coq_sweep()} 3)")
        return f"(steps_of {X.F_COQ} {self.coq_op()} {self.coq_pre()})"

    def coq_crashed(self, k):
        return f"(crash {self.coq_steps()} {k} {self.coq_pre()})"

    def describe(self):
        return {"scenario": self.scen.describe(), "operation": self.opname, "pre_ops": self.pre, "op": self.op,
                "perm_seed": self.perm_seed}


def base_spec(ex):
    return {"scen": ex.scen.spec(), "perm_seed": ex.perm_seed}


def dry_task(ex, tpl, scratch):
    def run(srv):
        ex.tpl_w, ex.tpl_state = tpl.get(srv, ex.scen, ex.pre)
        d = os.path.join(scratch, f"dry-{ex.idx}")
        os.makedirs(d)
        w = os.path.join(d, "w")
        X.copy_state(ex.tpl_w, w)
        r = srv.job({**base_spec(ex), "job": "op", "op": ex.op, "w": w, "watch": w, "out": os.path.join(d, "op.json")})
        i = srv.job({**base_spec(ex), "job": "inspect", "w": w, "watch": w, "out": os.path.join(d, "insp.json")})
        ex.dry = {"events": r.get("events", []), "n": r.get("n", 0), "completed": r.get("completed"),
                  "outcome": (r.get("result") or {}).get("outcome"), "state": (i.get("result") or {}).get("state"),
                  "error": r.get("harness_error")}
        shutil.rmtree(d, ignore_errors=True)
        return ex.dry
    return run


def point_task(ex, K, torn, second, scratch):
    def run(srv):
        d = os.path.join(scratch, f"pt-{ex.idx}-{K}-{torn}")
        os.makedirs(d)
        w = os.path.join(d, "w")
        X.copy_state(ex.tpl_w, w)
        b = base_spec(ex)
        r = srv.job({**b, "job": "op", "op": ex.op, "w": w, "watch": w, "out": os.path.join(d, "crash.json"),
                     "crash_at": K, "torn": torn})
        rec = {"K": K, "torn": torn, "status": r["status"], "crashed": r.get("crashed"), "jobs": 2}
        i = srv.job({**b, "job": "inspect", "w": w, "watch": w, "out": os.path.join(d, "insp.json")})
        res = i.get("result") or {}
        rec["state"], rec["progress"] = res.get("state"), res.get("progress")
        if rec["state"] is None:
            rec["harness_error"] = i.get("harness_error") or "inspection failed"
        for nm, extra in (("reap", {"job": "reap", "allow": False}), ("reap_allow", {"job": "reap", "allow": True}),
                          ("recover", {"job": "recover"})):
            w2 = os.path.join(d, nm)
            X.copy_state(w, w2)
            rr = srv.job({**b, **extra, "w": w2, "watch": w2, "out": os.path.join(d, nm + ".json")})
            rec["jobs"] += 1
            res = rr.get("result") or {}
            rec[nm] = {"outcome": res.get("outcome"), "state": res.get("state"), "log": res.get("log"),
                       "n": rr.get("n", 0), "status": rr["status"], "error": rr.get("harness_error")}
            shutil.rmtree(w2, ignore_errors=True)
        if second and rec["recover"]["n"]:
            n2 = rec["recover"]["n"]
            ks = sorted({(j * (n2 - 1)) // max(1, second - 1) for j in range(second)}) if n2 > second else list(range(n2))
            rec["second"] = []
            for k2 in ks:
                w3 = os.path.join(d, f"s{k2}")
                X.copy_state(w, w3)
                c2 = srv.job({**b, "job": "recover", "w": w3, "watch": w3, "out": os.path.join(d, "c2.json"),
                              "crash_at": k2})
                r2 = srv.job({**b, "job": "recover", "w": w3, "watch": w3, "out": os.path.join(d, "r2.json")})
                rec["jobs"] += 2
                res = r2.get("result") or {}
                rec["second"].append({"K2": k2, "status": c2["status"], "crashed": c2.get("crashed"),
                                      "outcome": res.get("outcome"), "state": res.get("state"),
                                      "error": r2.get("harness_error")})
                shutil.rmtree(w3, ignore_errors=True)
        shutil.rmtree(d, ignore_errors=True)
        return rec
    return run


# ------------------------------------------------------------------ the oracle (property statement)
def entry(state, role, idx=0, tmp=0):
    for e in state["entries"]:
        if e[0] == role and e[1] == idx and e[2] == tmp:
            return e
    return None


def crop_gone(state):
    return state["dirs"] == [0, 0, 0] and not any(e[0] < 4 for e in state["entries"])


def contains_all(big, small):
    return all(x in big for x in small)


def judge_recovery(sc, opname, crash_state, r, what):
    """The documented recovery must deliver exactly the uninterrupted result."""
    out = []
    oc, st = r.get("outcome"), r.get("state")
    if oc is None or st is None:
        return [("harness", f"{what}: no result from the recovery process: {r.get('error')}")]
    if oc[0] != "value":
        return [("recovery-failed", f"{what}: the recovery raised {oc[1]}")]
    if oc[1] != sc.direct:
        out.append(("recovery-wrong-data", f"{what}: the recovery's reap returned {oc[1]}, a direct run gives {sc.direct}"))
    if not crop_gone(st):
        out.append(("recovery-left-crop", f"{what}: crop files remain after the recovery's reap: {st}"))
    if sc.kind == "Harvester":
        e = entry(st, 4)
        if e is None or e[3] != 1 or e[4] != sc.expected_data():
            out.append(("recovery-harvest-file-wrong", f"{what}: data file after recovery {e}, expected {sc.expected_data()}"))
    if sc.kind == "Sampler":
        e = entry(st, 5)
        got = None if e is None or e[3] != 1 else e[4]
        if got != sc.expected_table():
            pre = entry(crash_state, 5) if crash_state else None
            saved = pre is not None and pre[3] == 1 and pre[4] == sc.expected_table()
            if opname == "reap" and saved and got == sc.expected_table(2):
                out.append((SAMPLER_KEY, f"{what}: the table already held the crop's rows when the process died; the "
                                         f"recovery (reap again) appended them a second time"))
            else:
                out.append(("recovery-table-wrong", f"{what}: table after recovery {got}, expected {sc.expected_table()}"))
    return out


def judge(ex, rec):
    sc, out = ex.scen, []
    if rec.get("harness_error") or rec["state"] is None:
        return [("harness", rec.get("harness_error") or "no state")]
    if rec["status"] != 137:
        out.append(("harness", f"the child was supposed to die at event {rec['K']} but exited with {rec['status']}"))
    st = rec["state"]
    what = f"{ex.opname} killed before event {rec['K']} {rec.get('crashed')}" + (f" torn={rec['torn']}" if rec["torn"] else "")
    # (i) a later reap refuses, fails or is exact
    oc = rec["reap"]["outcome"]
    if oc is None:
        out.append(("harness", f"{what}: no result from the reaping process: {rec['reap'].get('error')}"))
    elif oc[0] == "value" and oc[1] != sc.direct:
        out.append(("reap-after-crash-wrong-data", f"{what}: reap returned {oc[1]} as if complete; a direct run gives {sc.direct}"))
    oc = rec["reap_allow"]["outcome"]
    if oc is None:
        out.append(("harness", f"{what}: no result from the incomplete reap: {rec['reap_allow'].get('error')}"))
    elif oc[0] == "value":
        want, i = [], 0
        for bi, b in enumerate(sc.batches, 1):
            e = entry(st, 3, bi)
            fin = e is not None and e[3] == 1
            want += [X.value(c) if fin else None for c in b]
        if oc[1] != want:
            out.append(("partial-reap-after-crash-wrong", f"{what}: reap(allow_incomplete) returned {oc[1]}; finished batches "
                                                          f"exact and the others missing is {want}"))
    # what is later reaped is never corrupt: a crop file visible under its final name is whole and holds
    # exactly what its name promises (a torn or partly filled result file counts as a finished batch and
    # makes every reap fail until it is discarded -- stricter than the letter of "refuse or exact")
    for e in st["entries"]:
        role, idx, tmp, cls, content = e
        if tmp or role > 3:
            continue
        want = None
        if role == 0:
            want = [sc.nb]
        elif role == 2 and 1 <= idx <= sc.nb:
            want = sc.batches[idx - 1]
        elif role == 3 and 1 <= idx <= sc.nb:
            want = [X.value(c_) for c_ in sc.batches[idx - 1]]
        elif role == 1:
            want = []
        if cls != 1 or content != want:
            nm = ["settings", "function", f"batch {idx}", f"result {idx}"][role]
            out.append(("crop-file-corrupt-under-final-name",
                        f"{what}: the {nm} file is visible under its final name but "
                        f"{'does not load (torn)' if cls != 1 else f'holds {content} instead of {want}'}"))
            break
    # (ii) recovery
    out += judge_recovery(sc, ex.opname, st, rec["recover"], what)
    # (iii) merged data survives
    if sc.kind == "Harvester" and sc.old_data is not None:
        e = entry(st, 4)
        if e is None or e[3] != 1 or not contains_all(e[4], sc.old_data):
            out.append(("harvester-data-lost", f"{what}: the data file held {sc.old_data} before; after the kill it is "
                                               f"{'missing' if e is None else ('unreadable' if e[3] != 1 else e[4])}"))
    if sc.kind == "Sampler" and sc.old_rows is not None:
        e = entry(st, 5)
        if e is None or e[3] != 1 or e[4][:len(sc.old_rows)] != sc.old_rows:
            out.append(("sampler-table-lost", f"{what}: the table held {sc.old_rows} before; after the kill it is "
                                              f"{'missing' if e is None else ('unreadable' if e[3] != 1 else e[4])}"))
    # results are never lost on the way from the crop to the file / table
    if ex.opname == "reap" and sc.kind in ("Harvester", "Sampler"):
        e = entry(st, 4 if sc.kind == "Harvester" else 5)
        sink = e[4] if e is not None and e[3] == 1 else []
        for bi, b in enumerate(sc.batches, 1):
            r = entry(st, 3, bi)
            if not (r is not None and r[3] == 1 and r[4] == [X.value(c) for c in b]):
                if not contains_all(sink, [[c, X.value(c)] for c in b]):
                    out.append(("results-lost-before-saved", f"{what}: batch {bi}'s results are neither in the crop nor in "
                                                             f"the saved {'dataset' if sc.kind == 'Harvester' else 'table'}"))
                    break
    # (iv) second crash
    for s2 in rec.get("second", []):
        w2 = f"{what}, then the recovery killed before its event {s2['K2']} {s2.get('crashed')}"
        if s2["status"] != 137:
            out.append(("harness", f"{w2}: the recovering child exited with {s2['status']}"))
        for key, msg in judge_recovery(sc, ex.opname, None, s2, w2):
            if key == "recovery-table-wrong" and sc.kind == "Sampler":
                # a table that already holds the rows, reaped again (once per kill inside the window): the
                # same window, reached through the recovery's own reap
                e = entry(s2["state"], 5) if s2.get("state") else None
                if e is not None and e[3] == 1 and any(e[4] == sc.expected_table(m) for m in (2, 3)):
                    key = SAMPLER_KEY
            out.append((key if key in ("harness", SAMPLER_KEY) else "second-crash/" + key, msg))
    return out


# ------------------------------------------------------------------ strace validation (real SIGKILL)
def strace_validate(c, ex, states_by_k, scratch, pool, picks):
    """Kill the same operation with a real SIGKILL on entry of the K-th rename / unlinkat / mkdir / write
    system call and check that the surviving directory is the one the interposition-level crash gave."""
    res = {"tried": 0, "killed": 0, "matched": 0, "details": []}
    counted = [e for e in ex.dry["events"] if "i" in e]
    by_sys = {"rename": [e["i"] for e in counted if e["k"] == "rename"],
              "unlinkat": [e["i"] for e in counted if e["k"] in ("unlink", "rmdir")],
              "mkdir": [e["i"] for e in counted if e["k"] == "mkdir"],
              "write": [e["i"] for e in counted if e["k"] == "close"]}
    for sysc, occ in picks:
        if occ > len(by_sys.get(sysc, [])):
            continue
        d = os.path.join(scratch, f"st-{ex.idx}-{sysc}-{occ}")
        os.makedirs(d)
        w = os.path.join(d, "w")
        X.copy_state(ex.tpl_w, w)
        spec = {**base_spec(ex), "job": "op", "op": ex.op, "w": w, "watch": w, "out": os.path.join(d, "op.json"),
                "wait_stdin": True}
        json.dump(spec, open(os.path.join(d, "spec.json"), "w"))
        p = subprocess.Popen([X.PY, "-W", "ignore", "-m", "harness.fsx.crashrun", os.path.join(d, "spec.json")],
                             stdin=subprocess.PIPE, stdout=subprocess.PIPE, stderr=subprocess.DEVNULL, text=True,
                             cwd=core.VERIF, env=X.child_env())
        st = None
        try:
            line = p.stdout.readline()
            if not line.startswith("ready"):
                raise RuntimeError("child not ready: " + line[:80])
            pid = int(line.split()[1])
            st = subprocess.Popen(["strace", "-f", "-p", str(pid), "-e", f"trace={sysc}", "-e",
                                   f"inject={sysc}:signal=SIGKILL:when={occ}", "-o", os.path.join(d, "strace.log")],
                                  stdout=subprocess.DEVNULL, stderr=subprocess.PIPE, text=True)
            t0, attached = time.time(), False
            while time.time() - t0 < 10:
                try:
                    txt = open(f"/proc/{pid}/status").read()
                except FileNotFoundError:
                    break
                if "TracerPid:\t0" not in txt:
                    attached = True
                    break
                if st.poll() is not None:
                    break
                time.sleep(0.02)
            res["tried"] += 1
            if not attached:
                err = st.stderr.read()[:200] if st.poll() is not None else "timeout"
                res["details"].append({"syscall": sysc, "when": occ, "attached": False, "strace": err})
                p.kill()
                continue
            p.stdin.write("\n")
            p.stdin.flush()
            rc = p.wait(timeout=120)
            st.wait(timeout=20)
            insp = pool.servers[0].job({**base_spec(ex), "job": "inspect", "w": w, "watch": w,
                                        "out": os.path.join(d, "insp.json")})
            state = (insp.get("result") or {}).get("state")
            killed = rc == -9
            res["killed"] += killed
            k = by_sys[sysc][occ - 1]
            same = killed and state is not None and X.state_val(state) == states_by_k.get(k)
            anyk = killed and state is not None and X.state_val(state) in list(states_by_k.values())
            res["matched"] += bool(same or (sysc == "write" and anyk))
            res["details"].append({"syscall": sysc, "when": occ, "exit": rc, "interposition_K": k,
                                   "same_state_as_K": bool(same), "state_among_enumerated": bool(anyk)})
            if killed and not anyk:
                c.obligation_broken("strace validation: a real SIGKILL left a directory that no interposition-level "
                                    "crash point of the same operation produced",
                                    {"exploration": ex.tag, "syscall": sysc, "when": occ, "state": state})
        except Exception as e:  # noqa
            res["details"].append({"syscall": sysc, "when": occ, "error": f"{type(e).__name__}: {e}"})
        finally:
            for q in (p, st):
                if q is not None and q.poll() is None:
                    q.kill()
            shutil.rmtree(d, ignore_errors=True)
    return res


# ------------------------------------------------------------------ the check
def plan(tier, rng):
    exs = []
    kinds = ["none", "Runner", "Harvester", "Sampler"]
    if tier == "quick":
        rot = rng.randint(0, 3)
        for j, opname in enumerate(OPS[:-1]):
            kind = kinds[(rot + j) % 4]
            exs.append((X.Scenario(kind, 3, rng, engine=rng.choice(["joblib", "h5netcdf"])), opname))
        for kind in kinds:
            exs.append((X.Scenario(kind, 3, rng, engine="joblib"), "reap"))
        exs.append((X.Scenario("Harvester", 3, rng, engine="h5netcdf"), "reap"))
    else:
        for nb in (2, 3, 4, 5):
            for kind in kinds:
                eng = "joblib" if (nb % 2 == 0) else "h5netcdf"
                sc = X.Scenario(kind, nb, rng, engine=eng)
                for opname in ("sow-fresh", "resow-grown", "grow-fn", "crop-grow" if nb % 2 else "grow-missing", "reap"):
                    exs.append((sc, opname))
            exs.append((X.Scenario("Harvester", nb, rng, engine="h5netcdf" if (nb % 2 == 0) else "joblib"), "reap"))
    return [Exploration(sc, opname, rng, i) for i, (sc, opname) in enumerate(exs)]


def run(tier, seed, only=None):
    known_override = os.environ.get("XV_KNOWN_FINDINGS")
    if known_override:
        core.load_known = lambda: json.load(open(known_override))
    c = core.Check("C10", tier, seed)
    gen_st = core.regen()
    b = core.build(PROP_FILE)
    units = ("GenCrash", "GenStages", "GenNames", "GenHarvest")
    c.cov["translator"] = {k: v for k, v in gen_st.items() if k in units}
    c.cov["build"] = {"ok": b["ok"], "failed_file": b["failed_file"], "wall_s": round(b.get("wall_s", 0), 1)}
    for k in units:
        if k in gen_st and not gen_st[k]["ok"]:
            c.obligation_broken(f"translator {k}", gen_st[k]["detail"])
    if not b["ok"]:
        c.obligation_broken(f"Coq build of {b['failed_file']}", b["log_tail"][-1200:])
    if b["ok"] and tier == "thorough" and only is None:
        # independent re-check of the compiled closure of Props/C10.vo
        import fcntl
        with open(core.LOCK, "w") as lk:
            fcntl.flock(lk, fcntl.LOCK_EX)
            rc, out = core.sh("timeout 600 coqchk -silent -o -R . XV XV.Props.C10", timeout=630, cwd=core.COQ)
        tail = [ln.strip() for ln in out.splitlines() if "relying on" in ln or "assumed" in ln or "Axioms" in ln]
        c.cov["coqchk"] = {"cmd": "coqchk -silent -o -R . XV XV.Props.C10", "ok": rc == 0, "summary": tail}
        if rc != 0:
            c.obligation_broken("coqchk of Props/C10.vo", out[-800:])
    scratch = core.scratch_dir("xv-c10-")
    pool = X.Pool(8, scratch)
    t_enum = time.time()
    try:
        exs = plan(tier, c.rng)
        if only is not None:
            exs = [e for e in exs if e.idx in only]
        tpl = X.Template(scratch)
        pool.run([dry_task(ex, tpl, scratch) for ex in exs])
        for err in pool.errors[:3]:
            if "cannot build the pre-state" in err and "xyzpy/" in err:
                # the operations that lead up to the crash point (sow, grow, ...) failed on their own, with no crash
                # at all, inside xyzpy: the uninterrupted run itself does not deliver
                ex0 = next((e for e in exs if not hasattr(e, "dry")), None)
                c.violation("uninterrupted-run-failed",
                            "with no crash injected, the operations before the crash point raised: "
                            + err[err.index("cannot build the pre-state"):][:500],
                            {"scenario": ex0.scen.describe() if ex0 is not None else None,
                             "pre_ops": ex0.pre if ex0 is not None else None})
            else:
                c.obligation_broken("crash harness: a dry run could not be performed", err[-1200:])
        tasks, owners = [], []
        second = 0 if tier == "quick" else 20
        for ex in exs:
            if not hasattr(ex, "dry"):
                ex.points = []
                continue
            if not ex.dry.get("completed") or (ex.dry["outcome"] or ["?"])[0] != "value":
                c.violation("uninterrupted-operation-failed",
                            f"{ex.tag}: the operation itself failed without any crash: {ex.dry.get('outcome')} {ex.dry.get('error')}",
                            ex.describe())
                ex.points = []
                continue
            pts = X.select_points(ex.dry["events"], full_writes=(tier == "quick"))
            writes = {e["i"] for e in ex.dry["events"] if e.get("k") == "write" and e.get("nbytes", 0) > 1}
            ex.points = []
            for n, k in enumerate(pts):
                # second crashes for a spread of first crash points (all of them would be ~20x the work)
                sec = second if (second and n % max(1, len(pts) // 2) == 0) else 0
                ex.points.append((k, None, sec))
                if k in writes:
                    for torn in (["half"] if tier == "quick" else ["1", "half", "len-1"]):
                        ex.points.append((k, torn, 0))
            for k, torn, sec in ex.points:
                tasks.append(point_task(ex, k, torn, sec, scratch))
                owners.append(ex)
        recs = pool.run(tasks)
        for err in pool.errors[:3]:
            c.obligation_broken("crash harness: a crash point could not be explored", err[-1200:])
        recs = [r if (r and "K" in r) else {"K": -1, "torn": None, "status": None, "state": None,
                                            "harness_error": (r or {}).get("harness_error", "task failed")} for r in recs]
        c.cov["enumeration_wall_s"] = round(time.time() - t_enum, 1)

        # ---------------- judge and build the model cases
        pairs, metas = [], []
        npoints = nsecond = njobs = 0
        for ex in exs:
            if not ex.points:
                continue
            steps, before, unknown = X.translate(ex.dry["events"])
            ex.before = before
            if unknown:
                c.obligation_broken("event log: file operations on paths the model does not know",
                                    {"exploration": ex.tag, "events": unknown[:5]})
            pairs.append((f"enc_state {ex.coq_pre()}", X.state_val(ex.tpl_state)))
            metas.append({"what": "pre-state", "exploration": ex.tag})
            pairs.append((f"enc_steps {ex.coq_steps()}", steps))
            metas.append({"what": "atomic steps of the uninterrupted operation", "exploration": ex.tag,
                          "events": [[e["k"], e["p"]] for e in ex.dry["events"] if "i" in e][:60]})
            pairs.append((f"enc_state (run {ex.coq_steps()} {ex.coq_pre()})",
                          X.state_val(ex.dry["state"])))
            metas.append({"what": "state after the uninterrupted operation", "exploration": ex.tag})
            c.count("events_per_operation", f"{ex.opname}:{ex.dry['n']}")
        states_by_k = {}
        for ex, rec in zip(owners, recs):
            npoints += 1
            njobs += rec.get("jobs", 0)
            nsecond += len(rec.get("second", []))
            sc = ex.scen
            verdicts = judge(ex, rec)
            rep = {**ex.describe(), "K": rec["K"], "torn": rec["torn"], "killed_before": rec.get("crashed"),
                   "state_after_kill": rec.get("state"), "reap": (rec.get("reap") or {}).get("outcome"),
                   "reap_allow_incomplete": (rec.get("reap_allow") or {}).get("outcome"),
                   "recovery": {k: (rec.get("recover") or {}).get(k) for k in ("outcome", "log", "state")}}
            for key, msg in verdicts:
                if key == "harness":
                    c.obligation_broken("crash harness: a child process did not behave as planned", {"what": msg, **rep})
                else:
                    c.violation(key, msg, rep)
            changed = rec.get("state") is not None and X.state_val(rec["state"]) != X.state_val(ex.tpl_state)
            c.case(json.dumps([ex.tag, rec["K"], rec["torn"]]), nontrivial=bool(rec["status"] == 137 and changed),
                   sample={"exploration": ex.tag, "K": rec["K"], "torn": rec["torn"], "killed_before": rec.get("crashed"),
                           "state": rec.get("state"), "progress": rec.get("progress"),
                           "reap": (rec.get("reap") or {}).get("outcome"),
                           "recover": (rec.get("recover") or {}).get("outcome"),
                           "recover_log": (rec.get("recover") or {}).get("log")})
            c.count("operation", ex.opname)
            c.count("farmer", sc.kind)
            c.count("batches", sc.nb)
            c.count("killed_before", (rec.get("crashed") or {}).get("k", "?") + ("+torn" if rec["torn"] else ""))
            c.count("reap_after_crash", ((rec.get("reap") or {}).get("outcome") or ["?"])[0])
            c.count("recovery_resowed", "resow" in ((rec.get("recover") or {}).get("log") or []))
            if rec.get("state") is None:
                continue
            k = ex.before.get(rec["K"])
            st = ex.coq_crashed(k)
            if rec["torn"] is None:
                states_by_k.setdefault(ex.idx, {})[rec["K"]] = X.state_val(rec["state"])
            meta = {"exploration": ex.tag, "K": rec["K"], "torn": rec["torn"], "model_prefix": k,
                    "killed_before": rec.get("crashed")}
            pairs.append((f"enc_state {st}", X.state_val(rec["state"])))
            metas.append({**meta, "what": "directory after the kill"})
            pairs.append((f"enc_progress {st}", rec["progress"]))
            metas.append({**meta, "what": "progress counts after the kill"})
            for nm, allow in (("reap", "false"), ("reap_allow", "true")):
                oc = rec[nm]["outcome"]
                if oc is not None:
                    pairs.append((f"enc_outcome (later_reap {sc.coq_kind()} {allow} {st})",
                                  [0, oc[1]] if oc[0] == "value" else [1]))
                    metas.append({**meta, "what": f"{nm} after the kill", "observed": oc})
            oc = rec["recover"]["outcome"]
            if oc is not None and rec["recover"]["state"] is not None:
                pairs.append((f"enc_outcome (recover_outcome {X.F_COQ} {sc.coq_kind()} {sc.coq_sweep()} 9 {st})",
                              [0, oc[1]] if oc[0] == "value" else [1]))
                metas.append({**meta, "what": "outcome of the recovery", "observed": oc})
                pairs.append((f"enc_state (recover_final {X.F_COQ} {sc.coq_kind()} {sc.coq_sweep()} 9 del_canon {st})",
                              X.state_val(rec["recover"]["state"])))
                metas.append({**meta, "what": "directory after the recovery"})
        bad, _ = core.safe_run_cases(c, IMPORTS, pairs, chunk=40)
        for i in bad[:40]:
            c.obligation_broken("correspondence Model/CrashFS.v vs the real crop at a crash point",
                                {**metas[i], "model_expr": pairs[i][0][:1500], "observed": pairs[i][1]})
        c.cov["disagreements_checked"] = len(bad)
        c.cov["model_cases"] = len(pairs)
        c.cov["crash_points"] = npoints
        c.cov["second_crash_points"] = nsecond
        c.cov["child_processes"] = njobs + 2 * len(exs)
        c.cov["explorations"] = [{"tag": ex.tag, "events": getattr(ex, "dry", {}).get("n"), "crash_points": len(ex.points)}
                                 for ex in exs]
        sampled = [ex.tag for ex in exs if ex.points and len({k for k, _, _ in ex.points}) < ex.dry["n"]]
        c.cov["exhaustive"] = not sampled and bool(exs)
        c.cov["exhaustive_note"] = ("every counted file-operation event of every listed operation is a crash point"
                                    + (f"; except that runs of more than 4 consecutive writes to one multi-part pickle were "
                                       f"sampled (first, second, middle, last) in {sampled}" if sampled else ""))

        # ---------------- fresh interpreter vs fork server; strace
        if exs and only is None:
            ex = next((e for e in exs if e.opname == "reap" and e.scen.kind == "Harvester" and e.points), exs[-1])
            d = os.path.join(scratch, "oneshot")
            os.makedirs(d)
            w = os.path.join(d, "w")
            X.copy_state(ex.tpl_w, w)
            r = X.one_shot({**base_spec(ex), "job": "op", "op": ex.op, "w": w, "watch": w, "out": os.path.join(d, "o.json")},
                           os.path.join(d, "spec.json"))
            s1, _, _ = X.translate(r.get("events", []))
            s0, _, _ = X.translate(ex.dry["events"])
            c.cov["fresh_interpreter_same_events"] = s1 == s0
            if s1 != s0:
                c.obligation_broken("crash harness: a brand-new interpreter and the fork server log different events",
                                    {"exploration": ex.tag, "fresh": s1[:30], "forked": s0[:30]})
        if tier == "thorough" and only is None:
            if shutil.which("strace") is None:
                c.cov["strace"] = "strace not available: the second injection path was skipped"
                c.notes.append("strace not available")
            else:
                out = []
                picks = [("rename", 1), ("rename", 2), ("unlinkat", 1), ("unlinkat", 3), ("mkdir", 2), ("write", 1), ("write", 2)]
                chosen = [e for e in exs if e.points and e.opname in ("sow-fresh", "reap", "grow-missing")][:6]
                for ex in chosen:
                    r = strace_validate(c, ex, states_by_k.get(ex.idx, {}), scratch, pool, picks)
                    out.append({"exploration": ex.tag, **r})
                c.cov["strace"] = out
                tried = sum(o["tried"] for o in out)
                if tried and not any(o["killed"] for o in out):
                    c.notes.append("strace could not attach / kill in this sandbox: real-SIGKILL validation not performed")
    finally:
        pool.close()
        shutil.rmtree(scratch, ignore_errors=True)
    c.assumptions = ["process death with a surviving kernel (no power loss); one process at a time (C11 covers concurrency)",
                     "the recovery re-sows the same sweep with the same function; a Sampler re-sow repeats the same seeded draw",
                     "P1 strict prefixes of pickles do not load; P2 rename is atomic"]
    c.notes.append("the sampler window (a kill between the table's rename and the end of the crop's deletion makes the "
                   "recovery append the same rows twice) is a genuine finding: C10_sampler_window_refuted; reported under "
                   f"the key {SAMPLER_KEY}")
    return c.finish(b, PROP_FILE, TRUSTED, RULE)


def replay(path):
    """Re-run the one crash point of a replay file in brand-new interpreters and judge it again."""
    r = json.load(open(path))
    print("replaying", path)
    print(json.dumps({k: r.get(k) for k in ("property", "key", "what")}, indent=1)[:1500])
    rp = r.get("replay")
    if not rp or "scenario" not in rp or "K" not in rp:
        return core.generic_replay(run, path)
    import random
    d = rp["scenario"]
    sc = object.__new__(X.Scenario)
    sc.kind, sc.engine, sc.A, sc.Bv = d["kind"], d["engine"], d["A"], d["Bv"]
    sc.batchsize, sc.num_batches, sc.seed, sc.n = d["batchsize"], d["num_batches"], d["seed"], d["n"]
    sc.batches, sc.old_data, sc.old_rows, sc.nb = d["batches"], d["old_data"], d["old_rows"], len(d["batches"])
    sc.settings = sc.sample_cases(sc.seed, sc.n) if sc.kind == "Sampler" else [(a, b) for a in sc.A for b in sc.Bv]
    sc.direct = [X.value(X.code(a, b)) for a, b in sc.settings]
    sc.old_op = next((o for o in rp["pre_ops"] if o["name"] == "harvest_old"), None)
    ex = Exploration(sc, rp["operation"], random.Random(0), 0)
    ex.pre, ex.op, ex.perm_seed = rp["pre_ops"], rp["op"], rp["perm_seed"]
    scratch = core.scratch_dir("xv-c10-replay-")
    try:
        class One:
            n = 0

            def job(self, spec):
                One.n += 1
                return X.one_shot(spec, os.path.join(scratch, f"spec-{One.n}.json"))
        srv = One()
        tpl = X.Template(scratch)
        dry_task(ex, tpl, scratch)(srv)
        rec = point_task(ex, rp["K"], rp["torn"], 0, scratch)(srv)
        print("killed before:", rec.get("crashed"), "exit status", rec["status"])
        print("directory after the kill:", json.dumps(rec.get("state")))
        print("reap:", rec["reap"]["outcome"], "| reap(allow_incomplete):", rec["reap_allow"]["outcome"])
        print("recovery:", rec["recover"]["outcome"], rec["recover"]["log"])
        verdicts = [v for v in judge(ex, rec) if v[0] != "harness"]
        for key, msg in verdicts:
            print("VIOLATED:", key, "--", msg[:400])
        same = any(k == r.get("key") for k, _ in verdicts)
        print("reproduced" if same else "not reproduced")
        return 1 if same else 0
    finally:
        shutil.rmtree(scratch, ignore_errors=True)
