"""C05 -- the harvested dataset is the faithful merge of everything ever harvested."""
import functools
import json
import os
import shutil

import numpy as np

from harness import core

PROP_FILE = "Props/C05.v"
TRUSTED = [
    "Coq 8.16.1 kernel (coqc, full .vo build); vm_compute for the old-sites witness and case evaluation",
    "hand model Model/Harvest.v: datasets as point maps, merge policies (no_conflicts / combine_first either way), the "
    "harvester's memory + file state machine with long-lived objects holding stale memory; validated by "
    "differential execution against real Harvester objects, save_merge_ds and files on disk",
    "translator gen_names.py: the extension table, auto_add_extension (substring test), attribute coercion and the path "
    "expression every load / save / merge / delete site uses; bridged in Bridge/BridgeNames.v",
    "xarray merge / combine_first / outer join of coordinates / dtype promotion, h5netcdf and joblib round trips are "
    "library behaviour: modelled as point-map operations and validated by the correspondence only",
    "translator gen_harvest.py: the stage order of add_ds (load, combine, store), what overwrite dispatches to "
    "(receiver / argument of combine_first, merge no_conflicts; xr.merge's default compat is taken to be "
    "'no_conflicts'), where save_full_ds updates memory relative to the atomic write and whether its except "
    "branch re-raises, the load rule, save_merge_ds's dispatch; bridged in Bridge/BridgeHarvest.v and interpreted "
    "by Model/HarvestFlow.v (the correspondence runs the REGENERATED flows)",
    "file-write failures are injected by replacing farming.save_ds / farming.os.replace inside the harness process",
    "expand_dims is exercised by the oracle only (it changes the dimensionality of every point)",
]
RULE = ("random sequences (1..8 steps) of harvest_combos / harvest_cases / add_ds / save_merge_ds / drop_sel / "
        "expand_dims / add_ds whose file write fails (before or after the temporary file exists) over overlapping and disjoint coordinate sets, the three overwrite policies, sync on/off, engines "
        "h5netcdf and joblib, data names with and without extension, new Harvester objects at random steps and a second "
        "long-lived Harvester on the same name (stale memory); distinct = distinct sequences; non-trivial = at least "
        "two data-changing steps touching overlapping coordinates")

VAR, DA, DB = 100, 1, 2


def fn_version(v, a, b):
    return 1000 * v + 10 * a + b


def runner(v):
    import xyzpy
    return xyzpy.Runner(functools.partial(fn_version, v), var_names="out", fn_args=("a", "b"))


def label_id(x):
    """integer image of a coordinate value: n for the integer n, 1000 + 10 x for a value such as 2.5"""
    x = float(x)
    return int(x) if x.is_integer() else 1000 + int(round(10 * x))


def canon_ds(ds, var="out", varid=None):
    """Dataset -> sorted [[point, value]] over non-null cells (of one variable)."""
    VAR = 100 if varid is None else varid
    if ds is None:
        return None
    out = []
    if var not in ds:
        return []
    da = ds[var]
    dims = list(da.dims)
    vals = da.values
    if vals.size == 0:
        return []
    it = np.nditer(vals, flags=["multi_index"])
    for x in it:
        x = float(x)
        if np.isnan(x):
            continue
        labels = {d: label_id(ds[d].values[i]) for d, i in zip(dims, it.multi_index)}
        pt = [VAR]
        for d, did in (("a", DA), ("b", DB), ("c", 3)):
            if d in labels:
                pt += [did, labels[d]]
        out.append([pt, int(x)])
    return sorted(out)


def canon_mem(ds):
    """canon_ds of what a harvester holds in memory; a (lazy) dataset that can no longer be evaluated is
    reported as such instead of crashing the harness"""
    try:
        return canon_ds(ds)
    except Exception as e:  # noqa
        return [["unreadable", f"{type(e).__name__}: {str(e)[:100]}"]]


def coq_pmap(m):
    return "[" + "; ".join(f"({core.zlist(k)}, {v})" for k, v in m) + "]"


POL = {None: ("PolNone", 0), True: ("PolNew", 1), False: ("PolOld", 2)}
ENG = {"h5netcdf": "Eh5netcdf", "joblib": "Ejoblib"}


def gen_ops(rng, n):
    ops = []
    for _ in range(n):
        r = rng.random()
        who = 0 if rng.random() < 0.7 else 1
        if r < 0.42:
            a = sorted(rng.sample(range(1, 5), rng.randint(1, 3)))
            b = sorted(rng.sample(range(5, 8), rng.randint(1, 2)))
            ops.append(("combos", who, a, b, rng.choice([0, 0, 0, 1, 2]), rng.choice([None, None, True, False]),
                        who == 1 or rng.random() < 0.85))
        elif r < 0.55:
            cases = [(rng.randint(1, 4), rng.randint(5, 7)) for _ in range(rng.randint(1, 3))]
            cases = sorted(set(cases))
            ops.append(("cases", who, cases, rng.choice([0, 0, 1]), rng.choice([None, True, False]), True))
        elif r < 0.65:
            a = sorted(rng.sample(range(1, 5), rng.randint(1, 2)))
            ops.append(("add_ds", who, a, [5, 6], rng.choice([0, 1]), rng.choice([None, True, False]),
                        who == 1 or rng.random() < 0.85))
        elif r < 0.77:
            a = sorted(rng.sample(range(1, 5), rng.randint(1, 2)))
            ops.append(("save_merge", a, [5, 7], rng.choice([0, 1]), rng.choice([None, True, False])))
        elif r < 0.84:
            ops.append(("new_session", who))
        elif r < 0.90:
            a = sorted(rng.sample(range(1, 5), rng.randint(1, 2)))
            # a synced add_ds of harvester 0 whose file write fails: before the temporary file exists
            # (save_ds raises) or after it (os.replace raises)
            ops.append(("add_fail", 0, a, [5, 6], rng.choice([0, 1]), rng.choice([None, True, False]),
                        rng.choice([False, True])))
        else:
            ops.append(("drop", who, rng.randint(1, 4)))
    return ops


class failing_write:
    """Make the harvester's file write fail: in save_ds (no temporary file yet) or in os.replace."""

    def __init__(self, tmp_exists):
        self.tmp_exists = tmp_exists

    def __enter__(self):
        import xyzpy.gen.farming as F
        self.F = F
        self.save_ds, self.os = F.save_ds, F.os
        if self.tmp_exists:
            real_os = F.os

            class OsProxy:
                def __getattr__(self, k):
                    return getattr(real_os, k)

                @staticmethod
                def replace(a, b):
                    raise OSError(28, "No space left on device (injected)")

                @staticmethod
                def rename(a, b):
                    raise OSError(28, "No space left on device (injected)")
            F.os = OsProxy()
        else:
            def bad_save(*a, **k):
                raise OSError(2, "No such file or directory (injected before anything is written)")
            F.save_ds = bad_save

    def __exit__(self, *exc):
        self.F.save_ds, self.F.os = self.save_ds, self.os
        return False


def pol_conflict(old, new, pol):
    if pol is not None or not old:
        return False
    o = dict((tuple(k), v) for k, v in old)
    return any(tuple(k) in o and o[tuple(k)] != v for k, v in new)


def run_sequence(c, tmp, rng, idx):
    import xyzpy
    engine = rng.choice(["h5netcdf", "h5netcdf", "joblib"])
    name = rng.choice(["data", "data", "res.h5", "tab.dmp", "x.nc", "sub.dir/data", "scan_v1.2", "sweep.T0.5"])
    d = os.path.join(tmp, f"s{idx}")
    os.makedirs(os.path.join(d, "sub.dir"), exist_ok=True)
    path = os.path.join(d, name)
    ops = gen_ops(rng, rng.randint(1, 8))
    # one sequence in six: the harvesters are CONSTRUCTED with the other engine and every call names the
    # engine itself (engine=...): everything must then be read from / written to the per-call engine's file
    percall = rng.random() < 0.17
    ctor_engine = ({"h5netcdf": "joblib", "joblib": "h5netcdf"}[engine]) if percall else engine
    ek = {"engine": engine} if percall else {}

    # "the same data name, with or without a file extension": where the name carries no extension every
    # harvester / save_merge_ds call spells it either way
    known = (".h5", ".nc", ".dmp", ".zarr")
    alt = path if any(k in name for k in known) else path + {"h5netcdf": ".h5", "joblib": ".dmp"}[engine]

    def spell():
        return rng.choice([path, path, alt])

    # some harvesters work lazily (chunks=...): what they hold in memory is backed by the file until computed
    chunked = engine == "h5netcdf" and not percall and rng.random() < 0.2
    ck = {"chunks": 1} if chunked else {}

    if chunked:
        # (save_merge_ds rewrites the file in place, which HDF5 refuses while a lazy harvester of the same
        # process holds it open: not part of the statement, left out of lazy sequences)
        ops = [o for o in ops if o[0] != "save_merge"] or [("new_session", 0)]

    def new_h():
        return xyzpy.Harvester(runner(0), data_name=spell(), engine=ctor_engine, **ck)
    hs = [new_h() for _ in range(2)]
    model_ops, obs = [], []
    abstract, synced_ok = None, True        # the property's own bookkeeping (dict point -> value)
    rep = {"engine": engine, "name": name, "ops": [list(map(str, o)) for o in ops], "engine_per_call": percall, "chunks": chunked}

    def file_ds():
        p = xyzpy.manage.auto_add_extension(path, engine)
        return xyzpy.load_ds(path, engine=engine) if os.path.exists(p) else None

    def new_points(a, b, v, cases=None):
        pts = cases if cases is not None else [(x, y) for x in a for y in b]
        return sorted([[VAR, DA, x, DB, y], fn_version(v, x, y)] for x, y in pts)

    def spec_merge(old, new, pol):
        old = dict((tuple(k), v) for k, v in (old or []))
        newd = dict((tuple(k), v) for k, v in new)
        if pol is None and any(k in old and old[k] != v for k, v in newd.items()):
            return None
        for k, v in newd.items():
            if pol is True or k not in old:
                old[k] = v
        return sorted([list(k), v] for k, v in old.items())

    for op in list(ops):
        kind = op[0]
        raised = False
        before_file = canon_ds(file_ds())
        if kind == "drop":
            # only labels that are coordinates of the file right now (drop_sel raises KeyError otherwise)
            fds = file_ds()
            labels = [int(x) for x in fds["a"].values] if fds is not None and "a" in fds.coords else []
            if not labels:
                continue
            # sometimes a label that is not there, with errors="ignore": nothing is dropped, nothing raises
            op = ("drop", op[1], rng.choice(labels)) if rng.random() < 0.8 else ("drop", op[1], 9, "ignore")
        new = None
        if kind in ("combos", "add_ds", "add_fail"):
            new = new_points(op[2], op[3], op[4])
        elif kind == "cases":
            new = new_points(None, None, op[3], op[2])
        elif kind == "save_merge":
            new = new_points(op[1], op[2], op[3])
        mem_before = canon_mem(hs[op[1]]._full_ds) if kind in ("combos", "cases", "add_ds", "add_fail") else None
        try:
            if kind == "combos":
                _, who, a, b, v, pol, sync = op
                hs[who].runner.fn = functools.partial(fn_version, v)
                hs[who].harvest_combos({"a": a, "b": b}, overwrite=pol, sync=sync, verbosity=0, **ek)
            elif kind == "cases":
                _, who, cases, v, pol, sync = op
                hs[who].runner.fn = functools.partial(fn_version, v)
                if rng.random() < 0.4:
                    # as mappings; every other one spells its keys in the opposite order
                    cases = [{"a": x, "b": y} if t % 2 == 0 else {"b": y, "a": x} for t, (x, y) in enumerate(cases)]
                hs[who].harvest_cases(cases, overwrite=pol, sync=sync, verbosity=0, **ek)
            elif kind == "add_ds":
                _, who, a, b, v, pol, sync = op
                ds = runner(v).run_combos({"a": a, "b": b}, verbosity=0)
                if rng.random() < 0.3:
                    ds = ds["out"]              # "new_ds : xarray.Dataset or xarray.DataArray"
                hs[who].add_ds(ds, overwrite=pol, sync=sync, **ek)
            elif kind == "save_merge":
                _, a, b, v, pol = op
                ds = runner(v).run_combos({"a": a, "b": b}, verbosity=0)
                xyzpy.save_merge_ds(ds, spell(), overwrite=pol, engine=engine)
            elif kind == "add_fail":
                _, who, a, b, v, pol, tmp_exists = op
                ds = runner(v).run_combos({"a": a, "b": b}, verbosity=0)
                with failing_write(tmp_exists):
                    hs[who].add_ds(ds, overwrite=pol, sync=True, **ek)
            elif kind == "new_session":
                hs[op[1]] = new_h()
            elif kind == "drop":
                if len(op) > 3:
                    hs[op[1]].drop_sel({"a": op[2]}, errors="ignore", **ek)
                elif rng.random() < 0.4:
                    hs[op[1]].drop_sel({"a": op[2]}, **ek)
                else:
                    hs[op[1]].drop_sel(a=op[2], **ek)
        except Exception as e:  # noqa
            raised = True
            err = f"{type(e).__name__}: {str(e)[:120]}"
        # ---- model op from the point of view of harvester 0
        if kind == "add_fail":
            model_ops.append(f"FWFail {coq_pmap(new)} {POL[op[5]][0]} {'true' if op[6] else 'false'}")
        elif kind in ("combos", "cases", "add_ds"):
            who, pol, sync = op[1], op[-2], op[-1]
            if who == 0:
                model_ops.append(f"HAdd {coq_pmap(new)} {'true' if sync else 'false'} {POL[pol][0]}")
            elif sync:
                model_ops.append(f"HSaveMerge {coq_pmap(new)} {POL[pol][0]}")
            else:
                model_ops.append(None)            # unsynced harvest of the other object: invisible to 0
        elif kind == "save_merge":
            model_ops.append(f"HSaveMerge {coq_pmap(new)} {POL[op[4]][0]}")
        elif kind == "new_session":
            model_ops.append("HNewSession" if op[1] == 0 else None)
        elif kind == "drop":
            model_ops.append(f"HDrop {DA} {op[2]}" if op[1] == 0 else f"HExtDrop {DA} {op[2]}")
        mem0 = canon_mem(hs[0]._full_ds)
        fil = canon_ds(file_ds())
        if mem0 and mem0[0][0] == "unreadable":
            c.violation("memory-unreadable", f"full_ds held by the harvester can no longer be evaluated: {mem0[0][1]}", rep)
        if model_ops[-1] is not None:
            obs.append([raised, mem0, fil])
        # ---- the property statement
        if kind in ("combos", "cases", "add_ds", "save_merge"):
            pol = op[-2] if kind != "save_merge" else op[4]
            sync = op[-1] if kind != "save_merge" else True
            who = op[1] if kind != "save_merge" else None
            if sync:
                # a synced harvest merges into the file if there is one, else into what the object holds
                want = spec_merge(before_file if before_file is not None else mem_before, new, pol)
                if want is None:
                    if not raised:
                        c.violation("conflict-not-raised", "conflicting data merged without an error under the default policy", rep)
                    elif fil != before_file:
                        c.violation("conflict-changed-disk", "a refused (conflicting) harvest changed the file", rep)
                else:
                    if raised:
                        c.violation("harvest-raised", err, rep)
                    elif fil != want:
                        c.violation("disk-not-the-policy-merge",
                                    f"file holds {fil}, the policy merge of everything harvested is {want}", rep)
                    elif who is not None and canon_mem(hs[who]._full_ds) != fil:
                        c.violation("memory-differs-from-disk", "full_ds in memory differs from the file after a synced harvest", rep)
        elif kind == "add_fail":
            held = before_file if before_file is not None else mem_before
            conflict = pol_conflict(held, new, op[5])
            if not raised:
                c.violation("write-failure-swallowed", "the file write of a synced harvest failed but add_ds returned "
                            "normally (the caller, e.g. a reaping crop, goes on as if the data were saved)", rep)
            elif fil != before_file:
                c.violation("write-failure-changed-disk", "a harvest whose write failed changed the file", rep)
            elif mem0 != held and not conflict:
                c.violation("memory-differs-from-disk-after-failed-write",
                            f"full_ds in memory holds {mem0} after a failed write, the file holds {before_file}", rep)
        elif kind == "drop" and not raised:
            want = [kv for kv in (before_file or []) if not (kv[0][1] == DA and kv[0][2] == op[2])]
            if fil != want:
                c.violation("drop-sel-lost-or-kept-wrong-points", f"file holds {fil}, expected {want}", rep)
        elif kind == "new_session" and fil != before_file:
            c.violation("new-session-changed-disk", "constructing a Harvester changed the file", rep)
    shutil.rmtree(d, ignore_errors=True)
    mops = [m if m.startswith("FWFail") else f"FOp ({m})" for m in model_ops if m is not None]
    model = (f'run_harvest_flow gen_flows gen_sites "{path}" {ENG[engine]} [' + "; ".join(mops) + "]")
    return rep, ops, model, obs


def expand_stream(c, tmp, n):
    """expand_dims (oracle only): every point gets the new coordinate; other sessions' data survives."""
    import xyzpy
    for i in range(n):
        d = os.path.join(tmp, f"e{i}")
        os.makedirs(d)
        path = os.path.join(d, c.rng.choice(["data", "data.h5"]))
        h1 = xyzpy.Harvester(runner(0), data_name=path)
        h1.harvest_combos({"a": [1, 2], "b": [5]}, verbosity=0)
        h2 = xyzpy.Harvester(runner(0), data_name=path)
        h2.harvest_combos({"a": [3], "b": [5, 6]}, verbosity=0)
        who = c.rng.choice([h1, h2])
        who.expand_dims("c", 7)
        got = canon_ds(xyzpy.load_ds(path))
        want = sorted([[VAR, DA, a, DB, b, 3, 7], fn_version(0, a, b)] for a, b in [(1, 5), (2, 5), (3, 5), (3, 6)])
        c.case(f"expand:{i}:{who is h1}", nontrivial=True)
        c.count("stream", "expand_dims")
        if got != want:
            c.violation("expand-dims-lost-data", f"after expand_dims the file holds {got}, expected {want}",
                        {"by_first_harvester": who is h1})
        shutil.rmtree(d, ignore_errors=True)


def fn_two(a, b):
    return fn_version(0, a, b), fn_version(0, a, b) + 7


def two_variable_stream(c, tmp, n, pairs, metas):
    """Harvests into one data name of datasets that carry both, or only one, of two integer variables: every
    variable is the merge of what was harvested FOR IT (a harvest without it leaves it alone, cells nobody
    harvested stay missing), memory equals disk cell for cell.  Each variable is compared with the model on its own
    (a harvest that lacks the variable is a harvest of no points for it)."""
    import xyzpy
    VARS = {"out": 100, "aux": 101}
    for i in range(n):
        rng = c.rng
        engine = rng.choice(["h5netcdf", "h5netcdf", "joblib"])
        d = os.path.join(tmp, f"t{i}")
        os.makedirs(d)
        path = os.path.join(d, rng.choice(["data", "data.h5" if engine == "h5netcdf" else "data.dmp"]))
        both = xyzpy.Runner(fn_two, var_names=("out", "aux"), fn_args=("a", "b"))
        only = {"out": xyzpy.Runner(lambda a, b: fn_two(a, b)[0], var_names="out", fn_args=("a", "b")),
                "aux": xyzpy.Runner(lambda a, b: fn_two(a, b)[1], var_names="aux", fn_args=("a", "b"))}
        h = xyzpy.Harvester(both, data_name=path, engine=engine)
        steps, mops, obs = [], {v: [] for v in VARS}, {v: [] for v in VARS}
        want = {v: {} for v in VARS}
        rep = {"stream": "two-variables", "engine": engine, "name": os.path.basename(path), "steps": steps}
        for k in range(rng.randint(2, 5)):
            which = rng.choice(["both", "both", "out", "aux"])
            a = sorted(rng.sample(range(1, 5), rng.randint(1, 2)))
            if k > 0 and rng.random() < 0.25:
                a = sorted(a + [2.5])          # a coordinate value that is not an integer: the (integer) coordinate
                                               # of the file becomes float
            b = sorted(rng.sample(range(5, 8), rng.randint(1, 2)))
            pol = rng.choice([None, None, True, False])
            fresh = rng.random() < 0.4
            steps.append([which, a, b, str(pol), fresh])
            if fresh:
                h = xyzpy.Harvester(both, data_name=path, engine=engine)
                p0 = xyzpy.manage.auto_add_extension(path, engine)
                f0 = xyzpy.load_ds(path, engine=engine) if os.path.exists(p0) else None
                for v, vid in VARS.items():
                    mops[v].append("FOp (HNewSession)")
                    obs[v].append([False, None, canon_src(f0, v, vid)])
            ds = (both if which == "both" else only[which]).run_combos({"a": a, "b": b}, verbosity=0)
            if which != "both" and rng.random() < 0.5:
                ds = ds[which]               # one variable handed over as a DataArray
                steps[-1].append("DataArray")
            raised = False
            try:
                h.add_ds(ds, overwrite=pol)
            except Exception as e:  # noqa
                raised = True
                c.violation("harvest-raised", f"{type(e).__name__}: {str(e)[:150]}", rep)
            p_ = xyzpy.manage.auto_add_extension(path, engine)
            fds = xyzpy.load_ds(path, engine=engine) if os.path.exists(p_) else None
            for v, vid in VARS.items():
                pts = sorted([[vid, DA, label_id(x), DB, y], int(fn_two(x, y)[0 if v == "out" else 1])] for x in a for y in b) \
                    if which in ("both", v) else []
                for kpt, val in pts:
                    want[v][tuple(kpt)] = val
                mops[v].append(f"FOp (HAdd {coq_pmap(pts)} true {POL[pol][0]})")
                mem, fil = canon_src(h._full_ds, v, vid), canon_src(fds, v, vid)
                obs[v].append([raised, mem, fil])
                w = sorted([list(kp), val] for kp, val in want[v].items())
                if not raised and fil != w:
                    c.violation("disk-not-the-policy-merge", f"variable {v}: file holds {fil}, everything harvested for "
                                f"it is {w}", rep)
                elif not raised and mem != fil:
                    c.violation("memory-differs-from-disk", f"variable {v}: full_ds in memory holds {mem}, the file {fil}", rep)
        c.case(json.dumps(rep, sort_keys=True), nontrivial=len({s_[0] for s_ in steps}) >= 2)
        c.count("stream", "two-variables")
        for v in VARS:
            model = f'run_harvest_flow gen_flows gen_sites "{path}" {ENG[engine]} [' + "; ".join(mops[v]) + "]"
            pairs.append((model, obs[v]))
            metas.append({**rep, "variable": v})
        shutil.rmtree(d, ignore_errors=True)


def canon_src(ds, v, vid):
    return None if ds is None else canon_ds(ds, v, vid)


def run(tier, seed):
    c = core.Check("C05", tier, seed)
    gen_st = core.regen()
    b = core.build(PROP_FILE)
    c.cov["translator"] = {k: v for k, v in gen_st.items() if k in ("GenNames", "GenHarvest")}
    c.cov["build"] = {"ok": b["ok"], "failed_file": b["failed_file"], "wall_s": round(b.get("wall_s", 0), 1)}
    for u in ("GenNames", "GenHarvest"):
        if u in gen_st and not gen_st[u]["ok"]:
            c.obligation_broken(f"translator {u}", gen_st[u]["detail"])
    if not b["ok"]:
        c.obligation_broken(f"Coq build of {b['failed_file']}", b["log_tail"][-1200:])
    n = 120 if tier == "quick" else 1000
    if c.broken:
        n = 400
    tmp = core.scratch_dir("xv-c05-")
    pairs, metas = [], []
    try:
        for i in range(n):
            rep, ops, model, obs = run_sequence(c, tmp, c.rng, i)
            changing = sum(1 for o in ops if o[0] in ("combos", "cases", "add_ds", "save_merge"))
            c.case(json.dumps(rep, sort_keys=True), nontrivial=changing >= 2,
                   sample={**rep, "observations": obs} if len(ops) <= 3 else None)
            for o in ops:
                c.count("op", o[0])
            c.count("engine", rep["engine"]); c.count("engine_per_call", rep["engine_per_call"]); c.count("name", rep["name"]); c.count("len", len(ops))
            pairs.append((model, obs))
            metas.append(rep)
        two_variable_stream(c, tmp, 12 if tier == "quick" else 100, pairs, metas)
        bad, _ = core.safe_run_cases(c, "Prelude Grid Names Harvest HarvestFlow HarvestInst GenNames GenHarvest", pairs, chunk=60)
        for i in bad:
            c.obligation_broken("correspondence Model/Harvest.v vs Harvester / save_merge_ds",
                                {"case": metas[i], "model_expr": pairs[i][0][:2500], "observed": pairs[i][1]})
        c.cov["disagreements_checked"] = len(bad)
        expand_stream(c, tmp, 6 if tier == "quick" else 30)
    finally:
        shutil.rmtree(tmp, ignore_errors=True)
    c.assumptions = ["harvested values are non-null numbers", "one process at a time writes to a data name (no concurrent writers)"]
    return c.finish(b, PROP_FILE, TRUSTED, RULE)


def replay(path):
    return core.generic_replay(run, path)
