"""C08 -- reported progress always matches the batches that really finished."""
import json
import shutil

from harness import core
from harness.impl import runner as R
from harness.impl import cropdriver as D

PROP_FILE = "Props/C08.v"
TRUSTED = [
    "Coq 8.16.1 kernel (coqc, full .vo build); vm_compute for Examples and case evaluation",
    "hand model Model/Crop.v (disk state + Crop object attributes; sow/grow/delete/check_bad/queries/reap) tied to "
    "cropping.py by differential execution of random operation sequences on a real crop directory",
    "GenReap (translated is_ready_to_reap / missing_results predicate / check_ready_to_reap / clean-up rule) "
    "bridged to the model's `ready`, `missing_of`, `eff_clean_up`",
    "crash-free histories only: every file operation completes (torn files belong to C10/C11)",
    "pickle round trip, glob and os.path.isfile behave as specified",
]
RULE = ("random operation sequences (quick <= 12 ops, thorough <= 40) over {sow, re-sow same shape, re-sow with a "
        "conflicting batch size, grow i, grow subset, grow_missing, set failing settings, delete result i, "
        "check_bad, reload Crop from disk, query, final reap} on crops of 1..8 batches, grids and case lists, "
        "shuffled or not; distinct = distinct op sequences; non-trivial = at least 2 batches and 4 operations")


def gen_sequence(rng, maxops):
    sw = R.Sweep(rng, with_cases=rng.random() < 0.35, max_args=3, max_vals=3,
                 kind=rng.choice([0, 0, 1, 2, 3, 5]), allow_consts=rng.random() < 0.3)
    n = sw.n_settings()
    shuffle = rng.choice([False, False, True, rng.randint(2, 500)])
    via = "cases" if (sw.cases and rng.random() < 0.4) else "combos"
    sown = D.SownSweep(sw, shuffle, via)
    if rng.random() < 0.5:
        bs, nb = rng.randint(1, max(1, n)), None
    else:
        bs, nb = None, rng.randint(1, 8)
    ops = [("sow", sown, bs, nb)]
    # expected number of batches (only to steer generation)
    B = -(-n // bs) if bs else min(nb, n)
    B = min(B, 12)
    codes = sown.codes()
    have = set()
    for _ in range(rng.randint(2, maxops - 1)):
        r = rng.random()
        if r < 0.22:
            i = rng.randint(1, B)
            ops.append(("grow", [i], rng.choice(["crop.grow", "function", "crop.grow"])))
            have.add(i)
        elif r < 0.32:
            ids = rng.sample(range(1, B + 1), rng.randint(1, B))
            ops.append(("grow", ids))
            have.update(ids)
        elif r < 0.42:
            ops.append(("grow_missing",))
            have.update(range(1, B + 1))
        elif r < 0.54:
            ops.append(("setfail", rng.sample(codes, rng.randint(0, min(2, len(codes)))),
                        rng.choice(["RuntimeError", "ValueError", "StopIteration", "KeyError", "ZeroDivisionError"])))
        elif r < 0.66 and have:
            i = rng.choice(sorted(have))
            ops.append(("delete?", i))
        elif r < 0.72:
            ops.append(("check_bad",))
        elif r < 0.82:
            ops.append(("reload",))
        elif r < 0.90:
            ops.append(("query",))
        elif r < 0.96:
            ops.append(("sow", sown, None, None))
        else:
            ops.append(("sow", sown, (bs or 1) + 1 + rng.randint(0, 2), None))
    if rng.random() < 0.5:
        ops.append(("reap", rng.random() < 0.5, rng.choice([None, True, False])))
    return sw, ops


def run_sequence(c, tmp, sw, ops, kind):
    """Run on the real crop, with the ghost-state oracle; returns (concrete ops, observations)."""
    run = D.CropRun(tmp, kind)
    obs, real_ops = [], []
    finished, B = set(), None
    fails = set()
    for op in ops:
        if op[0] == "delete?":
            if op[1] not in run.result_ids():
                continue
            op = ("delete", op[1])
        before = run.listing() if run.crop is not None else []
        was_finished = set(finished)
        o = run.do(op)
        real_ops.append(op)
        obs.append(o)
        status = o[0]
        # ---- ghost state of the property statement
        k = op[0]
        if k == "sow" and status == 0:
            B = run.crop.num_batches
        elif k == "grow":
            for i in op[1]:
                batch_codes = None
                ok = grow_would_succeed(run, i, fails)
                if ok:
                    finished.add(i)
                else:
                    break
        elif k == "grow_missing":
            for i in [j for j in range(1, (B or 0) + 1) if j not in finished]:
                if grow_would_succeed(run, i, fails):
                    finished.add(i)
                else:
                    break
        elif k == "setfail":
            fails = set(op[1])
        elif k == "delete":
            finished.discard(op[1])
        elif k == "check_bad" and status == 0:
            finished -= set(o[6]) if len(o) > 6 else set()
        elif k == "reap" and status == 0 and len(run.listing()) == 0:
            finished, B = set(), B
            continue
        if B is None or isinstance(o[1], str):
            continue
        # ---- the statement: reported progress = truth on disk
        num_sown, num_results, missing, ready, ids = o[1:6]
        want_missing = [i for i in range(1, B + 1) if i not in finished]
        bad = []
        if num_results != len(finished) or ids != sorted(finished):
            bad.append(("finished-count", f"reports {num_results} results {ids}, finished batches are {sorted(finished)}"))
        if missing != want_missing:
            bad.append(("missing-ids", f"reports missing {missing}, truly missing {want_missing}"))
        if ready != (not want_missing and B >= 1):
            bad.append(("ready-flag", f"ready={ready} while missing={want_missing}"))
        if num_sown != B:
            bad.append(("sown-count", f"reports {num_sown} sown batches, {B} were sown"))
        if k in ("grow",) and status == 0:
            after = run.listing()
            changed = {p for p, _ in set(after) ^ set(before)}
            allowed = {f"results/xyz-result-{i}.jbdmp" for i in op[1]}
            if not changed <= allowed:
                bad.append(("grow-touched-other-files", f"grow {op[1]} changed {sorted(changed - allowed)}"))
        if k == "grow_missing" and status == 0 and not ready:
            bad.append(("grow-missing-not-ready", "grow_missing succeeded but the crop is not ready"))
        for key, msg in bad:
            c.violation(key, msg, {"sweep": sw.describe(), "kind": kind,
                                   "ops": [D.describe_op(x) for x in real_ops], "observation": o})
    return real_ops, obs


def grow_would_succeed(run, i, fails):
    """Does batch i contain a setting on which the (injected) function fails?  Read from the batch file."""
    import os
    from harness.impl.crops import read_pickle
    p = os.path.join(run.location(), "batches", f"xyz-batch-{i}.jbdmp")
    if not os.path.exists(p):
        return False
    sw = run.sown.sw
    return not any(sw.code(kw) in fails for kw in read_pickle(p))


def run(tier, seed):
    c = core.Check("C08", tier, seed)
    gen_st = core.regen()
    b = core.build(PROP_FILE)
    c.cov["translator"] = {k: v for k, v in gen_st.items() if k in ("GenReap",)}
    c.cov["build"] = {"ok": b["ok"], "failed_file": b["failed_file"], "wall_s": round(b.get("wall_s", 0), 1)}
    if "GenReap" in gen_st and not gen_st["GenReap"]["ok"]:
        c.obligation_broken("translator GenReap", gen_st["GenReap"]["detail"])
    if not b["ok"]:
        c.obligation_broken(f"Coq build of {b['failed_file']}", b["log_tail"][-1200:])
    nseq = 120 if tier == "quick" else 900
    maxops = 12 if tier == "quick" else 40
    if c.broken:
        nseq, maxops = 400, 20
    tmp = core.scratch_dir("xv-c08-")
    pairs, metas = [], []
    try:
        for _ in range(nseq):
            sw, ops = gen_sequence(c.rng, maxops)
            real_ops, obs = run_sequence(c, tmp, sw, ops, sw.kind)
            desc = [D.describe_op(x) for x in real_ops]
            nb = obs[0][1] if obs and not isinstance(obs[0][1], str) else 0
            c.case(json.dumps(desc, sort_keys=True, default=str), nontrivial=(nb >= 2 and len(real_ops) >= 4),
                   sample={"ops": desc, "observations": obs} if len(real_ops) <= 7 else None)
            for op in real_ops:
                c.count("op", op[0])
            c.count("batches", nb)
            c.count("len", len(real_ops) // 4 * 4)
            pairs.append((f"run_crop {sw.kind} [" + "; ".join(D.coq_op(o) for o in real_ops) + "]", obs))
            metas.append((desc, obs))
        bad, _ = core.safe_run_cases(c, "Prelude Grid Perm Runner RunnerInst Batch Crop CropInst", pairs, chunk=60)
        for i in bad:
            desc, obs = metas[i]
            c.obligation_broken("correspondence Model/Crop.v vs cropping.py",
                                {"ops": desc, "observed": obs, "model_expr": pairs[i][0][:3000]})
        c.cov["disagreements_checked"] = len(bad)
    finally:
        R.shutdown_loky()
        shutil.rmtree(tmp, ignore_errors=True)
    c.assumptions = ["no process is killed and no two processes write concurrently (C10, C11 cover those)",
                     "the sown function is deterministic; an injected failure raises before any result is written"]
    return c.finish(b, PROP_FILE, TRUSTED, RULE)


def replay(path):
    return core.generic_replay(run, path)
