"""C14 -- saving and loading a dataset gives the same dataset back."""
import copy
import json
import os
import shutil

import numpy as np

from harness import core

PROP_FILE = "Props/C14.v"
TRUSTED = [
    "Coq 8.16.1 kernel (coqc, full .vo build); vm_compute for the name Examples and case evaluation",
    "PARTIAL: the theorems cover the logic xyzpy adds -- name resolution agrees at every save / load / merge / delete "
    "site, resolution is idempotent, the temporary name is stable, attribute coercion touches exactly None/True/False "
    "for netCDF engines (gen_names.py translator + Bridge/BridgeNames.v)",
    "the round trip of dims, coords, dtypes, complex values, NaNs, lazy (chunks) loading through h5netcdf / joblib / "
    "xarray is library behaviour no Gallina model expresses: it is a DIFFERENTIAL TEST here (save -> load -> compare)",
    "netcdf4 and zarr engines are not importable in this environment and are not exercised",
]
RULE = ("random datasets with 0-4 dimensions, int/float/complex/bool/str variables and coordinates, NaN patterns, "
        "attributes (None/True/False, ints incl. 0 and 1, floats incl. 1.0, strings), engines h5netcdf and joblib, names "
        "with/without (known or foreign) extension, chunks None/int/dict, through save_ds/load_ds, save_merge_ds, "
        "Harvester save/load/delete; distinct = distinct (dataset shape+dtypes, engine, name, chunks); non-trivial = "
        "at least one dimension and one variable")

ENG = {"h5netcdf": "Eh5netcdf", "joblib": "Ejoblib", "netcdf4": "Enetcdf4", "zarr": "Ezarr"}
NAMES = ["data", "run7", "data.h5", "tab.dmp", "x.nc", "arch.zarr", "v1.2", "my.h5.bak", "dmp", "a.b/c"]


def gen_dataset(rng):
    import xarray as xr
    nd = rng.randint(0, 4)
    dims = ["a", "b", "c", "d"][:nd]
    sizes = {d: rng.randint(1, 3) for d in dims}
    coords = {}
    for d in dims:
        t = rng.choice(["int", "float", "str"])
        if t == "int":
            coords[d] = list(rng.sample(range(-3, 20), sizes[d]))
        elif t == "float":
            coords[d] = [x / 4 for x in rng.sample(range(-8, 40), sizes[d])]
        else:
            coords[d] = ["k" + chr(97 + i) for i in rng.sample(range(10), sizes[d])]
    dv = {}
    for j in range(rng.randint(1, 3)):
        vd = [d for d in dims if rng.random() < 0.7] if dims else []
        shape = tuple(sizes[d] for d in vd)
        t = rng.choice(["int", "float", "float", "complex", "bool", "str"])
        n = int(np.prod(shape)) if shape else 1
        if t == "int":
            arr = np.array([rng.randint(-50, 50) for _ in range(n)], dtype=np.int64)
        elif t == "float":
            arr = np.array([rng.choice([np.nan, rng.uniform(-5, 5), 0.0, -0.0, 1e300, 5e-324]) for _ in range(n)])
        elif t == "complex":
            arr = np.array([complex(rng.uniform(-2, 2), rng.choice([0.0, np.nan, rng.uniform(-2, 2)])) for _ in range(n)])
        elif t == "bool":
            arr = np.array([rng.random() < 0.5 for _ in range(n)])
        else:
            arr = np.array(["s" + str(rng.randint(0, 99)) for _ in range(n)])
        dv[f"v{j}"] = (vd, arr.reshape(shape))
    attrs = {}
    for k in rng.sample(["n", "t", "f", "i0", "i1", "x", "s", "one"], rng.randint(0, 5)):
        attrs[k] = {"n": None, "t": True, "f": False, "i0": 0, "i1": 1, "x": 2.5, "s": "text", "one": 1.0}[k]
    return xr.Dataset(dv, coords=coords, attrs=attrs)


def same_values(a, b):
    a, b = np.asarray(a), np.asarray(b)
    if a.shape != b.shape:
        return False
    if a.dtype.kind in "fc" or b.dtype.kind in "fc":
        return bool(np.array_equal(a, b, equal_nan=True)) and a.dtype.kind == b.dtype.kind
    if a.dtype.kind in "US" or b.dtype.kind in "USO":
        return [str(x) for x in a.ravel()] == [str(x) for x in b.ravel()]
    return bool(np.array_equal(a, b)) and a.dtype.kind == b.dtype.kind


ATTR_MODEL = {"n": "ANone", "t": "ATrue", "f": "AFalse", "i0": "(ANum 0)", "i1": "(ANum 1)", "x": "(ANum 25)",
              "s": "(AStr 9)", "one": "(ANum 10)"}


def canon_attr(v):
    if v is None:
        return ["none"]
    if v is True or (isinstance(v, np.bool_) and bool(v) is True and False):
        return ["true"]
    if v is False:
        return ["false"]
    if isinstance(v, str):
        return ["str", {"None": 0, "True": 1, "False": 2, "text": 9}.get(v, -1)]
    if isinstance(v, (bool, np.bool_)):
        return ["true"] if v else ["false"]
    if isinstance(v, (int, np.integer)):
        return ["num", int(v)]
    if isinstance(v, (float, np.floating)):
        return ["num", int(round(float(v) * 10))]
    if isinstance(v, np.ndarray) and v.size == 1:
        return canon_attr(v.item())
    return ["other", repr(v)]


def expected_file_name(path, engine):
    """The statement's rule, written out independently of xyzpy: the given name, with the engine's extension
    added when the name carries none of the known extensions."""
    known = {"h5netcdf": ".h5", "netcdf4": ".nc", "joblib": ".dmp", "zarr": ".zarr"}
    if any(ext in path for ext in known.values()):
        return path
    return path + known[engine]


def one_case(c, tmp, i):
    import xyzpy
    rng = c.rng
    ds = gen_dataset(rng)
    engine = rng.choice(["h5netcdf", "h5netcdf", "joblib"])
    name = rng.choice(NAMES)
    chunks = rng.choice([None, None, 1, {"a": 1}]) if engine == "h5netcdf" else None
    if isinstance(chunks, dict) and "a" not in ds.dims:
        chunks = None
    d = os.path.join(tmp, f"c{i}")
    path = os.path.join(d, name)
    os.makedirs(os.path.dirname(path), exist_ok=True)
    orig = ds.copy(deep=True)
    orig_attrs = copy.deepcopy(dict(ds.attrs))
    rep = {"engine": engine, "name": name, "chunks": chunks, "dims": dict(ds.sizes),
           "vars": {k: [str(v.dtype), list(v.dims)] for k, v in ds.data_vars.items()},
           "coords": {k: str(v.dtype) for k, v in ds.coords.items()}, "attrs": {k: repr(v) for k, v in orig_attrs.items()}}
    via = rng.choice(["save_ds", "save_ds", "harvester", "save_merge", "harvester-engine-per-call"])
    rep["via"] = via
    try:
        if via == "save_ds":
            xyzpy.save_ds(ds, path, engine=engine)
        elif via == "save_merge":
            xyzpy.save_merge_ds(ds, path, engine=engine)
        elif via == "harvester-engine-per-call":
            # a harvester constructed with the OTHER engine; every call names the engine itself
            other = {"h5netcdf": "joblib", "joblib": "h5netcdf"}[engine]
            xyzpy.Harvester(None, data_name=path, engine=other).add_ds(ds, engine=engine)
            h2 = xyzpy.Harvester(None, data_name=path, engine=other)
            h2.load_full_ds(engine=engine)
            if h2._full_ds is None:
                raise RuntimeError("a new Harvester did not load the dataset saved under the per-call engine's name")
        else:
            h = xyzpy.Harvester(None, data_name=path, engine=engine)
            h.add_ds(ds)
        files = sorted(f for f in os.listdir(os.path.dirname(path)) if not f.startswith("."))
        # half of the loads ask for a blank dataset should no file exist (one does: it must be loaded)
        create_new = rng.random() < 0.5
        rep["create_new"] = create_new
        # lazily or into memory (load_to_mem is only meaningful without chunks; joblib always loads)
        ltm = rng.choice([None, None, True, False]) if (chunks is None and engine != "joblib") else None
        rep["load_to_mem"] = ltm
        back = xyzpy.load_ds(path, engine=engine, chunks=chunks, **({"create_new": True} if create_new else {}),
                             **({"load_to_mem": ltm} if ltm is not None else {}))
        if chunks is not None or ltm is False:
            lazy = back
            back = back.compute()
            lazy.close()
        # ... and for a name that was never saved create_new gives a blank dataset, without creating a file
        blank = xyzpy.load_ds(path + "-never-saved", engine=engine, create_new=True)
        if len(blank.data_vars) or len(blank.dims) or \
                sorted(f for f in os.listdir(os.path.dirname(path)) if not f.startswith(".")) != files:
            return rep, {"error": "load_ds(create_new=True) of an unsaved name is not blank or created a file"}, None
    except Exception as e:  # noqa
        shutil.rmtree(d, ignore_errors=True)
        return rep, {"error": f"{type(e).__name__}: {str(e)[:200]}"}, None
    obs = {"files": files, "attrs_back": {k: canon_attr(v) for k, v in back.attrs.items()}}
    bad = []
    # the file name used
    want_file = os.path.basename(expected_file_name(path, engine))
    if files != [want_file]:
        bad.append(("unexpected-files", f"directory holds {files}, expected only {want_file}"))
    # same dims / coords / variables / values
    if dict(back.sizes) != dict(orig.sizes):
        bad.append(("dims-differ", f"{dict(back.sizes)} vs {dict(orig.sizes)}"))
    for k in orig.coords:
        if k not in back.coords or not same_values(orig[k].values, back[k].values):
            bad.append(("coordinate-differs", k))
    for k in orig.data_vars:
        if k not in back.data_vars:
            bad.append(("variable-missing", k))
        elif tuple(back[k].dims) != tuple(orig[k].dims):
            bad.append(("variable-dims-differ", k))
        elif not same_values(orig[k].values, back[k].values):
            bad.append(("values-differ", f"{k}: {orig[k].values.tolist()} -> {back[k].values.tolist()}"))
    # attributes up to the documented coercion
    for k, v in (orig_attrs.items() if via != "save_merge" else []):   # xr.merge does not carry attrs
        got = obs["attrs_back"].get(k)
        if engine == "joblib":
            want = canon_attr(v)
        else:
            want = {"n": ["str", 0], "t": ["str", 1], "f": ["str", 2]}.get(k, canon_attr(v))
        if got != want:
            bad.append(("attribute-differs", f"{k}={v!r} came back as {back.attrs.get(k)!r}"))
    # delete via the harvester resolves the same name
    try:
        xyzpy.Harvester(None, data_name=path, engine=engine).delete_ds()
        left = [f for f in os.listdir(os.path.dirname(path)) if not f.startswith(".")]
        if left:
            bad.append(("delete-left-files", str(left)))
    except Exception as e:  # noqa
        bad.append(("delete-raised", f"{type(e).__name__}: {e}"))
    shutil.rmtree(d, ignore_errors=True)
    obs["bad"] = bad
    # model: resolved name and coerced attributes
    model = ("VL [VS (gen_auto_add_extension \"" + name + f"\" {ENG[engine]}); VL ["
             + "; ".join(f"enc_attr (gen_attr_coerce {ENG[engine]} {ATTR_MODEL[k]})"
                         for k in (orig_attrs if via != "save_merge" else [])) + "]]")
    seen = [want_file if "/" not in name else name.rsplit("/", 1)[0] + "/" + want_file,
            [obs["attrs_back"].get(k) for k in (orig_attrs if via != "save_merge" else [])]]
    return rep, obs, (model, seen)


PREAMBLE = '''Definition enc_attr (a : attr_val) : val :=
  match a with
  | ANone => VL [VS "none"] | ATrue => VL [VS "true"] | AFalse => VL [VS "false"]
  | AStr i => VL [VS "str"; VZ i] | ANum z => VL [VS "num"; VZ z]
  end.'''


def sync_conflict_stream(c, tmp, n):
    """merge_sync_conflict_datasets: the merged dataset is written back under the first name WITH THE ENGINE the
    copies were read with, so that it loads again (with that engine) and holds every copy's data."""
    import contextlib
    import io
    import xarray as xr
    import xyzpy
    for i in range(n):
        rng = c.rng
        engine = rng.choice(["h5netcdf", "joblib"])
        ext = {"h5netcdf": ".h5", "joblib": ".dmp"}[engine]
        d = os.path.join(tmp, f"m{i}")
        os.makedirs(d)
        base = os.path.join(d, "results")
        ncopies = rng.randint(2, 3)
        parts = []
        for k in range(ncopies):
            a = sorted(rng.sample(range(6), rng.randint(1, 3)))
            ds = xr.Dataset({"out": (("a",), np.array([10.0 * x + 1 for x in a]))}, coords={"a": a})
            parts.append(ds)
            xyzpy.save_ds(ds, base + ("" if k == 0 else f".sync-conflict-{k}") + ext, engine=engine)
        rep = {"stream": "merge-sync-conflict", "engine": engine, "copies": [list(map(int, p["a"].values)) for p in parts]}
        err = None
        try:
            with contextlib.redirect_stdout(io.StringIO()):
                xyzpy.manage.merge_sync_conflict_datasets(base + "*", engine=engine,
                                                          **({"combine_first": True} if rng.random() < 0.5 else {}))
            back = xyzpy.load_ds(base, engine=engine)
            want = sorted({int(x) for p in parts for x in p["a"].values})
            got = {int(x): float(v) for x, v in zip(back["a"].values, back["out"].values)}
            left = sorted(f for f in os.listdir(d))
        except Exception as e:  # noqa
            err = f"{type(e).__name__}: {str(e)[:160]}"
        c.case(json.dumps(rep, sort_keys=True), nontrivial=True, sample=rep if i % 5 == 0 else None)
        c.count("stream", "merge-sync-conflict"); c.count("merge_engine", engine)
        if err is not None:
            c.violation("merged-copies-unreadable", f"after merge_sync_conflict_datasets(engine={engine!r}) the merged "
                        f"file cannot be loaded with that engine: {err}", rep)
        else:
            if sorted(got) != want or any(got[x] != 10.0 * x + 1 for x in got):
                c.violation("merged-copies-data-differ", f"merged file holds {got}, the copies held a={want}", rep)
            if left != ["results" + ext]:
                c.violation("merged-copies-left-files", f"directory holds {left}", rep)
        shutil.rmtree(d, ignore_errors=True)


def lazy_harvester_stream(c, tmp, n):
    """A harvester working lazily (chunks=...): after every save what it holds in memory, once computed, equals
    what loading the file gives -- also when the new data sort before or among the existing coordinates."""
    import xarray as xr
    import xyzpy
    for i in range(n):
        rng = c.rng
        d = os.path.join(tmp, f"z{i}")
        os.makedirs(d)
        path = os.path.join(d, rng.choice(["lazy", "lazy.h5"]))
        h = xyzpy.Harvester(None, data_name=path, engine="h5netcdf", chunks=rng.choice([1, {"a": 1}]))
        rep = {"stream": "lazy-harvester", "steps": []}
        bad = None
        try:
            for k in range(rng.randint(2, 4)):
                a = sorted(rng.sample(range(20), rng.randint(1, 3)))
                pol = rng.choice([None, True, False]) if k else None
                ds = xr.Dataset({"out": (("a",), np.array([100.0 * k + x for x in a]))}, coords={"a": a})
                rep["steps"].append([a, str(pol)])
                try:
                    h.add_ds(ds, overwrite=pol)
                except xr.MergeError:
                    continue
                held = h.full_ds.compute()
                disk = xyzpy.load_ds(path)
                if list(held["a"].values) != list(disk["a"].values) or not np.array_equal(
                        held["out"].values, disk["out"].values, equal_nan=True):
                    bad = (f"after step {k} the harvester holds a={list(map(int, held['a'].values))} "
                           f"out={held['out'].values.tolist()} but the file holds a={list(map(int, disk['a'].values))} "
                           f"out={disk['out'].values.tolist()}")
                    break
        except Exception as e:  # noqa
            bad = f"{type(e).__name__}: {str(e)[:160]}"
        finally:
            if h._full_ds is not None:
                h._full_ds.close()
        c.case(json.dumps(rep, sort_keys=True), nontrivial=True, sample=rep if i % 5 == 0 else None)
        c.count("stream", "lazy-harvester")
        if bad:
            c.violation("lazy-memory-differs-from-file", bad, rep)
        shutil.rmtree(d, ignore_errors=True)


def lazy_snapshot_stream(c, tmp, n):
    """A dataset loaded lazily (chunks=...) is a snapshot of the file as it was: when somebody replaces the file
    afterwards (a harvester saves by writing next to it and renaming), evaluating the dataset still gives the values
    it was loaded with -- the same as loading into memory at that moment."""
    import xarray as xr
    import xyzpy
    for i in range(n):
        rng = c.rng
        d = os.path.join(tmp, f"ls{i}")
        os.makedirs(d)
        path = os.path.join(d, rng.choice(["snap", "snap.h5"]))
        a = sorted(rng.sample(range(10), rng.randint(2, 3)))
        ds = xr.Dataset({"v": (("a", "b"), np.array([[10.0 * x + y for y in range(3)] for x in a]))},
                        coords={"a": a, "b": [0, 1, 2]})
        xyzpy.save_ds(ds, path)
        chunks = rng.choice([1, {"a": 1}, {"a": 1, "b": 2}])
        rep = {"stream": "lazy-snapshot", "chunks": repr(chunks), "a": a}
        bad = None
        lazy = None
        try:
            lazy = xyzpy.load_ds(path, chunks=chunks)
            eager = xyzpy.load_ds(path)
            # another session harvests other values for the same points and one more
            h = xyzpy.Harvester(None, data_name=path)
            more = xr.Dataset({"v": (("a", "b"), np.array([[500.0 + 10 * x + y for y in range(3)] for x in a + [11]]))},
                              coords={"a": a + [11], "b": [0, 1, 2]})
            h.add_ds(more, overwrite=True)
            got = lazy["v"].values
            if got.shape != eager["v"].values.shape or not np.array_equal(got, eager["v"].values):
                bad = (f"loaded lazily before the file was replaced, evaluated afterwards: {got.tolist()}; loaded into "
                       f"memory at the same moment: {eager['v'].values.tolist()}")
        except Exception as e:  # noqa
            bad = f"{type(e).__name__}: {str(e)[:160]}"
        finally:
            if lazy is not None:
                lazy.close()
        c.case(json.dumps(rep, sort_keys=True), nontrivial=True, sample=rep if i % 5 == 0 else None)
        c.count("stream", "lazy-snapshot")
        if bad:
            c.violation("lazy-load-differs", bad, rep)
        shutil.rmtree(d, ignore_errors=True)


def derived_stream(c, tmp, n, pairs, metas):
    """A dataset DERIVED from a loaded one (extended along a coordinate, so that cells nobody filled are missing)
    is a dataset like any other: saved and loaded again it has the same values -- whatever on-disk details xarray
    remembers from the earlier load."""
    import xarray as xr
    import xyzpy
    for i in range(n):
        rng = c.rng
        engine = rng.choice(["h5netcdf", "h5netcdf", "joblib"])
        d = os.path.join(tmp, f"v{i}")
        os.makedirs(d)
        kind = rng.choice(["int", "int", "float", "uint8", "int32", "bool"])
        a = sorted(rng.sample(range(10), rng.randint(1, 3)))
        vals = {"int": np.array([10 * x + 1 for x in a]), "float": np.array([x / 4 for x in a]),
                "uint8": np.array([x + 1 for x in a], dtype="uint8"),
                "int32": np.array([x - 5 for x in a], dtype="int32"),
                "bool": np.array([x % 2 == 0 for x in a])}[kind]
        narrow = rng.random() < 0.3          # the coordinate is stored with a narrow integer type ...
        ds = xr.Dataset({"v": (("a",), vals), "w": (("a",), np.array([float(x) for x in a]))},
                        coords={"a": np.array(a, dtype="int32" if narrow else "int64")})
        how = rng.choice(["reindex", "merge", "combine_first", "concat"])
        if kind == "bool":
            how = "concat"        # (padding a bool variable with missing cells gives an object array: not netCDF data)
        rep = {"stream": "derived-from-loaded", "engine": engine, "dtype": kind, "how": how, "a": a, "narrow_coordinate": narrow}
        err, bad = None, None
        try:
            xyzpy.save_ds(ds, os.path.join(d, "first"), engine=engine)
            loaded = xyzpy.load_ds(os.path.join(d, "first"), engine=engine)
            extra = [x for x in range(10, 13)][:rng.randint(1, 2)]
            if narrow and rng.random() < 0.6:
                extra = [2 ** 33 + x for x in extra]      # ... and then grows past what that type can hold
            elif rng.random() < 0.4:
                extra = [x + 0.5 for x in extra]          # the (integer) coordinate itself becomes float
            other = xr.Dataset({"w": (("a",), np.array([float(x) for x in extra]))}, coords={"a": extra})
            if how == "concat":
                # further rows whose values are of a wider KIND: ints after bools, complex after floats / ints
                extra = extra[:1]
                newv = {"bool": 7, "float": 0.5 + 2j, "int": 3 + 1j}.get(kind, 300)
                neww = (0.25 + 1j) if rng.random() < 0.5 else 1.5
                more = xr.Dataset({"v": (("a",), np.array([newv])), "w": (("a",), np.array([neww]))}, coords={"a": extra})
                derived = xr.concat([loaded, more], "a")
            elif how == "reindex":
                derived = loaded.reindex(a=a + extra)
            elif how == "merge":
                derived = xr.merge([loaded, other])
            else:
                derived = loaded.combine_first(other)
            want = {k: derived[k].values.tolist() for k in list(derived.data_vars) + list(derived.coords)}
            xyzpy.save_ds(derived, os.path.join(d, "second"), engine=engine)
            back = xyzpy.load_ds(os.path.join(d, "second"), engine=engine)
            KIND = {"i": "KInt", "u": "KUInt", "f": "KFloat", "c": "KComplex", "b": "KBool", "U": "KStr"}
            for k in list(derived.data_vars) + list(derived.coords):
                if not same_values(derived[k].values, back[k].values):
                    bad = f"{k}: {want[k]} came back as {back[k].values.tolist()}"
                # the kind the variable was written with, against the regenerated rule of save_ds
                def coq_dt(dt):
                    dt = np.dtype(dt)
                    return f"({KIND[dt.kind]}, {8 * dt.itemsize})"
                rem = loaded[k].encoding.get("dtype") if k in loaded else None
                rem = "None" if rem is None else f"(Some {coq_dt(rem)})"
                pairs.append((f"enc_dtype (written_dtype gen_dtype_rule {ENG[engine]} {rem} {coq_dt(derived[k].dtype)} false)",
                              [back[k].dtype.kind, 8 * back[k].dtype.itemsize]))
                metas.append({**rep, "variable": k})
        except Exception as e:  # noqa
            err = f"{type(e).__name__}: {str(e)[:160]}"
        c.case(json.dumps(rep, sort_keys=True), nontrivial=True, sample=rep if i % 8 == 0 else None)
        c.count("stream", "derived-from-loaded"); c.count("derived_dtype", kind)
        if err is not None:
            c.violation("derived-dataset-raised", err, rep)
        elif bad:
            c.violation("values-differ", "a dataset derived from a loaded one: " + bad, rep)
        shutil.rmtree(d, ignore_errors=True)


def run(tier, seed):
    c = core.Check("C14", tier, seed)
    gen_st = core.regen()
    b = core.build(PROP_FILE)
    c.cov["translator"] = {k: v for k, v in gen_st.items() if k in ("GenNames",)}
    c.cov["build"] = {"ok": b["ok"], "failed_file": b["failed_file"], "wall_s": round(b.get("wall_s", 0), 1)}
    if "GenNames" in gen_st and not gen_st["GenNames"]["ok"]:
        c.obligation_broken("translator GenNames", gen_st["GenNames"]["detail"])
    if not b["ok"]:
        c.obligation_broken(f"Coq build of {b['failed_file']}", b["log_tail"][-1200:])
    n = 250 if tier == "quick" else 2500
    if c.broken:
        n = 800
    tmp = core.scratch_dir("xv-c14-")
    pairs, metas = [], []
    try:
        for i in range(n):
            rep, obs, mp = one_case(c, tmp, i)
            c.case(json.dumps(rep, sort_keys=True, default=str), nontrivial=bool(rep["dims"]),
                   sample={**rep, "files": obs.get("files")} if i % 40 == 0 else None)
            c.count("engine", rep["engine"]); c.count("name", rep["name"]); c.count("chunks", str(rep["chunks"]))
            c.count("ndim", len(rep["dims"])); c.count("via", rep["via"])
            for v in rep["vars"].values():
                c.count("dtype", v[0])
            if "error" in obs:
                c.violation("round-trip-raised", obs["error"], rep)
                continue
            for key, msg in obs["bad"]:
                c.violation(key, msg, rep)
            if mp is not None:
                pairs.append(mp)
                metas.append(rep)
        sync_conflict_stream(c, tmp, 12 if tier == "quick" and not c.broken else 80)
        lazy_harvester_stream(c, tmp, 12 if tier == "quick" and not c.broken else 80)
        derived_stream(c, tmp, 16 if tier == "quick" and not c.broken else 120, pairs, metas)
        lazy_snapshot_stream(c, tmp, 10 if tier == "quick" and not c.broken else 60)
        bad, _ = core.safe_run_cases(c, "Prelude Names GenNames", pairs, preamble=PREAMBLE)
        for i in bad:
            c.obligation_broken("correspondence Model/Names.v (regenerated) vs manage.py",
                                {"case": metas[i], "model_expr": pairs[i][0], "observed": pairs[i][1]})
        c.cov["disagreements_checked"] = len(bad)
        c.cov["differential_test_note"] = "value / dtype / coordinate round trip is a differential test, not a theorem"
    finally:
        shutil.rmtree(tmp, ignore_errors=True)
    c.assumptions = ["attribute values are None/True/False, numbers or strings", "file names contain no other engine's extension by accident unless generated so"]
    return c.finish(b, PROP_FILE, TRUSTED, RULE)


def replay(path):
    return core.generic_replay(run, path)
