"""C16 -- generated cluster scripts and the grow CLI grow exactly the intended batches.

Every generated script is checked with `bash -n`, its embedded Python program is compiled, and the
script is EXECUTED with bash once per index of the array range found in its header (stub
scheduler variable set), or once.  Which batches a run evaluated is read from a call log written
by the sown function itself (one file per run), from the result files and from the
`xyzpy: success - batch N completed.` lines; the script's exit status is never used."""
import ast
import concurrent.futures as cf
import json
import os
import re
import shutil
import subprocess

from harness import core
from harness.impl import c16fn
from harness.impl import crops as C
from harness.impl import runner as R

PROP_FILE = "Props/C16.v"
PY = "/venv/bin/python"
SCHEDS = ["sge", "pbs", "slurm"]
MODES = ["array", "single"]
VAR = {"sge": "SGE_TASK_ID", "pbs": "PBS_ARRAY_INDEX", "slurm": "SLURM_ARRAY_TASK_ID"}
RANGE_RE = {"sge": r"^#\$ -t (-?\d+)-(-?\d+)$", "pbs": r"^#PBS -J (-?\d+)-(-?\d+)$",
            "slurm": r"^#SBATCH --array=(-?\d+)-(-?\d+)$"}
HEADER_MARK = {"sge": "#$ -S /bin/bash", "pbs": "#PBS -N ", "slurm": "#SBATCH --job-name="}
TIME_RE = {"sge": r"h_rt=([^:,\n]+):([^:,\n]+):([^:,\n]+),", "pbs": r"walltime=([^:\n]+):([^:\n]+):([^:\n]+)$",
           "slurm": r"--time=([^:\n]+):([^:\n]+):([^:\n]+)$"}
COQ_SC = {"sge": "SGE", "pbs": "PBS", "slurm": "SLURM"}
COQ_MD = {"array": "MArray", "single": "MSingle"}
PIECE = {"sge": (0, 1, 7, 10), "pbs": (2, 3, 8, 11), "slurm": (4, 5, 9, 12)}   # header, array line, all, partial
OPEN = "read -r -d '' SCRIPT << EOM"

TRUSTED = [
    "Coq 8.16.1 kernel (coqc, full .vo build); vm_compute for C16_templates_wf (a finite check on the template "
    "strings regenerated from cropping.py), the _refuted_old lemma, bridge_rewrite and the Examples",
    "translator harness/translator/gen_templates.py (fail closed): template constants -> Coq strings, keys of the "
    "opts dict, the selection part of gen_cluster_script (statement-shape classification) -> gen_select, the CLI's "
    "and Crop.grow_missing's calls; bridge lemmas Bridge/BridgeTemplates.v tie them to Model/Script.v",
    "execution model of a script (Model/Script.v runs / grown_by_run): one run per index of the header range with "
    "the index variable set, grow(INDEX) / grow(batch_ids[INDEX - 1]) / crop.grow(batch_ids); tied to the template "
    "text by the `requires` substrings inside template_ok and validated by executing every script with bash",
    "hypothesis state_consistent (no results on disk => missing ids are 1..B) is proved for the crop model "
    "(C16_crop_state); the crop state does not change between script generation and its execution",
    "real schedulers are absent: bash with stub SGE_TASK_ID / PBS_ARRAY_INDEX / SLURM_ARRAY_TASK_ID; shell and "
    "Python validity of a script are decided by `bash -n` and compile(); str.format, bash here-document expansion",
    "C16_cli re-uses the crop model (Model/Crop.v grow_missing, Proofs/ProgressProofs.v grow_missing_ready)",
]
RULE = ("configurations = scheduler x mode x number of batches 1..8 x crop state {fresh, partially grown, complete, "
        "explicit ids of length 1..B (sorted on a fresh crop / shuffled on a partially grown crop)} x resource "
        "spelling; quick: one seeded state per (scheduler, mode, B) + directed cases + every spelling once; "
        "thorough: the full cross product of scheduler x mode x B x state (spellings rotating) and every spelling x "
        "scheduler x mode; when an obligation is broken: a seeded sample of up to 5 states per (scheduler, mode, B) "
        "plus the directed cases and every spelling twice; explicit ids are passed as list / tuple / a single int; "
        "every script is executed once per header index; distinct = distinct (scheduler, mode, B, "
        "state, pre-grown set, ids, spelling); non-trivial = at least one batch is intended and the crop has >= 2 "
        "batches or is not fresh")


# ------------------------------------------------------------------ configuration space
def spellings():
    pp = os.environ.get("PYTHONPATH", "")
    return [
        ("defaults", {}, None),
        ("time-int", {"time": 2}, None),
        ("time-float", {"time": 1.5}, None),
        ("time-hms-string", {"time": "1:30:00"}, None),
        ("hours", {"hours": 3}, None),
        ("minutes", {"minutes": 45}, None),
        ("seconds", {"seconds": 50}, None),
        ("hours-minutes-seconds", {"hours": 1, "minutes": 2, "seconds": 3}, None),
        ("mem-int", {"mem": 4}, None),
        ("gigabytes", {"gigabytes": 8}, None),
        ("mem-per-cpu", {"mem_per_cpu": 2}, None),
        ("mem-string", {"mem": "4G"}, ["slurm"]),
        ("num-procs", {"num_procs": 4}, None),
        ("num-procs-num-threads", {"num_procs": 4, "num_threads": 2}, None),
        ("num-procs-num-workers", {"num_procs": 2, "num_workers": 2}, None),
        ("num-workers-num-threads", {"num_workers": 2, "num_threads": 1}, None),
        ("num-workers-only", {"num_workers": 2}, None),
        ("num-nodes", {"num_nodes": 1}, None),
        ("mpi", {"mpi": True, "num_procs": 2}, None),
        ("flag-gpu", {"gpu": 1}, None),
        ("flag-requeue-none", {"requeue": None}, None),
        ("flag-exclusive-true", {"exclusive": True}, None),
        ("flags-mixed", {"gpu": 1, "requeue": None, "time": 1, "mem": 2, "num_procs": 2}, None),
        ("debugging", {"debugging": True}, None),
        ("setup", {"setup": "import math; X = math.sqrt(4)"}, None),
        ("shell-setup-pythonpath", {"shell_setup": f"export PYTHONPATH={pp}"}, None),
        ("default-output-directory", {}, None),
        ("temp-gigabytes", {"temp_gigabytes": 5}, None),
    ]


EXPECTED_SECONDS = {"defaults": 3600, "time-int": 7200, "time-float": 5400, "time-hms-string": 5400, "hours": 10800,
                    "minutes": 2700, "seconds": 50, "hours-minutes-seconds": 3723, "flags-mixed": 3600}
SCHED_SPECIFIC = ["mem-int", "gigabytes", "mem-per-cpu", "mem-string", "num-procs", "num-nodes", "flags-mixed",
                  "num-procs-num-threads"]
CHEAP = ["defaults", "time-int", "hours", "mem-int", "gigabytes", "num-procs", "flag-gpu", "flag-requeue-none",
         "debugging", "temp-gigabytes", "minutes", "num-nodes"]


def subset(rng, B, k):
    return sorted(rng.sample(range(1, B + 1), k))


def state_variants(B, rng, full):
    """(state, pre-grown ids, requested ids or None)"""
    out = [("fresh", [], None)]
    if B >= 2:
        out.append(("partial", subset(rng, B, rng.randint(1, B - 1)), None))
    if B >= 3 and full:
        hole = rng.randint(2, B)
        out.append(("partial", [i for i in range(1, B + 1) if i != hole], None))   # exactly one missing
    if full:
        out.append(("complete", list(range(1, B + 1)), None))
    for L in range(1, B + 1):
        out.append(("explicit", [], subset(rng, B, L)))
        if full or rng.random() < 0.5:
            ids = subset(rng, B, L)
            rng.shuffle(ids)
            out.append(("explicit", subset(rng, B, rng.randint(1, B)) if B > 1 else [], ids))
    return out


def gen_configs(tier, rng):
    full = tier == "thorough"
    search = tier == "search"          # an obligation is broken: wider than quick, bounded (about 4 minutes)
    sp = spellings()
    cfgs = []

    def add(sched, mode, B, state, pre, ids, res="defaults", cli=None, int_ids=False):
        kw = dict(next(k for n, k, _ in sp if n == res))
        if "num_workers" in kw and ids is not None:
            ids = sorted(ids)            # worker pools may finish in any order: compare as sets
        cfgs.append({"id": len(cfgs), "sched": sched, "mode": mode, "B": B, "state": state, "pre": pre, "ids": ids,
                     "res": res, "cli": cli, "int_ids": int_ids,
                     # every fourth crop is created with a RELATIVE parent directory (the script must still find it)
                     "relative": len(cfgs) % 4 == 3})
    rot = 0
    for sched in SCHEDS:
        for mode in MODES:
            for B in range(1, 9):
                variants = state_variants(B, rng, full or search)
                if search:
                    variants = rng.sample(variants, min(5, len(variants)))
                elif not full:
                    variants = rng.sample(variants, min(2 if B % 2 else 1, len(variants)))
                for state, pre, ids in variants:
                    rot += 1
                    add(sched, mode, B, state, pre, ids, CHEAP[rot % len(CHEAP)] if full else "defaults")
    # directed cases (both tiers)
    add("pbs", "array", 3, "explicit", [], [3])          # single element, id != index
    add("pbs", "array", 4, "partial", [1, 2, 4], None)   # exactly one missing
    add("pbs", "array", 1, "fresh", [], None)
    add("pbs", "array", 4, "explicit", [2], [4, 2])
    add("pbs", "single", 3, "explicit", [], [2])
    add("sge", "array", 4, "partial", [1, 3], None)
    add("sge", "array", 4, "explicit", [1], [3, 1])
    add("sge", "array", 1, "fresh", [], None)
    add("slurm", "array", 5, "partial", [2, 3, 5], None)
    add("slurm", "array", 3, "explicit", [], [2])
    add("slurm", "array", 1, "fresh", [], None)
    # docstring: "batch_ids : int or tuple[int]" -- the single-int spelling
    add("slurm", "array", 3, "explicit", [], [2], int_ids=True)
    add("sge", "array", 4, "explicit", [1, 2], [3], int_ids=True)
    add("pbs", "array", 3, "explicit", [], [3], int_ids=True)
    add("pbs", "single", 2, "explicit", [], [2], int_ids=True)
    add("sge", "single", 3, "explicit", [3], [1], int_ids=True)
    add("slurm", "single", 3, "explicit", [], [3], int_ids=True)
    if full or search:
        for sched in SCHEDS:
            for mode in MODES:
                for B in (1, 5, 8):
                    add(sched, mode, B, "explicit", [], [rng.randint(1, B)], int_ids=True)
    for sched in SCHEDS:
        add(sched, "single", 3, "fresh", [], None)
        add(sched, "single", 4, "partial", [2, 3], None)
        add(sched, "array", 3, "complete", [1, 2, 3], None)
    # crops laid out by a batch COUNT that exceeds the number of settings (the crop then has one batch per setting)
    for sched in SCHEDS:
        for mode in MODES:
            add(sched, mode, 1, "fresh", [], None)
            cfgs[-1]["layout"] = "count-over"
    # resource spellings
    k = 0
    for name, _, only in sp:
        combos = [(s, m) for s in (only or SCHEDS) for m in MODES]
        if search:
            combos = [combos[k % len(combos)], combos[(k + 3) % len(combos)]]
        elif not full and name in SCHED_SPECIFIC:
            # the schedulers translate these differently (SLURM passes only what was given, PBS / SGE convert):
            # every scheduler once, the mode alternating
            combos = [(s, MODES[(k + j) % len(MODES)]) for j, s in enumerate(only or SCHEDS)]
        elif not full:
            combos = [combos[k % len(combos)], combos[(k + 3) % len(combos)]][:2 if k % 3 == 0 else 1]
        for sched, mode in combos:
            k += 1
            if k % 2:
                add(sched, mode, 3, "partial", [2], None, name)
            else:
                add(sched, mode, 3, "explicit", [], [1, 3], name)
            if full:
                add(sched, mode, 2, "fresh", [], None, name)
    # the command line grower on its own (fresh and partially grown crops, option spellings)
    clis = [[], ["--num-threads", "2"], ["--verbosity", "0"], ["--debug"], ["--num-workers", "2"]]
    for i, opts in enumerate(clis if full else clis[:3] + clis[4:]):
        B = 2 + i
        add("-", "cli", B, "fresh" if i % 2 == 0 else "partial", [] if i % 2 == 0 else subset(rng, B, max(1, B // 2)),
            None, "defaults", opts)
    if full:
        for B in range(1, 9):
            add("-", "cli", B, "partial" if B > 1 else "fresh", subset(rng, B, rng.randint(1, B - 1)) if B > 1 else [],
                None, "defaults", [])
        add("-", "cli", 3, "complete", [1, 2, 3], None, "defaults", [])
    return cfgs


# ------------------------------------------------------------------ phase 1: crop, script, static checks
def base_env():
    env = dict(os.environ)
    for v in VAR.values():
        env.pop(v, None)
    env.pop("XV_C16_LOG", None)
    env["TQDM_DISABLE"] = "1"
    return env


def prepare(cfg, root):
    """Sow (and pre-grow) the crop, generate the script, run the static checks, plan the runs."""
    if not cfg.get("relative"):
        return _prepare(cfg, root, None)
    cwd0 = os.getcwd()
    os.chdir(root)                 # (prepare runs sequentially in the main thread)
    try:
        return _prepare(cfg, root, f"c{cfg['id']}")
    finally:
        os.chdir(cwd0)


def _prepare(cfg, root, rel):
    import xyzpy
    d = os.path.join(root, f"c{cfg['id']}")
    os.makedirs(d)
    name = f"k{cfg['id']}"
    B = cfg["B"]
    combos = {"a": list(range(B)), "b": [0, 1]}
    layout = {"batchsize": 2}
    if cfg.get("layout") == "count-over":
        layout = {"num_batches": 2 * B + 1}
    crop = xyzpy.Crop(fn=c16fn.fn, name=name, parent_dir=rel if rel is not None else d, **layout)
    crop.sow_combos(combos, verbosity=0)
    if cfg["pre"]:
        crop.grow(tuple(cfg["pre"]), verbosity=0)
    if cfg["id"] % 7 == 3:
        # a temporary result file left behind by a grower that was killed while writing (wall-time limit): it is
        # not a result, the batch is still missing
        miss = list(crop.missing_results())
        if miss:
            open(os.path.join(crop.location, "results", f"xyz-result-{miss[0]}.jbdmp.tmp-999-deadbeef"), "wb").write(b"\x80\x04")
    st = {"dir": d, "name": name, "combos": combos, "bad": [], "runs": [], "script": None}
    st["batch_of"] = {}
    for i in C.batch_files(crop):
        for kw in C.read_pickle(os.path.join(crop.location, "batches", f"xyz-batch-{i}.jbdmp")):
            st["batch_of"][(kw["a"], kw["b"])] = i
    st["cases_in"] = {i: sum(1 for v in st["batch_of"].values() if v == i) for i in set(st["batch_of"].values())}
    st["B"], st["nres"], st["missing"] = crop.num_batches, crop.num_results, list(crop.missing_results())
    st["before"] = C.result_ids(crop)
    if cfg["ids"] is not None:
        st["intended"] = list(cfg["ids"])
    elif st["nres"] > 0:
        st["intended"] = list(st["missing"])
    else:
        st["intended"] = list(range(1, st["B"] + 1))
    if cfg["mode"] == "cli":
        st["intended"] = list(st["missing"])
        return st
    kw = dict(next(k for n, k, _ in spellings() if n == cfg["res"]))
    ids = cfg["ids"]
    if ids is not None:
        ids = tuple(ids) if cfg["id"] % 2 else list(ids)
        if cfg["id"] % 5 == 4:
            import numpy as np
            ids = np.array(ids)          # ids computed with numpy (e.g. from np.where / np.arange)
        if cfg.get("int_ids"):
            ids = int(ids[0])
    home = os.environ.get("HOME")
    if cfg["res"] == "default-output-directory":
        os.environ["HOME"] = d           # the SGE header runs `mkdir -p ~/Scratch/output`
    else:
        kw["output_directory"] = os.path.join(d, "out")
    try:
        script = crop.gen_cluster_script(cfg["sched"], batch_ids=ids, mode=cfg["mode"], launcher=PY,
                                         conda_env=False, **kw)
    except Exception as e:  # noqa
        st["gen_error"] = f"{type(e).__name__}: {str(e)[:200]}"
        st["gen_error_type"] = type(e).__name__
        return st
    finally:
        if home is not None:
            os.environ["HOME"] = home
    st["script"] = script
    path = os.path.join(d, "job.sh")
    with open(path, "w") as f:
        f.write(script)
    st["path"] = path
    rc, out = core.sh(["bash", "-n", path], timeout=60)
    if rc != 0:
        st["bad"].append(("script-not-valid-shell", f"bash -n: {out[-200:]}"))
    lines = script.split("\n")
    # the array range of the header
    rng_found = [re.match(RANGE_RE[cfg["sched"]], ln) for ln in lines]
    rng_found = [(int(m.group(1)), int(m.group(2))) for m in rng_found if m]
    other = [ln for s in SCHEDS if s != cfg["sched"] for ln in lines if re.match(RANGE_RE[s], ln)]
    if len(rng_found) > 1 or other:
        st["bad"].append(("array-header-malformed", f"array lines: {rng_found} foreign: {other}"))
    st["range"] = list(rng_found[0]) if rng_found else None
    if cfg["mode"] == "single" and st["range"] is not None:
        st["bad"].append(("array-header-in-single-mode", str(st["range"])))
    # the embedded program
    prog = None
    if OPEN in lines and "EOM" in lines and lines.index("EOM") > lines.index(OPEN):
        prog = "\n".join(lines[lines.index(OPEN) + 1:lines.index("EOM")]) + "\n"
    st["program"] = prog
    indices = [None]
    if st["range"] is not None:
        indices = list(range(st["range"][0], st["range"][1] + 1))
    if prog is None:
        st["bad"].append(("embedded-program-not-found", "no here-document with the Python program"))
    else:
        for t in (indices[:1] + indices[-1:]) or [1]:
            src = prog
            for s in SCHEDS:
                src = src.replace("$" + VAR[s], str(t) if (t is not None and s == cfg["sched"]) else "")
            try:
                compile(src, "<embedded program>", "exec")
            except SyntaxError as e:
                st["bad"].append(("embedded-program-not-valid-python", f"index {t}: {e.msg}: {str(e.text).strip()[:80]}"))
                break
    if "num_workers" in kw and f"num_workers={kw['num_workers']}" not in (prog or ""):
        st["bad"].append(("num-workers-option-not-in-program", f"num_workers={kw['num_workers']} requested"))
    if cfg["res"] == "num-workers-only" and "export OMP_NUM_THREADS=1\n" not in script:
        st["bad"].append(("num-workers-without-num-procs-threads", "expected one thread per worker (OMP_NUM_THREADS=1)"))
    st["runs"] = [{"t": t, "k": k} for k, t in enumerate(indices)]
    st["observed_text"] = read_text(cfg, st)
    st["walltime_note"] = walltime_note(cfg, script)
    return st


def read_text(cfg, st):
    """What the final script text shows: ids line, constant index?, recognisable pieces."""
    script, prog, sched = st["script"], st["program"] or "", cfg["sched"]
    ids_obs = None
    m = re.search(r"^    batch_ids = (.*)$", prog, re.M)
    if m:
        try:
            v = ast.literal_eval(m.group(1))
            ids_obs = [int(x) for x in v] if isinstance(v, (tuple, list)) else str(m.group(1))
        except Exception:  # noqa
            ids_obs = m.group(1)
    const_idx, grow_piece = None, None
    m_all = re.search(r"^    grow\(([^,\[\]]*), \*\*grow_kwargs\)$", prog, re.M)
    m_part = re.search(r"^    grow\(batch_ids\[(.*) - 1\], \*\*grow_kwargs\)$", prog, re.M)
    m_single = re.search(r"^    crop\.grow\(batch_ids, ", prog, re.M)
    hdr, arr, p_all, p_part = PIECE[sched]
    for mm, pid in ((m_all, p_all), (m_part, p_part)):
        if mm:
            grow_piece = pid
            arg = mm.group(1).strip()
            const_idx = bool(re.fullmatch(r"-?\d+", arg))
            if not const_idx and arg != "$" + VAR[sched]:
                st["bad"].append(("wrong-index-variable", f"the program indexes with {arg!r}"))
    if m_single:
        grow_piece = 13
    pieces = []
    if HEADER_MARK[sched] in script:
        pieces.append(hdr)
    if st["range"] is not None:
        pieces.append(arr)
    if OPEN in script:
        pieces.append(6)
    if grow_piece is not None:
        pieces.append(grow_piece)
    if f'EOM\n{PY} -c "$SCRIPT"\n' in script:
        pieces.append(14)
    return {"ids": ids_obs, "const_index": const_idx, "pieces": pieces}


def walltime_note(cfg, script):
    exp = EXPECTED_SECONDS.get(cfg["res"])
    m = re.search(TIME_RE[cfg["sched"]], script, re.M)
    if exp is None or not m:
        return None
    try:
        got = float(m.group(1)) * 3600 + float(m.group(2)) * 60 + float(m.group(3))
    except ValueError:
        got = None
    if got != exp:
        return f"{cfg['sched']} {cfg['res']}: header requests {m.group(0)!r}, asked for {exp} s"
    return None


# ------------------------------------------------------------------ phase 2 / 4: executions
def execute(job):
    kind, cfg, st, run = job
    env = base_env()
    if cfg["res"] == "shell-setup-pythonpath" and kind == "script":
        env.pop("PYTHONPATH", None)          # the script's shell_setup exports it
    log = os.path.join(st["dir"], f"log-{kind}-{run['k']}")
    env["XV_C16_LOG"] = log
    if "num-workers" in str(cfg.get("res")) or "--num-workers" in (cfg.get("cli") or []):
        env["XV_C16_SLOW"] = "1"
    if kind == "script":
        if run["t"] is not None:
            env[VAR[cfg["sched"]]] = str(run["t"])
        cmd = ["bash", st["path"]]
    else:
        cmd = [PY, "-W", "ignore", "-m", "xyzpy.gen.xyzpy_grow_cli", st["name"], "--parent-dir", st["dir"]] + list(cfg["cli"] or [])
    try:
        p = subprocess.run(cmd, env=env, cwd=st["dir"], stdout=subprocess.PIPE, stderr=subprocess.PIPE, text=True,
                           timeout=600)
        run["rc"], run["stdout"], run["stderr"] = p.returncode, p.stdout, p.stderr[-600:]
    except subprocess.TimeoutExpired:
        run["rc"], run["stdout"], run["stderr"] = 124, "", "[timeout]"
    calls = []
    if os.path.exists(log):
        for ln in open(log):
            a, b = ln.split()
            calls.append((int(a), int(b)))
    run["calls"] = calls
    return job


def batches_of_calls(st, calls, anomalies):
    """Batch ids evaluated by a run, in order of first call, repeated as often as evaluated."""
    order, count = [], {}
    for cb in calls:
        i = st["batch_of"].get(cb)
        if i is None:
            anomalies.append(f"call {cb} belongs to no batch")
            continue
        if i not in count:
            order.append(i)
            count[i] = {}
        count[i][cb] = count[i].get(cb, 0) + 1
    out = []
    for i in order:
        ks = set(count[i].values())
        if len(count[i]) != st["cases_in"][i] or len(ks) != 1:
            anomalies.append(f"batch {i} evaluated partially / unevenly: {count[i]}")
        out += [i] * max(ks)
    return out


def crop_of(st):
    import xyzpy
    return xyzpy.Crop(name=st["name"], parent_dir=st["dir"])


# ------------------------------------------------------------------ phase 3: the property statement
def judge_script(cfg, st):
    bad = list(st["bad"])
    intended = st["intended"]
    anomalies = []
    per_run = [batches_of_calls(st, r["calls"], anomalies) for r in st["runs"]]
    st["per_run"] = per_run
    grown = [i for g in per_run for i in g]
    for a in anomalies:
        bad.append(("batch-evaluated-partially", a))
    for i in sorted(set(intended)):
        if grown.count(i) == 0:
            bad.append(("intended-batch-not-grown", f"batch {i} of the intended {intended} was not grown; grown: {grown}"))
        elif grown.count(i) > intended.count(i):
            bad.append(("batch-grown-more-than-once", f"batch {i} grown {grown.count(i)} times"))
    for i in sorted(set(grown) - set(intended)):
        bad.append(("unintended-batch-grown", f"batch {i} grown but intended were {intended}"))
    if cfg["mode"] == "array":
        n_idx = 0 if st["range"] is None else max(0, st["range"][1] - st["range"][0] + 1)
        if st["range"] is None:
            if not (cfg["sched"] == "pbs" and len(intended) == 1):
                bad.append(("array-range-missing", f"no array line for {len(intended)} tasks"))
        elif n_idx != len(intended):
            bad.append(("array-range-does-not-cover-tasks", f"header range {st['range']} for {len(intended)} tasks"))
        if any(len(g) > 1 for g in per_run):
            bad.append(("array-task-grew-several-batches", str(per_run)))
        # the success lines tell the same story as the call log
        said = [int(x) for r in st["runs"] for x in re.findall(r"xyzpy: success - batch (\d+) completed\.", r["stdout"])]
        if sorted(said) != sorted(grown):
            bad.append(("success-lines-disagree-with-calls", f"success lines {said}, evaluated {grown}"))
    else:
        if len(st["runs"]) != 1:
            bad.append(("single-mode-several-runs", str(len(st["runs"]))))
    after = C.result_ids(crop_of(st))
    st["after"] = after
    want_after = sorted(set(st["before"]) | set(intended))
    if after != want_after and not [b for b in bad if b[0].startswith(("intended", "unintended"))]:
        bad.append(("result-files-mismatch", f"result files {after}, expected {want_after}"))
    return bad


def judge_cli(cfg, st, run, missing_before):
    bad, anomalies = [], []
    grown = batches_of_calls(st, run["calls"], anomalies)
    st["cli_grown"] = grown
    for a in anomalies:
        bad.append(("cli-batch-evaluated-partially", a))
    if sorted(grown) != sorted(missing_before):
        bad.append(("cli-did-not-grow-exactly-the-missing", f"missing {missing_before}, grown {grown}, "
                    f"rc={run['rc']} {run['stderr'][-200:]}"))
    return bad


def judge_final(cfg, st):
    """All batches finished: ready, nothing missing, reap == direct run."""
    import xyzpy
    bad = []
    crop = crop_of(st)
    if tuple(crop.missing_results()) != () or not crop.is_ready_to_reap():
        bad.append(("not-ready-after-growing", f"missing {crop.missing_results()}"))
        return bad
    try:
        out = crop.reap(clean_up=False)
    except Exception as e:  # noqa
        bad.append(("reap-raised", f"{type(e).__name__}: {str(e)[:150]}"))
        return bad
    direct = xyzpy.combo_runner(c16fn.fn, st["combos"], verbosity=0)
    if out != direct:
        bad.append(("reap-differs-from-direct-run", f"{out} != {direct}"))
    return bad


def model_pair(cfg, st):
    if cfg["ids"] is None:
        arg = "ArgNone"
    elif cfg.get("int_ids"):
        arg = f"(ArgInt {int(cfg['ids'][0])})"
    else:
        arg = f"(ArgList {core.zlist(cfg['ids'])})"
    ms = core.zlist(st["missing"])
    expr = (f"enc_script (select {COQ_SC[cfg['sched']]} {COQ_MD[cfg['mode']]} (norm_ids {arg}) {st['nres']} {ms} "
            f"{st['B']}) {ms}")
    txt = st["observed_text"]
    per_run = st["per_run"]
    kw = next(k for n, k, _ in spellings() if n == cfg["res"])
    if "num_workers" in kw:
        per_run = [sorted(g) for g in per_run]
    return expr, [st["range"], txt["ids"], txt["const_index"], per_run, txt["pieces"]]


# ------------------------------------------------------------------ the pipeline
def pipeline(c, cfgs, root, workers=8):
    """Runs all phases for the configurations; returns {cfg id: list of (key, message)} and statistics."""
    sts, fails = {}, {}
    for cfg in cfgs:
        try:
            sts[cfg["id"]] = prepare(cfg, root)
        except Exception as e:  # noqa
            sts[cfg["id"]] = {"prepare_error": f"{type(e).__name__}: {str(e)[:300]}", "runs": [], "bad": []}
    jobs = [("script", cfg, sts[cfg["id"]], r) for cfg in cfgs for r in sts[cfg["id"]].get("runs", [])
            if cfg["mode"] != "cli" and sts[cfg["id"]].get("script")]
    with cf.ThreadPoolExecutor(max_workers=workers) as ex:
        list(ex.map(execute, jobs))
    n_exec = len(jobs)
    cli_jobs = []
    for cfg in cfgs:
        st = sts[cfg["id"]]
        bad = []
        if "prepare_error" in st:
            bad.append(("harness-could-not-build-crop", st["prepare_error"]))
        elif cfg["mode"] == "cli":
            pass
        elif st.get("script") is None:
            kw = next(k for n, k, _ in spellings() if n == cfg["res"])
            if st["gen_error_type"] == "TypeError" and "num_workers" in kw and "num_procs" not in kw \
                    and "num_threads" not in kw:
                bad.append(("num-workers-without-num-procs", st["gen_error"]))
            elif st["gen_error_type"] == "TypeError" and cfg.get("int_ids"):
                bad.append(("batch-ids-single-int", st["gen_error"]))
            else:
                bad.append(("script-generation-raised", st["gen_error"]))
        else:
            bad += judge_script(cfg, st)
        fails[cfg["id"]] = bad
        if "prepare_error" not in st:
            cr = crop_of(st)
            st["missing_mid"] = list(cr.missing_results())
            if cfg["mode"] == "cli" or st["missing_mid"]:
                run = {"t": None, "k": 0}
                st["cli_run"] = run
                cli_jobs.append(("cli", cfg, st, run))
    with cf.ThreadPoolExecutor(max_workers=workers) as ex:
        list(ex.map(execute, cli_jobs))
    for _, cfg, st, run in cli_jobs:
        fails[cfg["id"]] += judge_cli(cfg, st, run, st["missing_mid"])
    for cfg in cfgs:
        st = sts[cfg["id"]]
        if "prepare_error" not in st:
            fails[cfg["id"]] += judge_final(cfg, st)
    return sts, fails, n_exec, len(cli_jobs)


def sample_of(cfg, st):
    s = {k: cfg.get(k) for k in ("sched", "mode", "B", "state", "pre", "ids", "res", "cli", "int_ids", "relative", "layout")}
    s.update({"intended": st.get("intended"), "header_range": st.get("range"), "grown_per_run": st.get("per_run"),
              "ids_in_program": (st.get("observed_text") or {}).get("ids"), "cli_grown": st.get("cli_grown"),
              "generation_error": st.get("gen_error")})
    return s


def run(tier, seed):
    c = core.Check("C16", tier, seed)
    gen = core.regen()
    b = core.build(PROP_FILE)
    c.cov["translator"] = gen.get("GenTemplates")
    c.cov["build"] = {"ok": b["ok"], "failed_file": b["failed_file"], "wall_s": round(b.get("wall_s", 0), 1)}
    c.cov["bridge"] = {"file": "Bridge/BridgeTemplates.v",
                       "lemmas": ["bridge_select", "bridge_dynamic_expr", "bridge_rewrite", "bridge_cli"],
                       "checked": bool(b["ok"] or b["failed_file"] in ("Props/C16.v", "Proofs/ScriptProofs.v"))}
    c.cov["not_covered"] = ["real SGE / PBS / SLURM schedulers (bash with stub index variables instead)",
                            "conda_env activation (conda_env=False in every case) and launchers other than the venv python",
                            "grow_cluster / qsub submission, clean_slurm_outputs",
                            "malformed requests rejected by design (gigabytes together with mem, time together with hours)",
                            "wall-time / memory values written into the header (outside the statement; mismatches are notes)"]
    if not gen.get("GenTemplates", {}).get("ok"):
        c.obligation_broken("translator GenTemplates", gen.get("GenTemplates", {}).get("detail", "unit missing"))
    if not b["ok"]:
        c.obligation_broken(f"Coq build of {b['failed_file']}", b["log_tail"][-1200:])
    root = core.scratch_dir("xv-c16-")
    try:
        # when an obligation is broken, search the whole stated domain
        cfgs = gen_configs("thorough" if tier == "thorough" else ("search" if c.broken else "quick"), c.rng)
        sts, fails, n_exec, n_cli = pipeline(c, cfgs, root)
        notes = set()
        pairs, metas = [], []
        for cfg in cfgs:
            st = sts[cfg["id"]]
            sig = json.dumps([cfg.get(k) for k in ("sched", "mode", "B", "state", "pre", "ids", "res", "cli", "int_ids", "relative", "layout")])
            nontrivial = bool(st.get("intended")) and (cfg["B"] >= 2 or cfg["state"] != "fresh")
            c.case(sig, nontrivial=nontrivial, sample=sample_of(cfg, st))
            c.count("scheduler", cfg["sched"]); c.count("mode", cfg["mode"]); c.count("state", cfg["state"])
            c.count("batches", cfg["B"]); c.count("spelling", cfg["res"]); c.count("relative_parent_dir", bool(cfg.get("relative")))
            c.count("runs_per_script", len(st.get("runs", [])))
            c.count("intended_tasks", len(st.get("intended") or []))
            if st.get("walltime_note"):
                notes.add(st["walltime_note"])
            for key, msg in fails[cfg["id"]]:
                c.violation(key, msg, {"config": cfg, "observed": sample_of(cfg, st),
                                       "stderr_tail": [r.get("stderr", "")[-300:] for r in st.get("runs", [])][:3]})
            if cfg["mode"] != "cli" and st.get("script") is not None:
                pairs.append(model_pair(cfg, st))
                metas.append(cfg)
        bad, _ = core.safe_run_cases(c, "Prelude Script", pairs)
        for i in bad:
            cfg = metas[i]
            if not fails[cfg["id"]]:
                c.obligation_broken("correspondence Model/Script.v vs gen_cluster_script",
                                    {"config": cfg, "model_expr": pairs[i][0], "observed": pairs[i][1]})
        c.cov["disagreements_checked"] = len(bad)
        c.cov["model_pairs"] = len(pairs)
        c.cov["script_executions"] = n_exec
        c.cov["cli_executions"] = n_cli
        c.cov["exhaustive"] = bool(tier == "thorough")
        c.cov["search_after_broken_obligation"] = bool(c.broken and tier != "thorough")
        for n in sorted(notes):
            c.notes.append("outside the statement -- wall-time rendering: " + n)
    finally:
        R.shutdown_loky()
        shutil.rmtree(root, ignore_errors=True)
    c.notes.append("a script's exit status is always 0 (it ends with echo): runs are judged by the call log of the "
                   "sown function, the result files and the success lines only")
    c.assumptions = ["the crop is not modified between generating a script and running it",
                     "array tasks are independent processes; the stub sets only the scheduler's own index variable",
                     "requested batch ids are duplicate-free (C16_tasks_exact gives list equality for any list)"]
    return c.finish(b, PROP_FILE, TRUSTED, RULE)


def replay(path):
    r = json.load(open(path))
    if "replay" not in r:
        print(json.dumps(r, indent=1)[:3000])
        return 1
    cfg = r["replay"]["config"]
    root = core.scratch_dir("xv-c16-")
    try:
        sts, fails, _, _ = pipeline(None, [cfg], root, workers=4)
        st = sts[cfg["id"]]
        print("config:", cfg)
        print("observed:", json.dumps(sample_of(cfg, st), default=str))
        if st.get("script"):
            print("----- script -----\n" + st["script"])
        msgs = fails[cfg["id"]]
        for k, m in msgs:
            print("FAILS:", k, m)
        return 1 if msgs else 0
    finally:
        R.shutdown_loky()
        shutil.rmtree(root, ignore_errors=True)
