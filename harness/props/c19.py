"""C19 -- running statistics equal the statistics of the whole sample.

Streams
  seq    RunningStatistics fed one at a time and in chunks, in two orders
  cov    RunningCovariance / RunningCovarianceMatrix (2-4 correlated series), rows or columns
  stop   estimate_from_repeats over recorded sample streams
Each case is (a) compared BIT FOR BIT with the binary64 instance of Model/Welford.v evaluated
inside Coq, and (b) checked against the property statement by an oracle that computes the
whole-sample quantities exactly (integer arithmetic on the dyadic inputs), independently of
the model.
"""
import json
import numpy as np
import math
import random
import re
import zlib
from fractions import Fraction as Fr

from harness import core

PROP_FILE = "Props/C19.v"
IMPORTS = "Prelude Welford"
PREAMBLE = "From Coq Require Import Floats.PrimFloat.\nImport F.\n"
TRUSTED = [
    "Coq 8.16.1 kernel (coqc, full .vo build); vm_compute for the three non-vacuity Examples and for "
    "evaluating cases",
    "axioms reported by Print Assumptions for the theorems over the reals (C19_whole, C19_mean, C19_m2, "
    "C19_var_std_err, C19_any_order, C19_cov, C19_cov_matrix): ClassicalDedekindReals.sig_forall_dec, "
    "ClassicalDedekindReals.sig_not_dec, FunctionalExtensionality.functional_extensionality_dep (Coq "
    "standard library Reals); C19_chunks, C19_any_chunking, C19_cov_chunks, C19_rows_columns, C19_stop, "
    "C19_code_tie are closed under the global context",
    "binary64 executions use the kernel primitives PrimFloat (add sub mul div sqrt abs ltb of_uint63 "
    "frshiftexp normfr_mantissa classify next_up next_down) and Uint63; no theorem mentions them and no "
    "FloatAxioms specification is used",
    "translator harness/translator/gen_welford.py + pyz.py (Python ast -> Gallina, fail closed): "
    "RunningStatistics.__init__/update/var/std/err/rel_err/converged, RunningCovariance.__init__/update/"
    "covar/sample_covar, the two loop guards of estimate_from_repeats and the arguments it passes to "
    "converged; update_from_it, the RunningCovarianceMatrix loops and the frame of estimate_from_repeats are "
    "pinned to their exact shape (hand-modelled, tied by correspondence only)",
    "bridge lemmas Bridge/BridgeWelford.v tie Gen to Model/Welford.v for every operations record",
    "reading of the operations record: Python float + - * / abs < are IEEE-754 binary64 round-to-nearest "
    "(as PrimFloat); <int> converted exactly (count < 2^53); x ** 0.5 is libm pow, modelled as correctly "
    "rounded sqrt (compared within 1 ulp for std and 3 ulp for err, differences counted)",
    "NOT PROVED (partial): the rounding-error clause 'to floating-point accuracy relative to the data "
    "scale'; it is tested by the exact-arithmetic oracle of this check with tolerance 8*n*2^-53*scale",
    "correspondence harness: harness/props/c19.py (generators, float <-> (mantissa, exponent) encoding, "
    "exact integer oracle)",
    "not modelled: ZeroDivisionError (covar at count 0, sample_covar at count 1, rel_err at mean 0), "
    "KeyboardInterrupt inside estimate_from_repeats, the progress bar",
]
RULE = ("seq: sequences of 1..500 finite binary64 numbers (kinds gauss/uniform/ints/const/ill = mean 1e9 "
        "spread 1e-3, offsets up to 1e9 in magnitude, spreads 1e-3..1e3), each fed in original order one "
        "value at a time and in a seeded permutation cut into seeded chunks (update vs update_from_it); "
        "cov: 2-4 correlated series fed as rows / columns / mixed chunks, plus RunningCovariance directly "
        "(also unequal lengths); stop: estimate_from_repeats over recorded streams (const, alternating, "
        "ramp, decaying, seeded gauss/uniform, ill-conditioned) x (rtol, tol_scale, min_samples, "
        "max_samples) incl. non-positive limits; distinct = distinct (stream, kind, length, parameters, "
        "hash of the data) signatures; non-trivial = at least two values that are not all equal (seq/cov) "
        "or at least two samples drawn (stop)")

U = Fr(1, 2 ** 53)
C_TOL = 8     # tolerance constant, see tol()


# ------------------------------------------------------------------ encodings
def real(v):
    """The value as a finite float, or None (complex, inf, nan, not a number at all)."""
    if isinstance(v, (complex, bool)) or v is None:
        return None
    try:
        f = float(v)
    except (TypeError, ValueError, OverflowError):
        return None
    return f if math.isfinite(f) else None


def enc(x):
    """Canonical observation of a float, as F.enc in Model/Welford.v."""
    if isinstance(x, complex) or x is None:
        return "nonreal"
    x = float(x)
    if x != x:
        return "nan"
    if x in (math.inf, -math.inf):
        return "inf" if x > 0 else "-inf"
    if x == 0.0:
        return "-0" if math.copysign(1.0, x) < 0 else "0"
    m, e = math.frexp(x)
    return [int(m * 2 ** 53), e]


def lit(x):
    x = float(x)
    if x != x or x in (math.inf, -math.inf):
        raise ValueError("non-finite literal")
    return f"({x.hex()})"


def flist(xs):
    return "[" + "; ".join(lit(x) for x in xs) + "]%float"


def fl(x):
    return f"{lit(x)}%float" if real(x) is not None else "(0)%float"


# ------------------------------------------------------------------ exact whole-sample statistics
def isqrt_fr(q, bits=220):
    """sqrt of a non-negative Fraction, rounded down to 2^-bits."""
    if q <= 0:
        return Fr(0)
    return Fr(math.isqrt((q.numerator << (2 * bits)) // q.denominator), 1 << bits)


def to_ints(series):
    """Common scaling of dyadic floats to integers: x = X / 2^K."""
    K = 0
    for xs in series:
        for x in xs:
            d = Fr(x).denominator
            K = max(K, d.bit_length() - 1)
    return [[int(Fr(x) * (1 << K)) for x in xs] for xs in series], K


def exact_stats(xs):
    """mean, var (population), std, err of the whole sample, exactly (std/err to 2^-220)."""
    n = len(xs)
    (X,), K = to_ints([xs])
    S, SS = sum(X), sum(v * v for v in X)
    mean = Fr(S, n << K)
    var = Fr(n * SS - S * S, (n * n) << (2 * K))
    std = isqrt_fr(var)
    err = isqrt_fr(var / n)
    return mean, var, std, err


def exact_cov(xs, ys):
    n = min(len(xs), len(ys))
    (X, Y), K = to_ints([xs[:n], ys[:n]])
    Sx, Sy, Sxy = sum(X), sum(Y), sum(a * b for a, b in zip(X, Y))
    return Fr(n * Sxy - Sx * Sy, (n * n) << (2 * K))


def tol(n, scale):
    """Absolute tolerance for a quantity of the dimension of the data (mean, std).
    First-order worst-case bounds for the running mean and for Welford's M2 (Chan, Golub &
    LeVeque 1983: relative error of M2 <= n*kappa*u, kappa ~ |mean|/std) both translate to
    n*u*scale/2 .. n*u*scale for mean and std; the constant 8 leaves room for the constants
    of those bounds and for second-order terms (largest ratio seen on the generated data is
    recorded in the evidence as max_error_over_tolerance, about 0.05), while the naive
    sum-of-squares formula is off by about sqrt(n*u)*scale in std, i.e. ~1e4 tolerances on
    the ill-conditioned samples."""
    return C_TOL * n * U * Fr(scale)


def check_stats(tag, xs, count, mean, var, std, err, ratios):
    """The property statement for one accumulator fed with exactly the values xs."""
    bad = []
    n = len(xs)
    if count != n:
        bad.append((tag + "count", f"count {count} != {n} values fed"))
        return bad
    if n == 0:
        return bad
    em, ev, es, ee = exact_stats(xs)
    scale = max(abs(x) for x in xs)
    t = tol(n, scale)
    slack = Fr(1, 2 ** 200)
    sq_n = isqrt_fr(Fr(n))
    checks = [("mean", mean, em, t),
              ("std", std, es, t + slack),
              ("var", var, ev, t * (2 * es + t)),
              ("err", err, ee, t / sq_n + 4 * U * ee + slack)]
    for name, got, want, tt in checks:
        if real(got) is None:
            bad.append((tag + name + "-is-not-a-finite-number", f"{name} = {got!r} for {n} finite values"))
            continue
        got = Fr(real(got))
        d = abs(got - want)
        if tt > 0:
            r = float(d / tt)
            if r > ratios.get(name, 0.0):
                ratios[name] = r
        if d > tt:
            bad.append((tag + name + "-differs-from-whole-sample",
                        f"{name} = {float(got)!r} but the whole sample has {float(want)!r} "
                        f"(difference {float(d):.3e} > tolerance {float(tt):.3e}, n={n}, scale={scale:.3e})"))
    return bad


# ------------------------------------------------------------------ generators
def gen_values(rng, kind, n):
    if kind == "ill":
        off, sp = rng.choice([1e9, -1e9]), 1e-3
        return [off + sp * rng.gauss(0, 1) for _ in range(n)], off, sp
    if kind == "const":
        v = rng.choice([0.0, 1.0, -2.5, 1e9, 0.1, 123456.789])
        return [v] * n, v, 0.0
    if kind == "ints":
        off = rng.choice([0, 0, 7, -1000, 10 ** 6])
        return [float(off + rng.randint(-50, 50)) for _ in range(n)], float(off), 50.0
    sign = rng.choice([1.0, -1.0])
    off = sign * rng.choice([0.0, 0.0, 1.0, 1e3, 1e6, 1e9, 10 ** rng.uniform(0, 9)])
    sp = rng.choice([1e-3, 1.0, 1e3, 10 ** rng.uniform(-3, 3)])
    if kind == "gauss":
        return [off + sp * rng.gauss(0, 1) for _ in range(n)], off, sp
    return [off + sp * rng.uniform(-1, 1) for _ in range(n)], off, sp


def gen_len(rng):
    r = rng.random()
    if r < 0.25:
        return rng.randint(1, 6)
    if r < 0.55:
        return rng.randint(7, 60)
    if r < 0.95:
        return rng.randint(61, 500)
    return 500


def gen_chunks(rng, n):
    """[(size, mode)], modes: one = update per value, it = update_from_it(list), gen = generator."""
    out, left = [], n
    while left > 0:
        k = min(left, rng.choice([1, 1, 2, 3, rng.randint(1, 40), rng.randint(1, max(1, n))]))
        out.append((k, rng.choice(["one", "it", "it", "gen"])))
        left -= k
    if rng.random() < 0.2:
        out.insert(rng.randrange(len(out) + 1), (0, "it"))     # an empty chunk
    return out


def seq_cases(tier, rng, hard):
    n_cases = {"quick": 260, "thorough": 3600}[tier]
    if hard:
        n_cases = max(n_cases, 1400)
    cases = []
    for i in range(n_cases):
        if i < 8:
            kind, n = "ill", [500, 400, 300, 200, 100, 50, 20, 500][i]
        elif i < 12:
            kind, n = "gauss", [1, 2, 3, 500][i - 8]
        else:
            kind = rng.choice(["gauss", "gauss", "gauss", "uniform", "ints", "const", "ill"])
            n = gen_len(rng)
        xs, off, sp = gen_values(rng, kind, n)
        perm = list(range(n))
        rng.shuffle(perm)
        cases.append({"stream": "seq", "kind": kind, "n": n, "offset": off, "spread": sp,
                      "xs": [x.hex() for x in xs], "perm": perm, "chunks": gen_chunks(rng, n)})
    return cases


def cov_cases(tier, rng, hard):
    n_cases = {"quick": 90, "thorough": 1300}[tier]
    if hard:
        n_cases = max(n_cases, 500)
    cases = []
    for i in range(n_cases):
        k = rng.choice([2, 2, 3, 4])
        r = rng.random()
        n = rng.randint(1, 5) if r < 0.2 else rng.randint(6, 80) if r < 0.7 else rng.randint(81, 500)
        if i < 3:
            k, n, kind = [2, 3, 4][i], [500, 300, 200][i], "ill"
        else:
            kind = rng.choice(["gauss", "gauss", "uniform", "ints", "ill"])
        base, off, sp = gen_values(rng, kind, n)
        series = [base]
        for _ in range(k - 1):
            a = rng.choice([1.0, -1.0, 0.5, 2.0, 0.0, rng.uniform(-3, 3)])
            b = rng.choice([0.0, 1.0, -off, rng.uniform(-10, 10)])
            noise = rng.choice([0.0, sp * 0.1, sp, sp * 10])
            series.append([a * x + b + noise * rng.gauss(0, 1) for x in base])
        if rng.random() < 0.25:
            how = "rc"           # RunningCovariance directly on series 0 and 1
            extra = rng.choice([0, 0, 1, 3])      # unequal lengths: zip truncates
            cases.append({"stream": "cov", "how": how, "kind": kind, "k": 2, "n": n, "offset": off, "spread": sp,
                          "xs": [x.hex() for x in series[0]] + [(1.5 + j).hex() for j in range(extra)],
                          "ys": [y.hex() for y in series[1]],
                          "chunks": gen_chunks(rng, n)})
            continue
        # chunks of rows, each through update (rows) or update_from_it (columns)
        chunks, left = [], n
        mode = rng.choice(["rows", "cols", "mixed"])
        while left > 0:
            sz = left if mode != "mixed" else min(left, rng.randint(1, max(1, n // 2)))
            it = {"rows": False, "cols": True, "mixed": rng.random() < 0.5}[mode]
            chunks.append((sz, it))
            left -= sz
        cases.append({"stream": "cov", "how": mode, "kind": kind, "k": k, "n": n, "offset": off, "spread": sp,
                      "series": [[x.hex() for x in s] for s in series], "chunks": chunks})
    return cases


GENS = ["const", "alt", "ramp", "decay", "gauss", "gauss0", "uniform", "ill"]


def gen_stream(rng, g, length):
    if g == "const":
        v = rng.choice([1.0, -3.25, 0.0, 1e9])
        return [v] * length
    if g == "alt":
        a, b = rng.choice([(10.0, 1.0), (1.0, 0.5), (0.0, 1.0), (1e6, 3.0)])
        return [a + (b if i % 2 else -b) for i in range(length)]
    if g == "ramp":
        a, b = rng.choice([(0.0, 1.0), (100.0, 0.01), (-5.0, 0.5)])
        return [a + b * i for i in range(length)]
    if g == "decay":
        a, b = rng.choice([(1.0, 1.0), (5.0, -20.0), (0.0, 1.0)])
        return [a + b / (i + 1) * (-1) ** i for i in range(length)]
    if g == "gauss":
        mu, sg = rng.choice([(1.0, 0.1), (5.0, 1.0), (-2.0, 3.0), (100.0, 0.5), (1.0, 1.0)])
        return [rng.gauss(mu, sg) for _ in range(length)]
    if g == "gauss0":
        sg = rng.choice([1.0, 0.01, 10.0])
        return [rng.gauss(0.0, sg) for _ in range(length)]
    if g == "uniform":
        lo, hi = rng.choice([(0.0, 1.0), (9.0, 11.0), (-1.0, 1.0)])
        return [rng.uniform(lo, hi) for _ in range(length)]
    return [1e9 + 1e-3 * rng.gauss(0, 1) for _ in range(length)]


def stop_cases(tier, rng, hard, directed=()):
    n_cases = {"quick": 220, "thorough": 2600}[tier]
    if hard:
        n_cases = max(n_cases, 1200)
    cases = []
    combos = [(g, mn, mx) for g in ("const", "gauss") for (mn, mx) in directed]
    for i in range(n_cases + len(combos)):
        if i < len(combos):
            g, mn, mx = combos[i]
        else:
            g = rng.choice(GENS)
            mn = rng.choice([-3, 0, 1, 2, 5, 5, 17, 60])
            mx = rng.choice([-2, 0, 1, 2, 3, 4, 8, 40, 40, 300, 300, 300, 1500])
        rtol = rng.choice([0.5, 0.1, 0.02, 0.02, 1e-3, 1e-6, 0.0, 10 ** rng.uniform(-4, 0)])
        ts = rng.choice([0.0, 1e-3, 1.0, 1.0, 50.0])
        length = max(1, mx) + 3
        cases.append({"stream": "stop", "gen": g, "rtol": rtol.hex(), "tol_scale": ts.hex(),
                      "min_samples": mn, "max_samples": mx,
                      "samples": [x.hex() for x in gen_stream(rng, g, length)]})
    return cases


# ------------------------------------------------------------------ running the real code
def H(h):
    return float.fromhex(h)


def feed_rs(rs, xs, chunks, between=None):
    pos = 0
    for size, mode in chunks:
        if between is not None:
            between()
        part = xs[pos:pos + size]
        pos += size
        if mode == "one":
            for x in part:
                rs.update(x)
        elif mode == "it":
            rs.update_from_it(part if (pos % 2) else np.array(part))       # a chunk may be a numpy array
        else:
            rs.update_from_it(x for x in part)
    assert pos == len(xs)


def obs_rs(rs):
    return [rs.count, enc(rs.mean), enc(rs.M2)]


def run_seq(case, ratios):
    from xyzpy.utils import RunningStatistics
    xs = [H(h) for h in case["xs"]]
    r1 = RunningStatistics()
    for x in xs:
        r1.update(x)
    ys = [xs[i] for i in case["perm"]]
    r2 = RunningStatistics()
    # a bystander accumulator, created later and fed in between: objects are independent
    by = RunningStatistics()
    feed_rs(r2, ys, case["chunks"], between=lambda: by.update(7.5))
    bad = []
    nb = len(case["chunks"])
    if by.count != nb or (nb and (by.mean != 7.5 or by.M2 != 0.0)):
        bad.append(("objects-share-state", f"a second RunningStatistics fed {nb} times the value 7.5 reports count "
                    f"{by.count}, mean {by.mean}, M2 {by.M2}"))
    for tag, r, fed in (("", r1, xs), ("permuted-chunked-", r2, ys)):
        bad += check_stats(tag, fed, r.count, r.mean, r.var, r.std, r.err, ratios)
    sizes = [s for s, _ in case["chunks"]]
    strict = [obs_rs(r1), obs_rs(r2), enc(r1.var), enc(r2.var)]
    loose = [r1.std, r1.err, r2.std, r2.err]
    head = (f"(let L := {flist(xs)} in let s1 := update_from_it opsF (init opsF) L in "
            f"let s2 := update_chunks opsF (init opsF) (lists_of (permute L {core.natlist(case['perm'])}) "
            f"{core.natlist(sizes)}) in ")
    m_strict = "enc_stats s1; enc_stats s2; enc (var opsF s1); enc (var opsF s2)"
    expr1 = head + f"VL [{m_strict}; enc (std opsF s1); enc (err opsF s1); enc (std opsF s2); enc (err opsF s2)])"
    expr2 = head + (f"VL [{m_strict}; vbool (within_ulps 1 (std opsF s1) {fl(loose[0])}); "
                    f"vbool (within_ulps 3 (err opsF s1) {fl(loose[1])}); "
                    f"vbool (within_ulps 1 (std opsF s2) {fl(loose[2])}); "
                    f"vbool (within_ulps 3 (err opsF s2) {fl(loose[3])})])")
    return {"bad": bad, "pair": (expr1, strict + [enc(v) for v in loose]),
            "pair2": (expr2, strict + [True] * 4),
            "observed": {"one_by_one": obs_rs(r1), "permuted_chunked": obs_rs(r2),
                         "mean": r1.mean, "var": r1.var, "std": r1.std, "err": r1.err},
            "nontrivial": len(set(xs)) > 1}


def run_cov(case, ratios):
    from xyzpy.utils import RunningCovariance, RunningCovarianceMatrix
    bad = []
    if case["how"] == "rc":
        xs, ys = [H(h) for h in case["xs"]], [H(h) for h in case["ys"]]
        n = min(len(xs), len(ys))
        rc = RunningCovariance()
        by = RunningCovariance()           # a bystander, created later and fed in between
        pos = 0
        for size, mode in case["chunks"]:
            by.update(7.5, -2.5)
            if mode == "one":
                for a, b in zip(xs[pos:pos + size], ys[pos:pos + size]):
                    rc.update(a, b)
            else:
                last = pos + size == n
                rc.update_from_it(xs[pos:] if last else xs[pos:pos + size], ys[pos:pos + size])
            pos += size
        nb = len(case["chunks"])
        if by.count != nb or (nb and (by.xmean != 7.5 or by.ymean != -2.5 or by.C != 0.0)):
            bad.append(("objects-share-state", f"a second RunningCovariance fed {nb} times (7.5, -2.5) reports count "
                        f"{by.count}, means {by.xmean}, {by.ymean}, C {by.C}"))
        seen = [rc.count, enc(rc.xmean), enc(rc.ymean), enc(rc.C), enc(rc.covar)]
        expr = (f"(let s := update_cov_from_it opsF (cov_init opsF) {flist(xs)} {flist(ys)} in "
                f"VL [VZ (Z.of_nat (ccount s)); enc (xmean s); enc (ymean s); enc (CC s); enc (covar opsF s)"
                + ("; enc (sample_covar opsF s)" if n >= 2 else "") + "])")
        if n >= 2:
            seen.append(enc(rc.sample_covar))
        series = [xs[:n], ys[:n]]
        entries = {(0, 1): rc.covar}
        sample_entries = {(0, 1): rc.sample_covar} if n >= 2 else {}
        count = rc.count
        means = {0: rc.xmean, 1: rc.ymean}
        obs = {"count": rc.count, "xmean": rc.xmean, "ymean": rc.ymean, "C": rc.C}
    else:
        k = case["k"]
        series = [[H(h) for h in s] for s in case["series"]]
        n = case["n"]
        rcm = RunningCovarianceMatrix(k)
        by = RunningCovarianceMatrix(k)    # a bystander of the same size, created later and fed in between
        pos, mchunks = 0, []
        for size, it in case["chunks"]:
            by.update(*[7.5 + i for i in range(k)])
            rows = [[s[r] for s in series] for r in range(pos, pos + size)]
            if it:
                chunk = [s[pos:pos + size] for s in series]
                if (pos + size) % 2:
                    chunk = [iter(x) for x in chunk]        # a chunk may be any iterable, also a one-shot iterator
                rcm.update_from_it(*chunk)
            else:
                for row in rows:
                    rcm.update(*row)
            mchunks.append("(" + ("true" if it else "false") + ", [" + "; ".join(
                "[" + "; ".join(lit(v) for v in row) + "]" for row in rows) + "]%float)")
            pos += size
            if len(mchunks) == 1 and len(case["chunks"]) > 1 and size > 0:
                # a matrix read now is the statistics of the samples seen SO FAR, also after later updates / reads
                early = rcm.covar_matrix
                early_vals = [[enc(early[i, j]) for j in range(k)] for i in range(k)]
        nb = len(case["chunks"])
        bym = by.covar_matrix if nb else None
        if by.count != nb or (nb and (any(bym[i, j] != 0.0 for i in range(k) for j in range(k))
                                      or any(by.rcs[i, i].xmean != 7.5 + i for i in range(k)))):
            bad.append(("objects-share-state", f"a second RunningCovarianceMatrix fed {nb} identical rows reports count "
                        f"{by.count} and covariance matrix {None if bym is None else bym.tolist()}"))
        cm = rcm.covar_matrix
        seen = [[[i, j, [rc.count, enc(rc.xmean), enc(rc.ymean), enc(rc.C)]] for (i, j), rc in rcm.rcs.items()],
                [[enc(cm[i, j]) for j in range(k)] for i in range(k)], rcm.count]
        expr = (f"(let st := cm_feed {k}%nat [" + "; ".join(mchunks) + f"] in VL [enc_cm st; "
                f"enc_covar_matrix {k}%nat st; VZ (Z.of_nat (cm_count opsF st))"
                + (f"; enc_sample_covar_matrix {k}%nat st" if n >= 2 else "") + "])")
        entries = {(i, j): float(cm[i, j]) for i in range(k) for j in range(k)}
        sample_entries = {}
        if n >= 2:
            scm = rcm.sample_covar_matrix
            seen.append([[enc(scm[i, j]) for j in range(k)] for i in range(k)])
            sample_entries = {(i, j): float(scm[i, j]) for i in range(k) for j in range(k)}
        # matrices handed out earlier are values: later reads / updates must not change them
        if any(enc(cm[i, j]) != enc(entries[i, j]) for i in range(k) for j in range(k)):
            bad.append(("matrix-changed-after-it-was-read",
                        "covar_matrix read before sample_covar_matrix now holds other values (the two reads share "
                        "one array)"))
        if "early" in dir() and [[enc(early[i, j]) for j in range(k)] for i in range(k)] != early_vals:
            bad.append(("matrix-changed-after-it-was-read",
                        "a covar_matrix read after the first chunk changed when more samples were added"))
        count = rcm.count
        means = {i: rcm.rcs[i, i].xmean for i in range(k)}
        obs = {"count": rcm.count, "covar_matrix": [[float(cm[i, j]) for j in range(k)] for i in range(k)]}
    # ---- oracle: exact whole-sample covariances
    if count != n:
        bad.append(("cov-count", f"count {count} != {n} rows fed"))
    elif n > 0:
        scales = [max(abs(x) for x in s) for s in series]
        stds = [exact_stats(s)[2] for s in series]
        ts = [tol(n, sc) for sc in scales]
        for i, m in means.items():
            d = abs(Fr(m) - exact_stats(series[i])[0])
            if ts[i] > 0:
                ratios["cov-mean"] = max(ratios.get("cov-mean", 0.0), float(d / ts[i]))
            if d > ts[i]:
                bad.append(("cov-mean-differs-from-whole-sample", f"mean of series {i}: {m!r}"))
        for (i, j), got in entries.items():
            want = exact_cov(series[i], series[j])
            tt = ts[i] * stds[j] + ts[j] * stds[i] + ts[i] * ts[j]
            d = abs(Fr(got) - want)
            if tt > 0:
                ratios["covar"] = max(ratios.get("covar", 0.0), float(d / tt))
            if d > tt:
                bad.append(("covariance-differs-from-whole-sample",
                            f"covariance ({i},{j}) = {got!r} but the whole sample has {float(want)!r} "
                            f"(tolerance {float(tt):.3e}, n={n})"))
            if (j, i) in entries and enc(entries[j, i]) != enc(got):
                bad.append(("covariance-matrix-not-symmetric", f"entries ({i},{j}) and ({j},{i}) differ"))
        for (i, j), got in sample_entries.items():
            want = exact_cov(series[i], series[j]) * n / (n - 1)
            tt = (ts[i] * stds[j] + ts[j] * stds[i] + ts[i] * ts[j]) * n / (n - 1) + 4 * U * abs(want)
            if abs(Fr(got) - want) > tt:
                bad.append(("sample-covariance-differs-from-whole-sample",
                            f"sample covariance ({i},{j}) = {got!r} but the whole sample has {float(want)!r}"))
    flat = [x for s in series for x in s]
    return {"bad": bad, "pair": (expr, seen), "observed": obs, "nontrivial": len(set(flat)) > 1}


def run_stop(case, ratios):
    from xyzpy.utils import estimate_from_repeats
    stream = [H(h) for h in case["samples"]]
    rtol, ts = H(case["rtol"]), H(case["tol_scale"])
    mn, mx = case["min_samples"], case["max_samples"]
    calls = [0]

    def fn():
        i = calls[0]
        calls[0] += 1
        if i >= len(stream):
            raise IndexError("estimate_from_repeats asked for more samples than max(1, max_samples) + 3")
        return stream[i]
    bad = []
    try:
        rs, xs = estimate_from_repeats(fn, rtol=rtol, tol_scale=ts, get="samples", verbosity=0,
                                       min_samples=mn, max_samples=mx)
    except IndexError as e:
        bad.append(("exceeds-sample-limit", f"{e} (max_samples={mx})"))
        return {"bad": bad, "pair": None, "observed": {"calls": calls[0]}, "nontrivial": True, "c": calls[0]}
    c = len(xs)
    limit = max(1, mx)
    if calls[0] != c or xs != stream[:c]:
        bad.append(("reported-samples-are-not-the-samples-drawn", f"{calls[0]} calls but {c} samples reported"))
    if c > limit:
        bad.append(("exceeds-sample-limit", f"{c} samples drawn with max_samples={mx}"))
    if c < 1:
        bad.append(("no-sample-drawn", "no sample drawn"))
    # statistics of exactly the samples drawn
    bad += check_stats("reported-", xs, rs.count, rs.mean, rs.var, rs.std, rs.err, ratios)
    near = False
    if 1 <= c < mx and not bad:
        # stopped short of the limit: only allowed once converged (and after min_samples samples)
        em, ev, es, ee = exact_stats(xs)
        scale = max(abs(x) for x in xs)
        t = tol(c, scale)
        thr = Fr(rtol) * abs(em) + Fr(ts) * Fr(rtol)
        slack = t / isqrt_fr(Fr(c)) + Fr(rtol) * t + 8 * U * (ee + thr) + Fr(1, 2 ** 200)
        if ee >= thr + slack:
            bad.append(("stopped-early-without-convergence",
                        f"stopped after {c} < max_samples={mx} samples with err {float(ee):.6e} >= "
                        f"rtol*|mean| + tol_scale*rtol = {float(thr):.6e}"))
        near = abs(ee - thr) <= slack
        if c < mn:
            bad.append(("stopped-early-before-min-samples", f"stopped after {c} samples, min_samples={mn}"))
    fuel = len(stream)
    expr = (f"enc_run (Stopping.run opsF {fl(rtol)} {fl(ts)} ({mn}) ({mx}) (stream {flist(stream[:c + 2])}) "
            f"{fuel}%nat)")
    return {"bad": bad, "pair": (expr, [c, obs_rs(rs)]), "c": c, "near_exact_threshold": near,
            "observed": {"samples_drawn": c, "count": rs.count, "mean": rs.mean, "M2": rs.M2},
            "nontrivial": c >= 2}


RUNNERS = {"seq": run_seq, "cov": run_cov, "stop": run_stop}


def near_threshold(case, c_py, c_model):
    """Is the earlier of the two stopping decisions within 4 ulp of the convergence threshold
    (the only place where libm pow vs correctly rounded sqrt can change the decision)?"""
    from xyzpy.utils import RunningStatistics
    e = min(c_py, c_model)
    xs = [H(h) for h in case["samples"]][:e]
    rtol, ts = H(case["rtol"]), H(case["tol_scale"])
    rs = RunningStatistics()
    rs.update_from_it(xs)
    thr = rtol * abs(rs.mean) + ts * rtol
    err = rs.err
    lo = hi = thr
    for _ in range(4):
        lo, hi = math.nextafter(lo, -math.inf), math.nextafter(hi, math.inf)
    return lo <= err <= hi


# ------------------------------------------------------------------ Gen vs Model inside Coq
def gen_vs_model_diff():
    fl_grid = "[0; 1; -1.5; 0x1.999999999999ap-4; 1000000000; 0x1.0c6f7a0b5ed8dp-20]%float"
    one = "(1)%float"
    e1 = ("flat_map (fun n => flat_map (fun m => flat_map (fun q => flat_map (fun x => "
          "let s := mk_stats n m q in "
          "let '(a, b, c) := gen_rs_update opsF n m q x in "
          "if val_eqb (enc_stats (mk_stats a b c)) (enc_stats (upd opsF s x)) && "
          "val_eqb (VL [enc (gen_rs_var opsF n m q); enc (gen_rs_std opsF n m q); enc (gen_rs_err opsF n m q); "
          f"vbool (gen_rs_converged opsF n m q x {one})]) "
          f"(VL [enc (var opsF s); enc (std opsF s); enc (err opsF s); vbool (converged opsF s x {one})]) "
          f"then [] else [VL [VZ (Z.of_nat n); enc m; enc q; enc x]]) {fl_grid}) {fl_grid}) {fl_grid}) "
          "[0; 1; 2; 7]%nat")
    e2 = ("flat_map (fun n => flat_map (fun a => flat_map (fun x => flat_map (fun y => "
          "let s := mk_cov n a x y in "
          "let '(c1, c2, c3, c4) := gen_rc_update opsF n a x y x a in "
          "if val_eqb (enc_cov (mk_cov c1 c2 c3 c4)) (enc_cov (upd_cov opsF s x a)) && "
          "val_eqb (VL [enc (gen_rc_covar opsF n a x y); enc (gen_rc_sample_covar opsF n a x y)]) "
          "(VL [enc (covar opsF s); enc (sample_covar opsF s)]) "
          f"then [] else [VL [VZ (Z.of_nat n); enc a; enc x; enc y]]) {fl_grid}) {fl_grid}) {fl_grid}) "
          "[0; 1; 2; 7]%nat")
    e3 = ("flat_map (fun i => flat_map (fun mn => flat_map (fun mx => "
          "if Bool.eqb (gen_guard_conv i mn mx) (guard_conv i mn) && Bool.eqb (gen_guard_max i mn mx) (guard_max i mx) "
          "then [] else [(i, mn, mx)]) (zseq (-2) 12)) (zseq (-2) 12)) (zseq 0 10)")
    try:
        out = core.eval_model("Prelude Welford GenWelford", [e1, e2, e3], preamble=PREAMBLE)
    except RuntimeError as e:
        return {"error": str(e)[-400:]}, []
    directed = []
    for m in re.finditer(r"\(\s*(-?\d+),\s*(-?\d+),\s*(-?\d+)\)", out[2]):
        i, mn, mx = int(m.group(1)), int(m.group(2)), int(m.group(3))
        if (mn, mx) not in directed and (mx > i + 1 or mx <= 1):
            directed.append((mn, mx))
    if len(directed) > 12:
        directed = [directed[(j * (len(directed) - 1)) // 11] for j in range(12)]
    return {"rs_inputs_where_gen_differs": out[0][:1500], "rc_inputs_where_gen_differs": out[1][:1500],
            "guard_inputs_where_gen_differs": out[2][:1500]}, directed


# ------------------------------------------------------------------ the check
def short(case):
    d = {k: v for k, v in case.items() if k not in ("xs", "ys", "perm", "series", "samples", "chunks")}
    for k in ("xs", "ys", "samples"):
        if k in case:
            d[k + "_head"] = [H(h) for h in case[k][:4]]
    if "series" in case:
        d["series_head"] = [[H(h) for h in s[:3]] for s in case["series"]]
    if "chunks" in case:
        d["n_chunks"] = len(case["chunks"])
    return d


def signature(case):
    blob = json.dumps(case, sort_keys=True)
    return (case["stream"], case.get("kind") or case.get("gen"), case.get("n") or len(case.get("samples", [])),
            case.get("min_samples"), case.get("max_samples"), zlib.crc32(blob.encode()))


def run_case(case, ratios):
    try:
        return RUNNERS[case["stream"]](case, ratios)
    except Exception as e:  # the real code is not expected to raise on finite inputs
        return {"bad": [("implementation-raises", f"{type(e).__name__}: {e}")], "pair": None,
                "observed": {"exception": f"{type(e).__name__}: {e}"}, "nontrivial": True, "c": 0}


def trimmed(case, res):
    """A stop case with its stream cut to what the implementation consumed (+3): replays identically."""
    if case["stream"] != "stop":
        return case
    return dict(case, samples=case["samples"][:res.get("c", 0) + 3], stream_trimmed=True)


def run_stream(c, cases, ratios, stats):
    results = [run_case(case, ratios) for case in cases]
    for case, r in zip(cases, results):
        sample = dict(short(case), observed=r["observed"])
        c.case(signature(case), nontrivial=r["nontrivial"], sample=sample)
        c.count("stream", case["stream"])
        c.count("kind", case.get("kind") or case.get("gen"))
        if case["stream"] == "stop":
            c.count("stop_outcome", "limit" if r["c"] >= max(1, case["max_samples"]) else "converged")
            c.count("max_samples", case["max_samples"])
            c.count("min_samples", case["min_samples"])
            if r.get("near_exact_threshold"):
                stats["stop_early_within_oracle_slack_of_threshold"] += 1
        else:
            n = case["n"]
            c.count("length", "1" if n == 1 else "2-10" if n <= 10 else "11-100" if n <= 100 else "101-500")
        if case["stream"] == "cov":
            c.count("cov_feed", case["how"])
            c.count("series", case["k"])
        for key, msg in r["bad"]:
            c.violation(key, msg, {"case": case, "observed": r["observed"]})
    idx = [i for i, r in enumerate(results) if r["pair"] is not None]
    if not idx:
        return
    pairs = [results[i]["pair"] for i in idx]
    biggest = max(len(p[0]) + 40 * len(json.dumps(p[1])) // 10 for p in pairs)
    chunk = max(1, min(400, 700_000 // max(1, biggest)))
    bad, info = core.run_cases(IMPORTS, pairs, chunk=chunk, preamble=PREAMBLE)
    stats["coq_case_files"] += info.get("files", 0)
    stats["compared_bit_for_bit"] += len(pairs)
    bad = [idx[b] for b in bad]
    if not bad:
        return
    stream = cases[0]["stream"]
    real = []
    if stream == "seq":
        # second pass: count/mean/M2/var still bit for bit, std within 1 ulp, err within 3 ulp
        bad2, _ = core.run_cases(IMPORTS, [results[i]["pair2"] for i in bad], chunk=chunk, preamble=PREAMBLE)
        bad2 = {bad[j] for j in bad2}
        for i in bad:
            if i in bad2:
                real.append((i, None))
            else:
                stats["std_or_err_differs_by_ulps_pow_vs_sqrt"] += 1
    elif stream == "stop":
        outs = core.eval_model(IMPORTS, [results[i]["pair"][0] for i in bad], preamble=PREAMBLE)
        for i, o in zip(bad, outs):
            m = re.match(r"VL \[VZ (\d+);", o)
            c_model = int(m.group(1)) if m else None
            if c_model is not None and c_model != results[i]["c"] and near_threshold(cases[i], results[i]["c"], c_model):
                stats["stop_decisions_within_4ulp_of_threshold_excluded"] += 1
            else:
                real.append((i, o[:300]))
    else:
        real = [(i, None) for i in bad]
    stats["model_disagreements"] += len(real)
    for n_rep, (i, model_out) in enumerate(real):
        if results[i]["bad"]:
            continue          # the oracle already reports this input as a violation
        if n_rep >= 3:
            break
        c.obligation_broken(f"correspondence Model/Welford.v (binary64) vs xyzpy/utils.py, stream {stream}",
                            {"case": trimmed(cases[i], results[i]), "observed": results[i]["observed"],
                             "model_expression": results[i]["pair"][0][:600], "model_result": model_out,
                             "disagreements_in_stream": len(real)})


def run(tier, seed):
    c = core.Check("C19", tier, seed)
    gen = core.regen()
    b = core.build(PROP_FILE)
    g = gen.get("GenWelford", {"ok": False, "detail": "unit not registered"})
    c.cov["translator"] = g
    c.cov["build"] = {"ok": b["ok"], "failed_file": b["failed_file"], "wall_s": round(b.get("wall_s", 0), 1)}
    directed = []
    if not g["ok"]:
        c.obligation_broken("translator GenWelford", g["detail"])
    if not b["ok"]:
        c.obligation_broken(f"Coq build of {b['failed_file']}", b["log_tail"][-1200:])
        if g["ok"]:
            c.cov["gen_vs_model_diff"], directed = gen_vs_model_diff()
    if b["ok"] and tier == "thorough":
        # independent re-check of the compiled closure of Props/C19.vo
        import fcntl
        with open(core.LOCK, "w") as lk:
            fcntl.flock(lk, fcntl.LOCK_EX)
            rc, out = core.sh("timeout 800 coqchk -silent -o -R . XV XV.Props.C19", timeout=830, cwd=core.COQ)
        tail = [ln.strip() for ln in out.splitlines() if "relying on" in ln or "assumed" in ln]
        c.cov["coqchk"] = {"cmd": "coqchk -silent -o -R . XV XV.Props.C19", "ok": rc == 0, "summary": tail}
        if rc != 0:
            c.obligation_broken("coqchk of Props/C19.vo", out[-800:])
    hard = bool(c.broken)          # an obligation is broken: search a larger domain
    ratios, stats = {}, {k: 0 for k in (
        "coq_case_files", "compared_bit_for_bit", "model_disagreements", "std_or_err_differs_by_ulps_pow_vs_sqrt",
        "stop_decisions_within_4ulp_of_threshold_excluded", "stop_early_within_oracle_slack_of_threshold")}
    model_ok = True
    try:
        for cases in (seq_cases(tier, c.rng, hard), cov_cases(tier, c.rng, hard),
                      stop_cases(tier, c.rng, hard, directed)):
            run_stream(c, cases, ratios, stats)
    except RuntimeError as e:
        model_ok = False
        c.obligation_broken("evaluation of Model/Welford.v inside Coq failed", str(e)[-800:])
    c.cov["disagreements_checked"] = stats["model_disagreements"]
    c.cov["correspondence"] = stats
    c.cov["max_error_over_tolerance"] = {k: round(v, 4) for k, v in sorted(ratios.items())}
    c.cov["tolerance"] = f"{C_TOL} * n * 2^-53 * max|x| for mean and std (var, err, covariance derived from it)"
    c.cov["exhaustive"] = False
    c.cov["model_evaluated"] = model_ok
    c.assumptions = [
        "binary64 round-to-nearest arithmetic of CPython floats equals Coq PrimFloat (checked bit for bit on every case)",
        "x ** 0.5 (libm pow) is within 1 ulp of the correctly rounded square root",
        "counts stay below 2^53; inputs are finite floats",
        "the rounding-error bound itself is tested, not proved (tolerance 8*n*2^-53*scale)",
    ]
    c.notes.append("stopping decisions where model and implementation differ are excluded only when the earlier "
                   "decision lies within 4 ulp of the threshold; their number is in coverage.correspondence")
    return c.finish(b, PROP_FILE, TRUSTED, RULE)


def replay(path):
    r = json.load(open(path))
    if "replay" not in r or "case" not in r.get("replay", {}):
        print(json.dumps(r, indent=1, default=str)[:4000])
        if r.get("broken_obligations"):
            for ob in r["broken_obligations"]:
                d = ob.get("detail")
                if isinstance(d, dict) and "case" in d:
                    res = run_case(d["case"], {})
                    print("re-run of the recorded case: observed", res["observed"], "oracle:", res["bad"])
        return 1
    case = r["replay"]["case"]
    res = run_case(case, {})
    print("case:", json.dumps(short(case), default=str))
    print("observed:", res["observed"])
    for k, m in res["bad"]:
        print("FAILS:", k, m)
    return 1 if res["bad"] else 0
