"""C11 -- concurrent growers and a waiting reaper always agree, under every interleaving.

The REAL code (xyzpy.gen.cropping.grow, Crop.reap_combos(wait=True), the progress queries) runs
under the deterministic scheduler of harness/fsx/sched.py; every schedule that is explored is
also fed to the Coq model (Model/Sched.v with the publication regenerated from cropping.py) and
the event traces / outcomes are compared; the property statement itself is checked on the real
run by an independent oracle (ghost state: which batches have been published)."""
import builtins
import json
import os
import pickle
import shutil
import time

from harness import core
from harness.core import natlist
from harness.fsx import sched as S
from harness.props.c11fn import c11_fn

PROP_FILE = "Props/C11.v"
TRUSTED = [
    "Coq 8.16.1 kernel (coqc, full .vo build); vm_compute for the refutation witnesses of the OLD in-place "
    "publication, the non-vacuity Examples and the evaluation of the model on each explored schedule",
    "hand model Model/Sched.v: atomic steps create / first chunk / last chunk / close / rename / exists / isfile / "
    "open / read / list over an association-list file system; writes are modelled by PATH (exact because each "
    "temporary name has a single writer); tied to the code by (i) the translator and (ii) trace-level "
    "differential execution of every explored schedule",
    "P1 (built into the model's Read step): a torn or empty pickle never unpickles",
    "P2 (built into Rename / Open): rename within a directory is atomic and replaces the target; an opened file "
    "keeps reading its own inode (the reaper's Open takes a snapshot, its Read uses it)",
    "translator gen_publish.py (statement-shape classification of write_to_disk, read_from_disk, grow, "
    "Reaper.__init__ / wait_to_load / _load, calc_progress, num_results, num_sown_batches, missing_results, "
    "is_ready_to_reap; fail closed) and Bridge/BridgePublish.v (gen = model, reflexivity)",
    "uniqueness of the temporary name rests on os.getpid() + uuid.uuid4() really being unique per call (the "
    "translator checks that both are interpolated; in the harness all growers are threads of one process, so only "
    "the uuid distinguishes them)",
    "scheduler harness/fsx/sched.py: interposes open / os.replace / os.remove / os.path.exists / os.path.isfile / "
    "glob.glob / time.sleep / pickle.dump AS SEEN BY xyzpy.gen.cropping; splits every write into two flushed "
    "chunks; pickle.dump onto an interposed file becomes one write of pickle.dumps; growers are threads, not "
    "processes; operations outside the crop's results directory are not scheduling points (they touch files that "
    "are private or read-only while growing)",
    "kernel / file-system behaviour below the Python level; durability after power loss is out of scope (C10)",
]
RULE = ("schedules = sequences of actor numbers over the visible file operations of 1-3 growers (distinct batches and "
        "the same batch twice / three times), one reap_combos(wait=True) and one poller (num_results, "
        "missing_results, is_ready_to_reap) on crops of 1-3 batches of 1-2 cases; per configuration: a "
        "context-bounded corpus (actor x runs k operations, actor y runs j, then the rest), a depth-first enumeration "
        "with sleep-set partial-order reduction (operations on different names commute; a listing depends on "
        "changes of names matching its pattern) -- bounded in quick, to exhaustion in thorough -- and seeded random / "
        "priority-based schedules on larger configurations (4-6 growers, 3-4 batches, two poller rounds); "
        "distinct = distinct (configuration, schedule); non-trivial = at least two actors interleave")

ROUND = ["QNum", "QMissing", "QReady"]
SMALL = [  # growers' batch ids, number of batches, batch size, progress queries
    {"name": "g1-b1", "batches": [1], "B": 1, "bs": 2, "queries": ROUND},
    {"name": "g11-b1", "batches": [1, 1], "B": 1, "bs": 2, "queries": ROUND},
    {"name": "g12-b2", "batches": [1, 2], "B": 2, "bs": 1, "queries": ROUND},
    {"name": "g112-b2", "batches": [1, 1, 2], "B": 2, "bs": 2, "queries": ["QNum", "QReady"]},
    {"name": "g122-b2", "batches": [1, 2, 2], "B": 2, "bs": 1, "queries": ["QMissing"]},
    {"name": "g111-b1", "batches": [1, 1, 1], "B": 1, "bs": 1, "queries": ["QNum"]},
    {"name": "g123-b3", "batches": [1, 2, 3], "B": 3, "bs": 1, "queries": ROUND},
]
LARGE = [
    {"name": "g1231-b3", "batches": [1, 2, 3, 1], "B": 3, "bs": 2, "queries": ROUND * 2},
    {"name": "g12342-b4", "batches": [1, 2, 3, 4, 2], "B": 4, "bs": 1, "queries": ROUND * 2},
    {"name": "g212133-b3", "batches": [2, 1, 2, 1, 3, 3], "B": 3, "bs": 1, "queries": ROUND * 2},
]


class World:
    """One sown crop (B batches of bs cases) and the direct run's results."""

    def __init__(self, tmp, B, bs):
        import xyzpy
        from xyzpy.gen.cropping import Crop
        self.B, self.bs = B, bs
        self.name = f"c11b{B}s{bs}"
        self.parent = tmp
        combos = {"a": list(range(B * bs))}
        crop = Crop(fn=c11_fn, name=self.name, parent_dir=tmp, batchsize=bs)
        crop.sow_combos(combos, verbosity=0)
        assert crop.num_batches == B
        self.crop = crop
        self.crop_reaper = Crop(name=self.name, parent_dir=tmp)
        self.crop_poller = Crop(name=self.name, parent_dir=tmp)
        self.rdir = os.path.join(crop.location, "results")
        self.direct = tuple(xyzpy.combo_runner(c11_fn, combos, verbosity=0))
        self.per_batch = {i: tuple(self.direct[(i - 1) * bs:i * bs]) for i in range(1, B + 1)}

    def clear(self):
        for f in os.listdir(self.rdir):
            os.remove(os.path.join(self.rdir, f))

    def load_state(self, path):
        """'whole' if the file holds exactly the direct results of its batch, else why not"""
        role, i = S.role_of(path)
        try:
            with builtins.open(path, "rb") as f:
                data = f.read()
            obj = pickle.loads(data)
        except Exception as e:  # noqa
            return f"unreadable ({type(e).__name__})"
        if role != "res":
            return "not a result name"
        return "whole" if tuple(obj) == self.per_batch.get(i) else f"wrong content {obj!r}"


class Run:
    """One controlled execution of a configuration and everything observed in it."""

    def __init__(self, world, cfg, ip, chooser, max_steps=400):
        from xyzpy.gen.cropping import grow
        self.world, self.cfg = world, cfg
        self.problems = []              # (key, message)
        self.published = set()
        self.answers = []
        G = len(cfg["batches"])
        self.G = G
        w = world

        def grower(i):
            return lambda: grow(i, crop=w.crop, verbosity=0)

        def reaper():
            return w.crop_reaper.reap_combos(wait=True, clean_up=False)

        def poller():
            c = w.crop_poller
            for q in cfg["queries"]:
                if q == "QNum":
                    self.answers.append(int(c.num_results))
                elif q == "QMissing":
                    self.answers.append([int(x) for x in c.missing_results()])
                else:
                    self.answers.append(1 if c.is_ready_to_reap() else 0)

        actors = [(f"grow{k}-b{b}", grower(b)) for k, b in enumerate(cfg["batches"])]
        actors += [("reaper", reaper), ("poller", poller)]
        w.clear()
        self.s = S.Scheduler(ip, w.rdir, actors, on_event=self.on_event, step_timeout=30.0)
        self.s.run(chooser, max_steps=max_steps)
        self.finish()

    # ---- ghost state and the instant-by-instant part of the statement
    def on_event(self, ev, s):
        w = self.world
        if ev.kind == "rename" and ev.result == 0:
            role, i = S.role_of(ev.paths[1])
            if role == "res":
                self.published.add(i)
        elif ev.kind == "close":
            role, i = S.role_of(ev.paths[0])
            if role == "res":
                self.published.add(i)           # written in place: complete once closed
        elif ev.kind == "list" and ev.actor == self.G + 1:
            for p in ev.raw:
                role, i = S.role_of(p)
                st = w.load_state(p)
                if role != "res":
                    self.problems.append(("poller-counts-temporary-file",
                                          f"progress listing counts {os.path.basename(p)} which is not a result"))
                elif st != "whole":
                    self.problems.append(("poller-counts-partly-written-result",
                                          f"progress counts batch {i} as finished while its file is {st}"))
                elif i not in self.published:
                    self.problems.append(("poller-counts-unpublished-result",
                                          f"progress counts batch {i} although no grower has published it"))
            if len(ev.raw) > len(self.published):
                self.problems.append(("poller-count-exceeds-finished-growers",
                                      f"progress count {len(ev.raw)} > {len(self.published)} batches published"))
        elif ev.kind == "isfile" and ev.actor == self.G + 1 and ev.result:
            role, i = S.role_of(ev.paths[0])
            st = w.load_state(ev.paths[0])
            if st != "whole" or i not in self.published:
                self.problems.append(("poller-reports-partly-written-result-as-present",
                                      f"missing_results treats batch {i} as finished while its file is {st}"))

    # ---- the end-to-end part of the statement
    def finish(self):
        s, w, G = self.s, self.world, self.G
        self.schedule = list(s.schedule)
        self.complete = s.status == "complete"
        for e in s.hook_errors:
            self.problems.append(("oracle-error", e))
        for a in s.actors:
            if a.outcome == "exception":
                who = "grower" if a.idx < G else ("reaper" if a.idx == G else "poller")
                self.problems.append((f"{who}-raised", f"{a.name} raised {type(a.exc).__name__}: {str(a.exc)[:200]}"))
            elif a.outcome == "hang":
                self.problems.append(("actor-hang", f"{a.name} did not reach its next file operation in time"))
        rp = s.actors[G]
        if rp.outcome == "done" and tuple(rp.result) != w.direct:
            self.problems.append(("reaper-value-differs",
                                  f"reap(wait=True) returned {rp.result!r}, the direct run gives {w.direct!r}"))
        if s.status == "deadlock" and s.deadlocked == [G] and all(s.finished_before_abort[:G]):
            self.problems.append(("reaper-never-terminates", "all growers finished but the reaper still waits"))

    # ---- canonical observation, in the vocabulary of Model/Sched.v `sched_obs`
    def observed(self):
        s, w, G = self.s, self.world, self.G
        evs = [e.canon() for e in s.trace]
        gro = [1 if a.outcome == "done" else (2 if a.outcome == "exception" else 0) for a in s.actors[:G]]
        rp = s.actors[G]
        if rp.outcome == "done":
            flat = list(rp.result)
            read, pos = [], 0
            while pos < len(flat):
                chunk = tuple(flat[pos:pos + w.bs])
                read.append(next((i for i, v in w.per_batch.items() if v == chunk), 0))
                pos += w.bs
            reap = [1, read]
        elif rp.outcome == "exception":
            reap = [2, []]
        else:
            reap = [0, [S.role_of(e.paths[0])[1] for e in s.trace if e.actor == G and e.kind == "read" and e.result]]
        return [evs, gro, reap, list(self.answers)]

    def model_expr(self):
        c = self.cfg
        return (f"sched_obs gen_publish gen_query_ops {natlist(c['batches'])} {c['B']}%nat "
                f"[{'; '.join(c['queries'])}] {natlist(self.schedule)}")

    def describe(self):
        return {"config": {k: self.cfg[k] for k in ("name", "batches", "B", "bs", "queries")},
                "schedule": self.schedule,
                "actors": [a.name for a in self.s.actors],
                "trace": [e.describe() for e in self.s.trace],
                "outcomes": {a.name: (a.outcome if a.exc is None else f"{type(a.exc).__name__}: {str(a.exc)[:120]}")
                             for a in self.s.actors},
                "status": self.s.status}


def corpus(cfg):
    """Context-bounded directed schedules (prefixes; the default order completes them)."""
    bs = cfg["batches"]
    G = len(bs)
    R, P = G, G + 1
    out = []
    for g in range(min(G, 2)):
        for k in range(1, 7):
            out.append([g] * k + [R] * 4 + [P] * 12)           # grower preempted after k operations
            out.append([g] * k + [P] * 12 + [R] * 4)
    for x in range(G):
        for y in range(G):
            if x != y and bs[x] == bs[y]:
                for k in range(1, 6):
                    for j in range(1, 6):                       # two growers of one batch interleave
                        out.append([x] * k + [y] * j + [x] * 6 + [R] * 4 + [P] * 12)
    if G >= 2:
        out.append([i % G for i in range(6 * G)])             # round robin over the growers
    return out


class Explorer:
    def __init__(self, c, ip, tmp):
        self.c, self.ip, self.tmp = c, ip, tmp
        self.worlds = {}
        self.pairs, self.metas = [], []
        self.seen = set()
        self.stats = {"runs": 0, "complete": 0, "sleep_set_blocked": 0, "events": 0, "dfs_nodes": 0,
                      "per_config": {}}

    def world(self, cfg):
        k = (cfg["B"], cfg["bs"])
        if k not in self.worlds:
            self.worlds[k] = World(self.tmp, cfg["B"], cfg["bs"])
        return self.worlds[k]

    def run(self, cfg, chooser, how):
        r = Run(self.world(cfg), cfg, self.ip, chooser)
        c = self.c
        st = self.stats
        st["runs"] += 1
        st["complete"] += 1 if r.complete else 0
        st["events"] += len(r.s.trace)
        pc = st["per_config"].setdefault(cfg["name"], {"runs": 0})
        pc["runs"] += 1
        pc[how] = pc.get(how, 0) + 1
        sig = (cfg["name"], tuple(r.schedule))
        actors_moving = len(set(r.schedule))
        switches = sum(1 for a, b in zip(r.schedule, r.schedule[1:]) if a != b)
        c.case(json.dumps(sig), nontrivial=actors_moving >= 2 and switches >= 2,
               sample={"config": cfg["name"], "how": how, "schedule": r.schedule,
                       "reaper": r.observed()[2], "answers": r.answers} if len(r.schedule) <= 30 else None)
        c.count("how", how)
        c.count("config", cfg["name"])
        c.count("schedule_length", len(r.schedule) // 10 * 10)
        c.count("context_switches", min(switches, 20) // 4 * 4)
        c.count("run_status", r.s.status)
        for key, msg in r.problems:
            c.violation(key, msg, r.describe())
        if sig not in self.seen:
            self.seen.add(sig)
            self.pairs.append((r.model_expr(), r.observed()))
            self.metas.append((r, how))
        return r

    def do_corpus(self, cfg):
        for pre in corpus(cfg):
            self.run(cfg, S.prefix_chooser(pre), "corpus")

    def do_dfs(self, cfg, max_runs, deadline):
        d = S.DFS(lambda ch: self.run(cfg, ch, "dfs").s)
        n = 0
        while n < max_runs and time.time() < deadline:
            got = d.next_run()
            if got is None:
                break
            n += 1
            if d.nondeterminism:
                break
        self.stats["dfs_nodes"] += d.nodes
        pc = self.stats["per_config"].setdefault(cfg["name"], {"runs": 0})
        pc.update({"dfs_complete_schedules": d.leaves, "dfs_sleep_set_blocked": d.pruned,
                   "dfs_exhausted": bool(d.exhausted), "dfs_nondeterminism": d.nondeterminism})
        self.stats["sleep_set_blocked"] += d.pruned
        if d.nondeterminism:
            self.c.obligation_broken("scheduler: a replayed prefix did not reproduce the same pending operations",
                                     {"config": cfg["name"]})
        return d

    def do_random(self, cfg, n, rng):
        A = len(cfg["batches"]) + 2
        for i in range(n):
            if i % 2 == 0:
                ch = S.random_chooser(rng)
            else:
                ch = S.random_chooser(rng, pct_depth=rng.randint(1, 4), n_actors=A, horizon=8 * A)
            self.run(cfg, ch, "random")


def explore(c, tier, harder):
    tmp = core.scratch_dir("xv-c11-")
    ip = S.Interposer()
    t0 = time.time()
    try:
        with ip:
            ex = Explorer(c, ip, tmp)
            if tier == "quick":
                # the three smallest configurations exhaustively, the others bounded
                budget = 60 if not harder else 90
                per_dfs = {"g1-b1": 10 ** 9, "g11-b1": 800, "g12-b2": 500}
                other_dfs = 50 if not harder else 150
                nrand = 20 if not harder else 80
            else:
                budget = 480
                per_dfs = {}
                other_dfs = 10 ** 9
                nrand = 1000
            deadline = t0 + budget
            for cfg in SMALL:
                ex.do_corpus(cfg)
            for cfg in SMALL:
                ex.do_dfs(cfg, per_dfs.get(cfg["name"], other_dfs), deadline)
            for cfg in SMALL[1:] + LARGE:
                ex.do_random(cfg, nrand if cfg in LARGE else max(4, nrand // 5), c.rng)
            ex.stats["explore_wall_s"] = round(time.time() - t0, 1)
            return ex
    finally:
        ip.uninstall()
        shutil.rmtree(tmp, ignore_errors=True)


def run(tier, seed):
    c = core.Check("C11", tier, seed)
    gen_st = core.regen()
    b = core.build(PROP_FILE)
    c.cov["translator"] = {k: v for k, v in gen_st.items() if k == "GenPublish"}
    c.cov["build"] = {"ok": b["ok"], "failed_file": b["failed_file"], "wall_s": round(b.get("wall_s", 0), 1)}
    if "GenPublish" in gen_st and not gen_st["GenPublish"]["ok"]:
        c.obligation_broken("translator GenPublish", gen_st["GenPublish"]["detail"])
    if not b["ok"]:
        c.obligation_broken(f"Coq build of {b['failed_file']}", b["log_tail"][-1200:])
    ex = explore(c, tier, harder=bool(c.broken))
    bad, _ = core.safe_run_cases(c, "Prelude Sched GenPublish", ex.pairs, chunk=80,
                                 what="correspondence Model/Sched.v vs the scheduled real run")
    for i in bad[:50]:
        r, how = ex.metas[i]
        c.obligation_broken("correspondence Model/Sched.v (regenerated publication) vs cropping.py under the scheduler",
                            {"run": r.describe(), "observed": r.observed(), "model_expr": r.model_expr()[:2000]})
    c.cov["disagreements_checked"] = len(bad)
    c.cov["exploration"] = ex.stats
    c.cov["schedules_explored"] = ex.stats["runs"]
    c.cov["distinct_schedules_compared_with_model"] = len(ex.pairs)
    small = {x["name"] for x in SMALL}
    exhausted = sorted(k for k, v in ex.stats["per_config"].items() if k in small and v.get("dfs_exhausted"))
    c.cov["exhaustive_configurations"] = exhausted
    c.cov["exhaustive"] = len(exhausted) == len(SMALL)
    c.cov["states"] = ex.stats["dfs_nodes"]
    c.cov["transitions"] = ex.stats["events"]
    c.cov["traces_validated_against_impl"] = len(ex.pairs) - len(bad)
    c.cov["explanation"] = (
        "states = schedule prefixes at which the depth-first enumeration recorded a choice; transitions = file "
        "operations executed by the real code under the scheduler (re-executions included); exhaustive = the "
        "enumeration (up to commuting independent operations) finished for EVERY small configuration "
        f"({', '.join(x['name'] for x in SMALL)}); the theorems themselves are unbounded (induction over the "
        "schedule), the enumeration ties them to the code")
    c.assumptions = [
        "P1: a torn pickle never unpickles; P2: rename within a directory is atomic and an opened file keeps reading "
        "its own inode",
        "the sown function is deterministic, so the content of a result file depends only on its batch number",
        "nobody deletes result files while growers and the reaper run (clean_up=False; deletion is C12)",
        "each grower's temporary name is unique (os.getpid() and uuid.uuid4().hex are interpolated)",
        "file operations are atomic at the granularity create / write chunk / close / rename / exists / isfile / "
        "open / read / list (one thread runs at a time under the scheduler)",
    ]
    c.notes.append("a schedule is a list of actor numbers (growers 0..G-1, reaper G, poller G+1), one entry per "
                   "visible file operation; replay files contain the schedule and the trace")
    return c.finish(b, PROP_FILE, TRUSTED, RULE)


def replay(path):
    """Re-run the recorded schedule on the real code and report what happens."""
    r = json.load(open(path))
    print("replaying", path)
    print(json.dumps({k: r.get(k) for k in ("property", "key", "what")}, indent=1)[:1500])
    rep = r.get("replay")
    if not isinstance(rep, dict) or "schedule" not in rep:
        print(json.dumps(r, indent=1, default=str)[:3000])
        return run(r.get("tier", "quick"), int(r.get("seed", 0)))
    cfg = rep["config"]
    tmp = core.scratch_dir("xv-c11-")
    ip = S.Interposer()
    try:
        with ip:
            w = World(tmp, cfg["B"], cfg["bs"])
            x = Run(w, cfg, ip, S.exact_chooser(rep["schedule"]))
    finally:
        ip.uninstall()
        shutil.rmtree(tmp, ignore_errors=True)
    for line in x.describe()["trace"]:
        print("  ", line)
    print("outcomes:", json.dumps(x.describe()["outcomes"]))
    for key, msg in x.problems:
        print(f"VIOLATION reproduced: {key}: {msg}")
    return 1 if x.problems else 0
