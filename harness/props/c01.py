"""C01 -- a grid sweep evaluates every combination exactly once, in its own slot."""
import json
import os
import shutil

from harness import core
from harness.impl import runner as R
from harness.props import sweepcheck as S

PROP_FILE = "Props/C01.v"
TRUSTED = [
    "translator gen_runner.py also pins the prologue of combo_runner_core and check_for_duplicates / parse_combos "
    "(membership by equality, every argument) to their transcriptions (C01_duplicates_rejected)",
    "Coq 8.16.1 kernel (coqc, full .vo build); vm_compute for the non-vacuity Examples and case evaluation",
    "hand model Model/Runner.v, Grid.v, Perm.v = transcription of combo_runner_core/_unflatten (modelled, tied by "
    "differential execution, not by translation); GenRunner bridge ties the shuffle / un-shuffle / info wiring",
    "assumption E1: an executor's future returns its own job's value; results are collected in submission order",
    "assumption R1: random.shuffle yields a permutation (the actual permutation is read from CPython per case)",
    "Python dict keyed by value tuples modelled as association list (first match); sorted() as insertion sort",
]
RULE = ("random grids: 1-5 swept arguments, 1-4 values each (int/float/str mapped to ranks), dict/tuple spelling, "
        "constants, result kinds scalar/bool/str/tuple/array/nested/dict, split/flat, strategies sequential, "
        "shuffle=True/int, adversarial completion order, apply_async-only, thread pool, process pools, loky; "
        "distinct = distinct (grid, api, strategy, split, flat); non-trivial = more than one setting")


def gen(tier, rng, force_cases=False):
    n = 260 if tier == "quick" else 2500
    nexp = 10 if tier == "quick" else 60
    sweeps = []
    for i in range(n):
        sw = R.Sweep(rng, with_cases=force_cases if force_cases else False)
        split = sw.kind in (3, 4, 6, 7) and rng.random() < 0.4
        flat = rng.random() < 0.25
        strat = rng.choice(R.CHEAP)
        sweeps.append((sw, "combo_runner", strat, split, flat, "dict"))
    for i in range(nexp):
        sw = R.Sweep(rng, with_cases=force_cases if force_cases else False, max_args=3, max_vals=3)
        split = sw.kind in (3, 4, 6, 7) and rng.random() < 0.4
        sweeps.append((sw, "combo_runner", R.STRATEGIES[7 + i % 5], split, rng.random() < 0.25, "dict"))
    return sweeps


def exhaustive_small(rng):
    """All orderings of <= 3 arguments x all shapes <= 3x3x3 (thorough tier)."""
    import itertools
    out = []
    for k in (1, 2, 3):
        for names in itertools.permutations(["a", "b", "z"], k):
            for shape in itertools.product((1, 2, 3), repeat=k):
                sw = R.Sweep(rng, with_cases=False, kind=0, allow_consts=False)
                sw.case_args, sw.cases = [], []
                sw.combo_args = list(names)
                sw.pools = {a: list(range(10 * i, 10 * i + s)) for i, (a, s) in enumerate(zip(names, shape))}
                sw.types = {a: "int" for a in names}
                sw.combos = [(a, sw.pools[a]) for a in names]
                sw.rank = {a: {v: i for i, v in enumerate(sorted(sw.pools[a]))} for a in names}
                out.append((sw, "combo_runner", rng.choice(["seq", "shuffle_int", "adversarial"]), False, False, "dict"))
    return out


DUP_PAIRS = [(1, 1), (2.5, 2.5), ("x", "x"), (1, 1.0), (0, False), (1, True), (2, 2.0), (0.0, False), (True, 1.0)]


def duplicates_stream(c, tmp, n):
    """Grids in which one argument has two EQUAL values (spelled identically or equal across numeric types):
    must be refused before anything runs, through every entry point."""
    import xyzpy
    from xyzpy.utils import XYZError
    pairs, metas = [], []
    for k in range(n):
        rng = c.rng
        nargs = rng.randint(1, 3)
        names = rng.sample(["a", "b", "z", "q"], nargs)
        which = rng.randrange(nargs)
        dup = rng.choice(DUP_PAIRS)
        combos, ranks = [], []
        for j, a in enumerate(names):
            if j == which:
                others = [v for v in (7, 8.5, "y", 11) if isinstance(v, str) == isinstance(dup[0], str)
                          or not isinstance(dup[0], str)]
                vals = [dup[0]] + rng.sample(others, rng.randint(0, min(2, len(others)))) + [dup[1]]
                if rng.random() < 0.5:
                    vals = vals[1:-1] + [dup[0], dup[1]] if len(vals) > 2 else vals
            else:
                vals = [10 * (j + 1) + t for t in range(rng.randint(1, 3))]
            combos.append((a, vals))
            rk = []
            for v in vals:            # equal values get equal integers
                for t, w in enumerate(vals):
                    if w == v:
                        rk.append(t)
                        break
            ranks.append(rk)
        api = rng.choice(["combo_runner", "combo_runner_to_ds", "Runner.run_combos", "Crop.sow_combos", "Harvester"])
        calls = []

        def fn(**kw):
            calls.append(kw)
            return 1.0
        d = os.path.join(tmp, f"dup{k}")
        os.makedirs(d, exist_ok=True)
        err = None
        try:
            spelled = dict(combos) if rng.random() < 0.5 else tuple(combos)
            if api == "combo_runner":
                xyzpy.combo_runner(fn, spelled, verbosity=0, shuffle=rng.choice([False, True]))
            elif api == "combo_runner_to_ds":
                xyzpy.combo_runner_to_ds(fn, spelled, "out", verbosity=0)
            elif api == "Runner.run_combos":
                xyzpy.Runner(fn, "out", fn_args=tuple(names)).run_combos(spelled, verbosity=0)
            elif api == "Harvester":
                xyzpy.Harvester(xyzpy.Runner(fn, "out", fn_args=tuple(names)),
                                data_name=os.path.join(d, "data")).harvest_combos(spelled, verbosity=0)
            else:
                from xyzpy.gen.cropping import Crop
                Crop(fn=fn, name="dup", parent_dir=d).sow_combos(spelled, verbosity=0)
        except XYZError as e:
            err = "XYZError"
        except Exception as e:  # noqa
            err = f"{type(e).__name__}: {str(e)[:120]}"
        sown = []
        for root, _, fs in os.walk(d):
            sown += [f for f in fs if f.startswith("xyz-batch-")]
        shutil.rmtree(d, ignore_errors=True)
        rep = {"stream": "duplicate-values", "api": api, "combos": [[a, [repr(v) for v in vs]] for a, vs in combos],
               "error": err, "calls": len(calls), "batch_files": len(sown)}
        c.case(json.dumps(rep, sort_keys=True), nontrivial=True, sample=rep if k % 10 == 0 else None)
        c.count("stream", "duplicate-values"); c.count("dup_api", api); c.count("dup_pair", repr(dup))
        if err != "XYZError":
            c.violation("duplicate-values-not-refused",
                        f"a grid with the equal values {dup[0]!r} and {dup[1]!r} for one argument was "
                        f"{'accepted' if err is None else 'answered with ' + err} (results are keyed by value: the two "
                        "combinations share one slot)", rep)
        elif calls or sown:
            c.violation("duplicate-values-refused-too-late",
                        f"{len(calls)} calls / {len(sown)} batch files before the refusal", rep)
        cmb = "[" + "; ".join(core.zlist(r) for r in ranks) + "]"
        inp = f"(mk_input false [] [] {core.zlist(list(range(nargs)))} {cmb} [] false false None)"
        pairs.append((f"run_checked_core 0 {inp}", ["rejected", []] if err == "XYZError" and not calls else ["accepted", []]))
        metas.append(rep)
    bad, _ = core.safe_run_cases(c, "Prelude Grid Perm Runner RunnerInst", pairs, chunk=150)
    for i in bad:
        c.obligation_broken("correspondence Model/Runner.v (checked_core) vs parse_combos",
                            {"case": metas[i], "model_expr": pairs[i][0]})
    return len(bad)


def run(tier, seed):
    c = core.Check("C01", tier, seed)
    gen_st = core.regen()
    b = core.build(PROP_FILE)
    c.cov["translator"] = {k: v for k, v in gen_st.items() if k in ("GenRunner",)}
    c.cov["build"] = {"ok": b["ok"], "failed_file": b["failed_file"], "wall_s": round(b.get("wall_s", 0), 1)}
    for k in ("GenRunner",):
        if k in gen_st and not gen_st[k]["ok"]:
            c.obligation_broken(f"translator {k}", gen_st[k]["detail"])
    if not b["ok"]:
        c.obligation_broken(f"Coq build of {b['failed_file']}", b["log_tail"][-1200:])
    tmp = core.scratch_dir("xv-c01-")
    try:
        sweeps = gen("thorough" if c.broken else tier, c.rng)
        nbad = S.run_stream(c, sweeps, tmp, "grid")
        if tier == "thorough" or c.broken:
            nbad += S.run_stream(c, exhaustive_small(c.rng), tmp, "grid-exhaustive-small")
        nbad += duplicates_stream(c, tmp, 40 if tier == "quick" and not c.broken else 300)
        c.cov["disagreements_checked"] = nbad
    finally:
        R.shutdown_loky()
        shutil.rmtree(tmp, ignore_errors=True)
    c.assumptions = ["constant names are disjoint from swept names (a constant silently overrides a swept value "
                     "otherwise; outside the property's quantifier)",
                     "swept values of one argument are mutually distinct; grids violating this are refused by "
                     "parse_combos before anything runs (C01_duplicates_rejected + the duplicate-values stream)"]
    return c.finish(b, PROP_FILE, TRUSTED, RULE)


def replay(path):
    return core.generic_replay(run, path)
