"""C01 -- a grid sweep evaluates every combination exactly once, in its own slot."""
import json
import shutil

from harness import core
from harness.impl import runner as R
from harness.props import sweepcheck as S

PROP_FILE = "Props/C01.v"
TRUSTED = [
    "Coq 8.16.1 kernel (coqc, full .vo build); vm_compute for the non-vacuity Examples and case evaluation",
    "hand model Model/Runner.v, Grid.v, Perm.v = transcription of combo_runner_core/_unflatten (modelled, tied by "
    "differential execution, not by translation); GenRunner bridge ties the shuffle / un-shuffle / info wiring",
    "assumption E1: an executor's future returns its own job's value; results are collected in submission order",
    "assumption R1: random.shuffle yields a permutation (the actual permutation is read from CPython per case)",
    "Python dict keyed by value tuples modelled as association list (first match); sorted() as insertion sort",
]
RULE = ("random grids: 1-5 swept arguments, 1-4 values each (int/float/str mapped to ranks), dict/tuple spelling, "
        "constants, result kinds scalar/bool/str/tuple/array/nested/dict, split/flat, strategies sequential, "
        "shuffle=True/int, adversarial completion order, apply_async-only, thread pool, process pools, loky; "
        "distinct = distinct (grid, api, strategy, split, flat); non-trivial = more than one setting")


def gen(tier, rng, force_cases=False):
    n = 260 if tier == "quick" else 2500
    nexp = 10 if tier == "quick" else 60
    sweeps = []
    for i in range(n):
        sw = R.Sweep(rng, with_cases=force_cases if force_cases else False)
        split = sw.kind in (3, 4, 6, 7) and rng.random() < 0.4
        flat = rng.random() < 0.25
        strat = rng.choice(R.CHEAP)
        sweeps.append((sw, "combo_runner", strat, split, flat, "dict"))
    for i in range(nexp):
        sw = R.Sweep(rng, with_cases=force_cases if force_cases else False, max_args=3, max_vals=3)
        split = sw.kind in (3, 4, 6, 7) and rng.random() < 0.4
        sweeps.append((sw, "combo_runner", R.STRATEGIES[7 + i % 4], split, rng.random() < 0.25, "dict"))
    return sweeps


def exhaustive_small(rng):
    """All orderings of <= 3 arguments x all shapes <= 3x3x3 (thorough tier)."""
    import itertools
    out = []
    for k in (1, 2, 3):
        for names in itertools.permutations(["a", "b", "z"], k):
            for shape in itertools.product((1, 2, 3), repeat=k):
                sw = R.Sweep(rng, with_cases=False, kind=0, allow_consts=False)
                sw.case_args, sw.cases = [], []
                sw.combo_args = list(names)
                sw.pools = {a: list(range(10 * i, 10 * i + s)) for i, (a, s) in enumerate(zip(names, shape))}
                sw.types = {a: "int" for a in names}
                sw.combos = [(a, sw.pools[a]) for a in names]
                sw.rank = {a: {v: i for i, v in enumerate(sorted(sw.pools[a]))} for a in names}
                out.append((sw, "combo_runner", rng.choice(["seq", "shuffle_int", "adversarial"]), False, False, "dict"))
    return out


def run(tier, seed):
    c = core.Check("C01", tier, seed)
    gen_st = core.regen()
    b = core.build(PROP_FILE)
    c.cov["translator"] = {k: v for k, v in gen_st.items() if k in ("GenRunner",)}
    c.cov["build"] = {"ok": b["ok"], "failed_file": b["failed_file"], "wall_s": round(b.get("wall_s", 0), 1)}
    for k in ("GenRunner",):
        if k in gen_st and not gen_st[k]["ok"]:
            c.obligation_broken(f"translator {k}", gen_st[k]["detail"])
    if not b["ok"]:
        c.obligation_broken(f"Coq build of {b['failed_file']}", b["log_tail"][-1200:])
    tmp = core.scratch_dir("xv-c01-")
    try:
        sweeps = gen("thorough" if c.broken else tier, c.rng)
        nbad = S.run_stream(c, sweeps, tmp, "grid")
        if tier == "thorough" or c.broken:
            nbad += S.run_stream(c, exhaustive_small(c.rng), tmp, "grid-exhaustive-small")
        c.cov["disagreements_checked"] = nbad
    finally:
        R.shutdown_loky()
        shutil.rmtree(tmp, ignore_errors=True)
    c.assumptions = ["constant names are disjoint from swept names (a constant silently overrides a swept value "
                     "otherwise; outside the property's quantifier)",
                     "swept values of one argument are mutually distinct (parse_combos rejects duplicates)"]
    return c.finish(b, PROP_FILE, TRUSTED, RULE)


def replay(path):
    return core.generic_replay(run, path)
