"""C12 -- a crop is deleted only after its data is safely delivered."""
import hashlib
import json
import os
import pickle
import shutil

from harness import core
from harness.impl import runner as R

PROP_FILE = "Props/C12.v"
TRUSTED = [
    "Coq 8.16.1 kernel (coqc, full .vo build); vm_compute over the finite space farmer kind x clean_up x "
    "allow_incomplete on the stage programs regenerated from cropping.py (GenStages) -- a proof by computation on a "
    "finite domain stated in the theorem",
    "translator gen_harvest.py: whether the except branch of save_full_ds / save_full_df re-raises a failed write "
    "(Bridge/BridgeHarvest.v; C12_save_error_raises)",
    "translator gen_stages.py: classifies every statement of reap_combos / reap_combos_to_ds / reap_runner / "
    "reap_harvest / reap_samples / reap by shape (fail closed) into an ordered stage list; gen_reap.py: clean-up rule",
    "which stages can raise is a modelling decision (check-ready, load-info, result loading, dataset construction, "
    "leftover check, merge/save); validated by injecting a real failure at each of them",
    "shutil.rmtree deletes the whole crop directory or raises",
]
RULE = ("farmer kind in {none, Runner, Harvester, Sampler} x clean_up in {None, True, False} x allow_incomplete x wait "
        "x injected failure in {none, incomplete crop, unreadable result (second batch / the one listed last), wrong var_names, surplus results, merge "
        "conflict, save error} x result type in {number, bare bool, bare str} (plain and Runner crops); after a failure the crop directory is compared byte for byte and a corrected retry "
        "must deliver the exact data; distinct = distinct combinations; non-trivial = all (each has >= 2 batches)")

KINDS = ["none", "Runner", "Harvester", "Sampler"]
COQ_KIND = {"none": "FNone", "Runner": "FRunner", "Harvester": "FHarvester", "Sampler": "FSampler"}
FAILS = {  # name -> (model tag, kinds it applies to)
    "incomplete": (1, KINDS), "unreadable-result": (3, KINDS), "unreadable-result-listed-last": (3, KINDS),
    "wrong-var-names": (4, ["Runner", "Harvester"]), "surplus-outputs": (4, ["Runner", "Harvester"]),
    "surplus-results": (5, KINDS), "merge-conflict": (6, ["Harvester"]), "merge-conflict-deleted": (6, ["Harvester"]), "save-error": (6, ["Harvester", "Sampler"]),
}


def fn_plain(a, b):
    return 10 * a + b


def fn_bool(a, b):
    return (a + b) % 2 == 0


def fn_str(a, b):
    return f"v{a}x{b}"


FNS = {"int": fn_plain, "bool": fn_bool, "str": fn_str}


def fn_other(a, b):
    return -1 - (10 * a + b)


def tree_digest(path):
    out = []
    for root, _, fs in os.walk(path):
        for f in sorted(fs):
            p = os.path.join(root, f)
            out.append((os.path.relpath(p, path), hashlib.sha256(open(p, "rb").read()).hexdigest()))
    return sorted(out)


class Scenario:
    def __init__(self, tmp, kind, rng, rtype="int"):
        import xyzpy
        self.kind, self.rng = kind, rng
        self.fn = FNS[rtype]
        self.dir = os.path.join(tmp, "c12")
        shutil.rmtree(self.dir, ignore_errors=True)
        os.makedirs(os.path.join(self.dir, "data"))
        self.combos = {"a": [1, 2, 3], "b": [4, 5]}
        self.runner = xyzpy.Runner(self.fn, var_names="out")
        self.farmer = None
        if kind == "Runner":
            self.farmer = self.runner
        elif kind == "Harvester":
            # the data name with or without its extension (the file is data/h.h5 either way)
            self.farmer = xyzpy.Harvester(self.runner, data_name=os.path.join(self.dir, "data", rng.choice(["h.h5", "h"])))
        elif kind == "Sampler":
            self.farmer = xyzpy.Sampler(self.runner, data_name=os.path.join(self.dir, "data", "s.pkl"),
                                        default_combos=self.combos)
        if self.farmer is None:
            self.crop = xyzpy.Crop(fn=self.fn, name="k", parent_dir=self.dir, batchsize=2)
        else:
            self.crop = self.farmer.Crop(name="k", parent_dir=self.dir, batchsize=2)
        if kind == "Sampler":
            import numpy as np
            np.random.seed(rng.randint(0, 10 ** 6))
            self.crop.sow_samples(6, verbosity=0)
        else:
            self.crop.sow_combos(self.combos, verbosity=0)
        self.B = self.crop.num_batches

    def res(self, i):
        return os.path.join(self.crop.location, "results", f"xyz-result-{i}.jbdmp")

    def inject(self, fail):
        """returns an undo / fix callable"""
        import xyzpy
        c = self.crop
        if fail == "incomplete":
            c.grow(tuple(range(1, self.B)), verbosity=0)
            return lambda: c.grow_missing(verbosity=0)
        c.grow_missing(verbosity=0)
        if fail is None:
            return lambda: None
        if fail in ("unreadable-result", "unreadable-result-listed-last"):
            p = self.res(2)
            if fail.endswith("listed-last"):
                # the result file that a directory listing names LAST (a partial reap looks at the first listed
                # result to build its placeholder; the damaged one must still be noticed)
                import glob
                p = glob.glob(os.path.join(c.location, "results", "xyz-result-*.jbdmp"))[-1]
            data = open(p, "rb").read()
            open(p, "wb").write(data[:len(data) // 2])

            def fix():
                import contextlib, io
                with contextlib.redirect_stdout(io.StringIO()):
                    c.check_bad()
                c.grow_missing(verbosity=0)
            return fix
        if fail == "surplus-results":
            p = self.res(self.B)
            r = pickle.load(open(p, "rb"))
            pickle.dump(tuple(r) + (r[-1],), open(p, "wb"))

            def fix():
                import contextlib, io
                with contextlib.redirect_stdout(io.StringIO()):
                    c.check_bad()
                c.grow_missing(verbosity=0)
            return fix
        if fail == "wrong-var-names":
            self.runner._var_names = ("x", "y")
            self.runner._var_dims = {"x": (), "y": ()}

            def fix():
                self.runner._var_names = ("out",)
                self.runner._var_dims = {"out": ()}
            return fix
        if fail == "surplus-outputs":
            # every result carries THREE outputs while the description names two: the dataset cannot be built
            # (nothing may be dropped silently); corrected by restoring the results and the description
            saved = {}
            for i in range(1, self.B + 1):
                p = self.res(i)
                saved[p] = open(p, "rb").read()
                r = pickle.load(open(p, "rb"))
                pickle.dump(tuple((v, v, v) for v in r), open(p, "wb"))
            self.runner._var_names = ("out", "o2")
            self.runner._var_dims = {"out": (), "o2": ()}

            def fix():
                for p, data in saved.items():
                    open(p, "wb").write(data)
                self.runner._var_names = ("out",)
                self.runner._var_dims = {"out": ()}
            return fix
        if fail == "merge-conflict":
            # the crop's own harvester already HOLDS a dataset in memory (it harvested an unrelated point before);
            # somebody else then writes conflicting data to the shared file: the reap must see it
            self.farmer.harvest_combos({"a": [9], "b": [9]}, verbosity=0)
            other = xyzpy.Harvester(xyzpy.Runner(fn_other, var_names="out"), data_name=self.farmer.data_name)
            other.harvest_combos({"a": [1], "b": [4]}, verbosity=0)
            self.retry_opts = {"overwrite": True}      # the documented way to resolve a conflict
            return lambda: None
        if fail == "merge-conflict-deleted":
            # the same conflict, corrected by deleting the conflicting dataset through the harvester's own
            # delete_ds(): the retry then delivers (and saves) exactly the crop's data
            other = xyzpy.Harvester(xyzpy.Runner(fn_other, var_names="out"), data_name=self.farmer.data_name)
            other.harvest_combos({"a": [1], "b": [4]}, verbosity=0)
            return lambda: self.farmer.delete_ds()
        if fail == "save-error":
            d = os.path.join(self.dir, "data")
            shutil.rmtree(d)
            return lambda: os.makedirs(d)
        raise ValueError(fail)

    retry_opts = {}

    def reap(self, cu, allow, wait, **extra):
        opts = dict(clean_up=cu, allow_incomplete=allow, wait=wait, **extra)
        return self.crop.reap(**opts)

    def delivered_ok(self, data):
        """Is what the retry delivered exactly the direct run's data?"""
        import xyzpy
        if self.kind == "none":
            return data == xyzpy.combo_runner(self.fn, self.combos, verbosity=0)
        if self.kind == "Sampler":
            rows = sorted((int(r.a), int(r.b), int(r.out)) for r in data.itertuples())
            # ... and the accumulated table (on disk and in memory) holds exactly these rows, once
            table = xyzpy.manage.load_df(self.farmer.data_name)
            trows = sorted((int(r.a), int(r.b), int(r.out)) for r in table.itertuples())
            mrows = sorted((int(r.a), int(r.b), int(r.out)) for r in self.farmer.full_df.itertuples())
            return len(rows) == 6 and all(o == 10 * a + b for a, b, o in rows) and trows == rows and mrows == rows
        direct = xyzpy.Runner(self.fn, var_names="out").run_combos(self.combos, verbosity=0)
        return bool(direct.broadcast_equals(data))


def run(tier, seed):
    c = core.Check("C12", tier, seed)
    gen_st = core.regen()
    b = core.build(PROP_FILE)
    c.cov["translator"] = {k: v for k, v in gen_st.items() if k in ("GenStages", "GenReap", "GenHarvest")}
    c.cov["build"] = {"ok": b["ok"], "failed_file": b["failed_file"], "wall_s": round(b.get("wall_s", 0), 1)}
    for k in ("GenStages", "GenReap", "GenHarvest"):
        if k in gen_st and not gen_st[k]["ok"]:
            c.obligation_broken(f"translator {k}", gen_st[k]["detail"])
    if not b["ok"]:
        c.obligation_broken(f"Coq build of {b['failed_file']}", b["log_tail"][-1200:])
    tmp = core.scratch_dir("xv-c12-")
    pairs, metas = [], []
    try:
        combos = []
        for kind in KINDS:
            for cu in (None, True, False):
                for allow in (False, True):
                    for fail in [None] + [f for f, (_, ks) in FAILS.items() if kind in ks]:
                        for wait in ((False, True) if fail != "incomplete" and (tier == "thorough" or (cu is None and not allow))
                                     else (False,)):
                            # bare bool / str results have no NaN-like placeholder (None): the clean-up rule must
                            # not depend on that
                            for rtype in (("int", "bool", "str") if kind in ("none", "Runner") else ("int",)):
                                combos.append((kind, cu, allow, fail, wait, rtype))
        for kind, cu, allow, fail, wait, rtype in combos:
            sc = Scenario(tmp, kind, c.rng, rtype)
            fix = sc.inject(fail)
            before = tree_digest(sc.crop.location)
            rep = {"farmer": kind, "clean_up": cu, "allow_incomplete": allow, "wait": wait, "failure": fail,
                   "result_type": rtype}
            raised, err = False, None
            try:
                data = sc.reap(cu, allow, wait)
            except Exception as e:  # noqa
                raised, err = True, f"{type(e).__name__}: {str(e)[:150]}"
            deleted = not os.path.exists(sc.crop.location)
            expect_raise = fail is not None and not (fail == "incomplete" and allow)
            c.case(json.dumps(rep, sort_keys=True), nontrivial=True,
                   sample={**rep, "raised": raised, "deleted": deleted, "error": err})
            c.count("farmer", kind); c.count("failure", str(fail)); c.count("clean_up", str(cu)); c.count("allow", allow); c.count("result_type", rtype)
            if raised:
                if deleted or tree_digest(sc.crop.location) != before:
                    c.violation("failed-reap-changed-or-deleted-crop",
                                f"reap raised ({err}) but the crop directory was {'deleted' if deleted else 'modified'}", rep)
                elif not expect_raise:
                    c.violation("unexpected-reap-failure", err, rep)
                else:
                    # correct the cause and reap again: exact data must be delivered
                    try:
                        fix()
                        data2 = sc.reap(cu, False, False, **sc.retry_opts)
                        if not sc.delivered_ok(data2):
                            c.violation("retry-not-exact", "the corrected retry did not deliver the direct run's data", rep)
                    except Exception as e:  # noqa
                        c.violation("retry-raised", f"{type(e).__name__}: {str(e)[:150]}", rep)
            else:
                if expect_raise:
                    c.violation("failure-not-reported", "the injected failure did not make reap raise", rep)
                eff = cu if cu is not None else (not allow)
                if deleted != eff:
                    c.violation("clean-up-not-honoured",
                                f"successful reap: crop deleted={deleted}, documented clean_up={eff}", rep)
                if fail is None and not sc.delivered_ok(data):
                    c.violation("delivered-data-wrong", "successful reap delivered data differing from the direct run", rep)
            tag = "None" if (fail is None or (fail == "incomplete" and allow)) else f"(Some {FAILS[fail][0]})"
            cuq = "None" if cu is None else f"(Some {'true' if cu else 'false'})"
            pairs.append((f"enc_outcome (outcome gen_prog gen_dispatch {COQ_KIND[kind]} {cuq} "
                          f"{'true' if allow else 'false'} {tag})", [raised, deleted]))
            metas.append(rep)
        bad, _ = core.safe_run_cases(c, "Prelude Stages GenStages", pairs)
        for i in bad:
            c.obligation_broken("correspondence Model/Stages.v (regenerated programs) vs cropping.py",
                                {"case": metas[i], "model_expr": pairs[i][0], "observed": pairs[i][1]})
        c.cov["disagreements_checked"] = len(bad)
        c.cov["exhaustive"] = tier == "thorough"
    finally:
        R.shutdown_loky()
        shutil.rmtree(tmp, ignore_errors=True)
    c.assumptions = ["failures are exceptions raised by the stage, not process deaths (C10)"]
    return c.finish(b, PROP_FILE, TRUSTED, RULE)


def replay(path):
    return core.generic_replay(run, path)
