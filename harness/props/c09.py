"""C09 -- a partial reap shows finished batches exactly and everything else as missing."""
import itertools
import json
import os
import shutil

from harness import core
from harness.impl import runner as R
from harness.impl import cropdriver as D
from harness.impl.crops import read_pickle, freeze

PROP_FILE = "Props/C09.v"
TRUSTED = [
    "Coq 8.16.1 kernel (coqc, full .vo build); vm_compute for Examples, the old-rule witness and case evaluation",
    "hand model Model/Crop.v (reaper_chain with placeholders sized by the batch file) tied to cropping.py by "
    "differential execution over every non-empty proper subset of finished batches",
    "GenReap: use_default test, placeholder size source, clean-up rule, refusal test translated from cropping.py "
    "and bridged (Bridge/BridgeReap.v)",
    "placeholders are compared by kind and shape (NaN / None / tuple of NaN arrays with shapes / all-NaN dataset); "
    "nan_like_result of the first finished result is library behaviour for Dataset results (xarray.full_like)",
    "Dataset / DataFrame reaps go through a Runner crop and are checked by the oracle only (xarray / pandas "
    "construction is not modelled)",
]
RULE = ("crops with 2..7 batches over (N, batchsize | num_batches) with and without remainder, shuffle False/True/int, "
        "result kinds scalar/array/bool/str/dict, for EVERY non-empty proper subset of finished batches (all <= 126 per "
        "crop): allow_incomplete reap (raw; Dataset and DataFrame through a Runner crop in a sub-stream), nothing "
        "deleted, refusal without allow_incomplete, then grow the rest and reap exactly; distinct = distinct "
        "(crop, subset); non-trivial = every case (a proper subset)")

CONFIGS = [  # (N as grid dims, bs, nb)
    ((6,), None, 4), ((6,), 4, None), ((2, 3), None, 4), ((7,), 3, None), ((5,), None, 5), ((4,), 2, None),
    ((3, 3), None, 7), ((2, 2, 2), 3, None), ((9,), None, 2), ((10,), 4, None), ((3, 2), None, 3), ((7,), None, 6),
]


def make_sweep(rng, dims, kind, cases=False):
    sw = R.Sweep(rng, with_cases=False, kind=kind, allow_consts=False)
    names = rng.sample(R.ARGS, len(dims))
    sw.case_args, sw.cases = [], []
    sw.combo_args = list(names)
    sw.pools = {a: [10 * i + j for j in range(s)] for i, (a, s) in enumerate(zip(names, dims))}
    sw.types = {a: "int" for a in names}
    sw.combos = [(a, sw.pools[a]) for a in names]
    sw.rank = {a: {v: i for i, v in enumerate(sorted(sw.pools[a]))} for a in names}
    if cases:
        # turn the first argument into a case argument: a sparse diagonal-ish case set
        a = names[0]
        sw.case_args = [a]
        sw.cases = [(v,) for v in sw.pools[a]]
        sw.combo_args = names[1:]
        sw.combos = [(x, sw.pools[x]) for x in names[1:]]
    return sw


def batch_membership(run, sw):
    """setting code -> batch id, read from the batch files (independent of the model)."""
    out = {}
    loc = run.location()
    for f in os.listdir(os.path.join(loc, "batches")):
        if not f.endswith(".jbdmp"):
            continue
        i = int(f.split("-")[-1].split(".")[0])
        for kw in read_pickle(os.path.join(loc, "batches", f)):
            out[sw.code(kw)] = i
    return out


def oracle_partial(sw, sown, member, finished, reaped, direct):
    """finished positions equal the direct value, all others are placeholders."""
    bad = []
    names = [a for a in sw.case_args] + [a for a, _ in sown.sorted_combos]
    dims = [sorted({c[i] for c in sw.cases}) for i in range(len(sw.case_args))] + [v for _, v in sown.sorted_combos]
    requested = None
    if sw.cases:
        requested = {tuple(c) for c in sw.cases}

    def walk(n1, n2, prefix, d):
        if d == len(dims):
            kw = dict(zip(names, prefix))
            kw.update(sw.consts)
            leaf, want = n1[1], n2[1]
            if requested is not None and tuple(prefix[:len(sw.case_args)]) not in requested:
                if not (isinstance(leaf, list) and leaf and leaf[0] == "hole"):
                    bad.append(("unrequested-slot-not-missing", f"slot {prefix} never requested but holds {leaf}"))
                return
            b = member[sw.code(kw)]
            if b in finished:
                if leaf != want:
                    bad.append(("finished-slot-wrong", f"slot {prefix} (batch {b}, finished) holds {leaf}, direct run gives {want}"))
            elif not (isinstance(leaf, list) and leaf and leaf[0] == "hole"):
                bad.append(("unfinished-slot-not-missing", f"slot {prefix} (batch {b}, not finished) holds {leaf}"))
            return
        if len(n1) != len(dims[d]):
            bad.append(("grid-shape", f"axis {names[d]} has {len(n1)} entries"))
            return
        for v, c1, c2 in zip(dims[d], n1, n2):
            walk(c1, c2, prefix + [v], d + 1)
    walk(reaped[1], direct[1], [], 0)
    seen = set()
    return [b for b in bad if not (b[0] in seen or seen.add(b[0]))]


def one_subset(c, tmp, sw, sown, bs, nb, subset, pairs, metas, direct):
    run = D.CropRun(tmp, sw.kind)
    # a second handle on the same crop, created BEFORE anything is sown and not touched until its reap below
    from xyzpy.gen.cropping import Crop
    stale = Crop(fn=run.fn(sw), name=run.name, parent_dir=run.parent)
    ops = [("sow", sown, bs, nb), ("grow", sorted(subset))]
    if c.rng.random() < 0.04:
        # grown the way the cluster scripts do: grow(i, crop, num_workers=k), the cases of a batch finishing in
        # another order than they were submitted
        ops[1] = ("grow", sorted(subset), "function-workers")
    obs = [run.do(op) for op in ops]
    B = obs[0][1]
    member = batch_membership(run, sw)
    before = run.listing()
    rep = {"sweep": sw.describe(), "kind": sw.kind, "bs": bs, "nb": nb, "shuffle": sown.shuffle,
           "finished": sorted(subset), "batches": B}
    # refusal without allow_incomplete
    o = run.do(("reap", False, None)); ops.append(("reap", False, None)); obs.append(o)
    if o[0] == 0:
        c.violation("incomplete-crop-not-refused", "reap without allow_incomplete succeeded on an incomplete crop", rep)
    if run.listing() != before:
        c.violation("refused-reap-touched-files", "a refused reap changed the crop directory", rep)
    # the partial reap
    o = run.do(("reap", True, None)); ops.append(("reap", True, None)); obs.append(o)
    if o[0] != 0:
        c.violation("partial-reap-raised", getattr(run, "last_error", "?"), rep)
    else:
        for key, msg in oracle_partial(sw, sown, member, set(subset), o[-1], direct):
            c.violation("partial:" + key, msg, {**rep, "reaped": o[-1]})
    if run.listing() != before:
        c.violation("partial-reap-deleted-files", "allow_incomplete reap with default clean_up changed the crop directory", rep)
    # the same partial reap through the handle that was created before the sow (it knows nothing but the name:
    # everything it needs is in the settings file)
    if o[0] == 0:
        try:
            so = ["nest", R.canon_nest(stale.reap_combos(allow_incomplete=True), sown.depth())]
            if so != o[-1]:
                c.violation("partial-reap-differs-between-handles", "a Crop object created before the sow reaps a "
                            "different partial result than the sowing object", {**rep, "stale_handle": so, "sower": o[-1]})
        except Exception as e:  # noqa
            c.violation("partial-reap-raised-for-earlier-handle",
                        f"a Crop object created before the sow cannot reap partially: {type(e).__name__}: {str(e)[:150]}", rep)
    # ... and while ANOTHER batch is being grown -- written but not yet published -- a partial reap through a
    # second handle still shows exactly the batches finished before, and a plain reap is still refused
    rest = [j for j in range(1, B + 1) if j not in subset]
    if o[0] == 0 and rest and not getattr(run, "_no_mid", False):
        j = rest[0]
        seen = {}

        def look():
            other = Crop(name=run.name, parent_dir=run.parent)
            try:
                seen["partial"] = ["nest", R.canon_nest(other.reap_combos(allow_incomplete=True), sown.depth())]
            except Exception as e:  # noqa
                seen["partial_error"] = f"{type(e).__name__}: {str(e)[:150]}"
            try:
                other.reap_combos()
                seen["plain"] = "succeeded"
            except Exception as e:  # noqa
                seen["plain"] = type(e).__name__
        with D.observed_result_write(look):
            run.crop.grow(j, verbosity=0)
        ops.append(("grow", [j])); obs.append(run.do(("query",)))     # what the grow op itself would have observed
        if "partial_error" in seen:
            c.violation("partial-reap-raised-while-a-batch-is-being-written", seen["partial_error"], rep)
        elif seen.get("partial") != o[-1]:
            c.violation("partial-reap-shows-unpublished-batch", f"while batch {j} was written but not published a "
                        "partial reap differed from the one before", {**rep, "during": seen.get("partial"), "before": o[-1]})
        if seen.get("plain") != "XYZError":
            c.violation("incomplete-crop-not-refused", f"while batch {j} was being written a plain reap "
                        f"{seen.get('plain')} instead of being refused", rep)
    # continue growing, then a full reap is exact
    for op in [("grow_missing",), ("reap", False, None)]:
        o = run.do(op); ops.append(op); obs.append(o)
    if o[0] != 0 or o[-1] != direct:
        c.violation("full-reap-after-partial-not-exact", getattr(run, "last_error", "differs from the direct run"), rep)
    pairs.append((f"run_crop {sw.kind} [" + "; ".join(D.coq_op(x) for x in ops) + "]", obs))
    metas.append((rep, obs))
    c.case(json.dumps([sw.describe(), bs, nb, sown.shuffle, sorted(subset)], default=str), nontrivial=True,
           sample={**rep, "partial_reap": obs[3]} if len(subset) == 1 and B <= 3 else None)
    c.count("batches", B); c.count("finished", len(subset)); c.count("kind", sw.kind)
    c.count("shuffle", bool(sown.shuffle)); c.count("request", "bs" if bs else "nb")


def runner_stream(c, tmp, n):
    """Dataset / DataFrame partial reaps through a Runner crop (oracle only)."""
    import numpy as np
    import xyzpy
    for _ in range(n):
        dims, bs, nb = c.rng.choice(CONFIGS)
        kind = c.rng.choice([0, 1, 2, 4])
        to_df = kind == 0 and c.rng.random() < 0.4
        sw = make_sweep(c.rng, dims, kind)
        shuffle = c.rng.choice([False, True, 5])
        fn = R.make_fn(sw, os.devnull)
        var_names = "out"
        var_dims = {"out": ["t"]} if kind == 4 else None
        var_coords = {"t": [0, 1, 2]} if kind == 4 else None
        runner = xyzpy.Runner(fn, var_names=var_names, var_dims=var_dims, var_coords=var_coords)
        parent = os.path.join(tmp, "rp")
        shutil.rmtree(parent, ignore_errors=True)
        os.makedirs(parent)
        crop = runner.Crop(name="r", parent_dir=parent, batchsize=bs, num_batches=nb)
        crop.sow_combos(dict(sw.combos), shuffle=shuffle, verbosity=0)
        B = crop.num_batches
        subset = sorted(c.rng.sample(range(1, B + 1), c.rng.randint(1, B - 1)))
        crop.grow(tuple(subset), verbosity=0)
        member = {}
        for i in range(1, B + 1):
            for kw in read_pickle(os.path.join(crop.location, "batches", f"xyz-batch-{i}.jbdmp")):
                member[freeze(kw)] = i
        rep = {"sweep": sw.describe(), "kind": kind, "bs": bs, "nb": nb, "shuffle": shuffle, "finished": subset,
               "to_df": to_df}
        c.case("runner:" + json.dumps(rep, default=str), nontrivial=True)
        c.count("stream", "runner-df" if to_df else "runner-ds")
        try:
            data = crop.reap(allow_incomplete=True, to_df=to_df) if False else crop.reap_runner(
                runner, allow_incomplete=True, to_df=to_df)
        except Exception as e:  # noqa
            c.violation("partial-runner-reap-raised", f"{type(e).__name__}: {str(e)[:200]}", rep)
            continue
        direct = runner.run_combos(dict(sw.combos), verbosity=0)
        names = [a for a, _ in sw.combos]
        import itertools as it
        for vals in it.product(*[v for _, v in sw.combos]):
            kw = dict(zip(names, vals))
            fin = member[freeze(kw)] in subset
            if to_df:
                rows = data
                for a, v in kw.items():
                    rows = rows[rows[a] == v]
                if len(rows) != 1:
                    c.violation("df-row-count", f"{len(rows)} rows for setting {kw}", rep)
                    break
                val = rows["out"].iloc[0]
                isnull = val is None or (isinstance(val, float) and np.isnan(val))
                if fin and (isnull or val != R.result_of_kind(kind, sw.code(kw))):
                    c.violation("df-finished-row-wrong", f"row of {kw} holds {val}", rep)
                    break
                if not fin and not isnull:
                    c.violation("df-unfinished-row-not-missing", f"row of {kw} holds {val}", rep)
                    break
            else:
                got = data["out"].sel(kw).values
                want = direct["out"].sel(kw).values
                gl, wl = np.atleast_1d(got).tolist(), np.atleast_1d(want).tolist()
                isnull = all(x is None or (isinstance(x, float) and np.isnan(x)) for x in gl)
                if fin and gl != wl:
                    c.violation("ds-finished-point-wrong", f"point {kw}: {gl} vs direct {wl}", rep)
                    break
                if not fin and not isnull:
                    c.violation("ds-unfinished-point-not-missing", f"point {kw} holds {gl}", rep)
                    break
        if not os.path.exists(crop.location):
            c.violation("partial-reap-deleted-files", "allow_incomplete Runner reap deleted the crop", rep)


def run(tier, seed):
    c = core.Check("C09", tier, seed)
    gen_st = core.regen()
    b = core.build(PROP_FILE)
    c.cov["translator"] = {k: v for k, v in gen_st.items() if k in ("GenReap",)}
    c.cov["build"] = {"ok": b["ok"], "failed_file": b["failed_file"], "wall_s": round(b.get("wall_s", 0), 1)}
    if "GenReap" in gen_st and not gen_st["GenReap"]["ok"]:
        c.obligation_broken("translator GenReap", gen_st["GenReap"]["detail"])
    if not b["ok"]:
        c.obligation_broken(f"Coq build of {b['failed_file']}", b["log_tail"][-1200:])
    deep = tier == "thorough" or bool(c.broken)
    tmp = core.scratch_dir("xv-c09-")
    pairs, metas = [], []
    try:
        configs = CONFIGS
        for ci, (dims, bs, nb) in enumerate(configs):
            kinds = [0, 1, 2, 4, 8] if deep else [[0, 4], [1, 0], [2, 0], [0, 8], [0, 2], [4, 1], [0, 8]][ci % 7]
            for kind in kinds:
                for shuffle in ([False, True, 7] if deep else [c.rng.choice([False, True, 7])]):
                    use_cases = (ci % 3 == 2) and len(dims) > 1
                    sw = make_sweep(c.rng, dims, kind, cases=use_cases)
                    if shuffle and c.rng.random() < 0.3:
                        # the shuffle setting given when the Crop is CONSTRUCTED, the sow call not repeating it
                        sown = D.SownSweep(sw, False, "combos-default", shuffle)
                    else:
                        sown = D.SownSweep(sw, shuffle, "combos")
                    from harness.props.c04 import direct_output
                    direct = direct_output(sown)
                    n = sw.n_settings()
                    B = -(-n // bs) if bs else min(nb, n)
                    ids = range(1, B + 1)
                    subsets = [s for k in range(1, B) for s in itertools.combinations(ids, k)]
                    if not deep and len(subsets) > 30:
                        subsets = c.rng.sample(subsets, 30)
                    for s in subsets:
                        one_subset(c, tmp, sw, sown, bs, nb, s, pairs, metas, direct)
        bad, _ = core.safe_run_cases(c, "Prelude Grid Perm Runner RunnerInst Batch Crop CropInst", pairs, chunk=80)
        for i in bad:
            rep, obs = metas[i]
            c.obligation_broken("correspondence Model/Crop.v vs cropping.py (partial reap)",
                                {"case": rep, "observed": obs, "model_expr": pairs[i][0][:2500]})
        c.cov["disagreements_checked"] = len(bad)
        c.cov["exhaustive"] = deep
        runner_stream(c, tmp, 40 if not deep else 300)
    finally:
        R.shutdown_loky()
        shutil.rmtree(tmp, ignore_errors=True)
    c.assumptions = ["all results of one crop have the same kind and shape (the placeholder is derived from one of them)",
                     "settings of a sweep are pairwise distinct"]
    return c.finish(b, PROP_FILE, TRUSTED, RULE)


def replay(path):
    return core.generic_replay(run, path)
