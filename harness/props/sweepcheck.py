"""Shared body of the C01 (grids) and C02 (sparse cases) checks: run combo_runner /
case_runner on generated sweeps under many execution strategies, compare with the Coq
model of combo_runner_core and with an independent oracle of the property statement."""
import itertools
import json
import os
import shutil

from harness import core
from harness.impl import runner as R


def observe(sw, api, strat, split, flat, rng, tmp, casespell="dict"):
    """Run one sweep on the real code.  Returns an observation dict."""
    import xyzpy
    log = os.path.join(tmp, "calls.log")
    if os.path.exists(log):
        os.remove(log)
    fn = R.make_fn(sw, log)
    n = sw.n_settings()
    opts, perm, cleanup = R.strategy_opts(strat, rng, n)
    obs = {"perm": perm}
    try:
        try:
            if api == "case_runner":
                fn_args = tuple(sw.case_args)
                cases = [tuple(c) for c in sw.cases]
                if len(fn_args) == 1 and rng.random() < 0.5:
                    cases = [c[0] for c in cases]
                out = xyzpy.case_runner(fn, fn_args, cases, combos=sw.combos_arg(rng, iterators=True), constants=sw.consts or None,
                                        split=split, verbosity=0, **opts)
                flat = True
            else:
                cases = sw.cases_dicts(rng if casespell == "dict-shuffled" else None) if sw.cases else None
                if cases:
                    # the code takes the argument order from the keys of the first case
                    order = list(cases[0].keys())
                    if order != list(sw.case_args):
                        import copy
                        sw2 = copy.copy(sw)
                        sw2.cases = [tuple(dict(zip(sw.case_args, c))[a] for a in order) for c in sw.cases]
                        sw2.case_args = order
                        obs["sw"] = sw2
                out = xyzpy.combo_runner(fn, sw.combos_arg(rng, iterators=True), cases=cases, constants=sw.consts or None,
                                         split=split, flat=flat, verbosity=0, **opts)
        finally:
            cleanup()
    except Exception as e:   # noqa
        obs["error"] = f"{type(e).__name__}: {str(e)[:200]}"
        obs["calls"] = R.read_log(log)
        return obs
    obs["calls"] = R.read_log(log)
    depth = len(sw.case_args) + len(sw.combo_args)

    def canon(o):
        if flat:
            return ["flat", [R.canon_result(x) for x in o]]
        return ["nest", R.canon_nest(o, depth)]
    obs["out"] = (["split"] + [canon(o) for o in out]) if split else canon(out)
    obs["raw_ok"] = True
    return obs


def expected_settings(sw):
    """Independent enumeration of what must be called (the property statement)."""
    cases = sw.cases if sw.cases else [()]
    out = []
    for c in cases:
        for vals in itertools.product(*[v for _, v in sw.combos]):
            kw = dict(zip(sw.case_args, c))
            kw.update(zip(sw.combo_args, vals))
            kw.update(sw.consts)
            out.append(kw)
    return out


def oracle(sw, obs, split, flat):
    """Direct statement of C01/C02 on the observation; returns [(key, message)]."""
    bad = []
    if "error" in obs:
        return [("raised", obs["error"])]
    want = expected_settings(sw)
    want_c = sorted(sorted(map(tuple, sw.canon_kw(k))) for k in want)
    got_c = sorted(sorted(map(tuple, c)) for c in obs["calls"])
    if want_c != got_c:
        extra = [c for c in got_c if c not in want_c]
        bad.append(("calls-not-exactly-once" if not extra else "called-unrequested-setting",
                    f"requested {len(want_c)} settings, function called {len(got_c)} times; "
                    f"unrequested calls: {extra[:3]}"))
    kind = sw.kind

    def comp_of(res, j):
        return res if j is None else res[1 + j]

    def expect_at(kw, j):
        return comp_of(R.canon_result(R.result_of_kind(kind, sw.code(kw))), j)

    def check(o, j):
        if flat:
            got = o[1]
            exp = [expect_at(kw, j) for kw in want]
            if got != exp:
                bad.append(("flat-order", f"flat results are not in requested order (component {j})"))
            return
        # nested: dims = sorted union of case values per case arg, then combos
        dims = [sorted({c[i] for c in sw.cases}) for i in range(len(sw.case_args))] + [v for _, v in sw.combos]
        names = sw.case_args + sw.combo_args
        requested = {tuple(kw[a] for a in names): kw for kw in want}

        def walk(node, prefix, d):
            if d == len(dims):
                leaf = node[1]
                key = tuple(prefix)
                if key in requested:
                    if leaf != expect_at(requested[key], j):
                        bad.append(("wrong-slot", f"slot {key} holds {leaf}, expected result of that setting"))
                else:
                    if not (isinstance(leaf, list) and leaf and leaf[0] == "hole"):
                        bad.append(("unrequested-slot-not-missing", f"slot {key} was not requested but holds {leaf}"))
                    elif j is None and isinstance(leaf[1], list) and leaf[1][:1] == ["nantuple"]:
                        # "shaped like a real result": one all-missing array per member, each of that member's shape
                        import numpy as np
                        ref = R.result_of_kind(kind, 0)
                        want_shapes = [list(np.shape(m)) for m in ref] if isinstance(ref, tuple) else None
                        if want_shapes is not None and leaf[1][1:] != want_shapes:
                            bad.append(("placeholder-shape", f"slot {key}: the placeholder's members have shapes "
                                        f"{leaf[1][1:]}, a real result's members {want_shapes}"))
                return
            if len(node) != len(dims[d]):
                bad.append(("grid-shape", f"dimension {names[d]} has {len(node)} entries, expected {len(dims[d])}"))
                return
            for v, child in zip(dims[d], node):
                walk(child, prefix + [v], d + 1)
        walk(o[1], [], 0)

    if split:
        ncomp = len(R.canon_result(R.result_of_kind(kind, 0))) - 1
        if len(obs["out"]) - 1 != ncomp:
            bad.append(("split-count", f"{len(obs['out']) - 1} split outputs, expected {ncomp}"))
        else:
            for j, o in enumerate(obs["out"][1:]):
                check(o, j)
    else:
        check(obs["out"], None)
    seen = set()
    return [b for b in bad if not (b[0] in seen or seen.add(b[0]))]


SEQ_LIKE = {"seq", "shuffle_true", "shuffle_int", "apply_async"}


def model_pair(sw, obs, strat, split, flat):
    inp = sw.coq_input(split, flat, obs["perm"])
    if strat in SEQ_LIKE:
        return (f"run_core {sw.kind} {inp}", [obs["out"], obs["calls"]])
    return (f"run_core_out {sw.kind} {inp}", obs["out"])


def run_stream(c, sweeps, tmp, tag):
    """sweeps: list of (sweep, api, strat, split, flat, casespell)."""
    pairs, metas = [], []
    for sw, api, strat, split, flat, spell in sweeps:
        obs = observe(sw, api, strat, split, flat, c.rng, tmp, spell)
        eff_flat = True if api == "case_runner" else flat
        desc = {"sweep": sw.describe(), "api": api, "strategy": strat, "split": split, "flat": eff_flat,
                "case_spelling": spell, "perm": obs.get("perm")}
        c.case(json.dumps([sw.describe(), api, strat, split, eff_flat], sort_keys=True, default=str),
               nontrivial=sw.n_settings() > 1,
               sample={**desc, "out": obs.get("out"), "calls": obs.get("calls")} if sw.n_settings() <= 8 else None)
        c.count("strategy", strat); c.count("api", api); c.count("kind", sw.kind)
        c.count("n_args", len(sw.case_args) + len(sw.combo_args)); c.count("split", split); c.count("flat", eff_flat)
        c.count("n_settings", min(sw.n_settings(), 50) // 10 * 10)
        sw = obs.get("sw", sw)
        fails = oracle(sw, obs, split, eff_flat)
        for key, msg in fails:
            c.violation(f"{tag}:{key}", msg, {**desc, "observed_out": obs.get("out"),
                                               "observed_calls": obs.get("calls"), "error": obs.get("error")})
        if "error" not in obs:
            pairs.append(model_pair(sw, obs, strat, split, eff_flat))
            metas.append((desc, obs, fails))
    bad, _ = core.safe_run_cases(c, "Prelude Grid Perm Runner RunnerInst", pairs, chunk=150)
    for i in bad:
        desc, obs, fails = metas[i]
        if not fails:
            c.obligation_broken("correspondence Model/Runner.v vs combo_runner_core",
                                {"stream": tag, "case": desc, "model_expr": pairs[i][0], "observed": pairs[i][1]})
    return len(bad)
