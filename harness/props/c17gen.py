"""Case generator of the C17 check (classic plots).  Everything derives from the rng passed in."""
from harness.impl import plots as P

COLOR_LISTS = [["red", "blue"], ["green", "orange", "purple"], ["k", "c", "m", "y"], ["navy", "teal", "crimson"]]
CMAPS = [None, "viridis", "plasma", "Blues", "xyz", "viridis_r", "plasma_r"]   # names that are reversed maps too
MARKER_LISTS = [["o", "s"], ["^", "v", "D"], ["x"]]


class Ids:
    """hands out distinct non-zero ids (value = id / 4)"""

    def __init__(self, rng, positive):
        self.rng, self.positive, self.used = rng, positive, set()

    def fresh(self, lo=None, hi=None, integer=False):
        for _ in range(10000):
            if self.positive:
                i = self.rng.randint(lo or 1, hi or 4000)
            else:
                i = self.rng.randint(lo if lo is not None else -1500, hi or 4000)
            if integer:
                i -= i % 4
            if i != 0 and i not in self.used:
                self.used.add(i)
                return i
        raise RuntimeError("id space exhausted")

    def increasing(self, n, integer=False):
        out = sorted({self.fresh(integer=integer) for _ in range(n * 3)})
        while len(out) < n:
            out = sorted(set(out) | {self.fresh(integer=integer)})
        pick = sorted(self.rng.sample(out, n))
        return pick


def make_coord(rng, ids, n, kind=None, increasing=False):
    kind = kind or rng.choice(["int", "int", "float", "str"])
    if kind == "str":
        pool = ["sa", "sb", "q", "w7", "Zed", "m", "n0", "alpha", "b", "c", "dd", "e", "f", "g"]
        return {"kind": "str", "vals": rng.sample(pool, n)}
    integer = kind == "int"
    vals = ids.increasing(n, integer=integer)
    if not increasing and rng.random() < 0.3:
        rng.shuffle(vals)
    co = {"kind": kind, "ids": vals}
    if integer and min(vals) >= 0 and rng.random() < 0.25:
        co["dtype"] = rng.choice(["uint16", "uint32", "uint64"])      # an unsigned integer coordinate
    return co


def make_var(rng, ids, raw, dims, p_nan, p_inf, scale=P.SCALE, finite=False, small=False):
    n = 1
    for d in dims:
        n *= raw["dims"][d]
    cells = []
    if small:
        # error values: distinct within the variable, below 1024 / 4096 = 1/4
        return {"dims": list(dims), "scale": scale, "cells": rng.sample(range(1, 1024), n)}
    for _ in range(n):
        r = rng.random()
        if not finite and r < p_nan:
            cells.append("nan")
        elif not finite and r < p_nan + p_inf:
            cells.append(rng.choice(["inf", "-inf"]))
        elif small:
            cells.append(ids.fresh(1, 1000))
        else:
            cells.append(ids.fresh())
    return {"dims": list(dims), "scale": scale, "cells": cells}


def blank(raw, name, fixed, how, rng):
    """make every cell of variable `name` whose index agrees with `fixed` non-finite"""
    var = raw["vars"][name]
    for k, env in enumerate(P.envs(raw, var["dims"])):
        if all(env.get(d, i) == i for d, i in fixed.items()):
            var["cells"][k] = "nan" if how == "nan" else rng.choice(["nan", "inf", "-inf"])


def perm(rng, dims):
    dims = list(dims)
    rng.shuffle(dims)
    return dims


def gen_line_or_scatter(rng, kind, tier):
    positive = rng.random() < 0.35
    opts = {}
    if positive:
        if rng.random() < 0.6:
            opts["xlog"] = True
        if rng.random() < 0.6:
            opts["ylog"] = True
    ids = Ids(rng, positive)
    eids = Ids(rng, True)
    nd = rng.choice([1, 2, 2, 3, 3, 4])
    extra = rng.sample(["z", "r", "k"], nd - 1)
    has_z, row, col = "z" in extra, ("r" if "r" in extra else None), ("k" if "k" in extra else None)
    raw = {"dims": {}, "coords": {}, "vars": {}}
    raw["dims"]["x"] = rng.choice([1, 2, 3, 4, 5, 6, 7])
    if has_z:
        raw["dims"]["z"] = rng.choice([1, 2, 3, 3, 4, 5, 11, 12] if tier == "thorough" or rng.random() < 0.15 else [1, 2, 3, 3, 4, 5])
    if row:
        raw["dims"]["r"] = rng.choice([1, 2, 3])
    if col:
        raw["dims"]["k"] = rng.choice([1, 2, 2, 3])
    singleton = rng.random() < 0.2
    if singleton:
        raw["dims"]["s"] = 1
    # a second free dimension of the SAME length as x (a "square" dataset: variables stored with different
    # dimension orders then have equal shapes and must still be paired by dimension name)
    square = (not has_z) and not row and not col and rng.random() < 0.4
    if square:
        raw["dims"]["w"] = raw["dims"]["x"]
    active = list(raw["dims"].keys())
    raw["coords"]["x"] = make_coord(rng, ids, raw["dims"]["x"], rng.choice(["int", "float"]))
    if has_z:
        raw["coords"]["z"] = make_coord(rng, ids, raw["dims"]["z"])
    if row:
        raw["coords"]["r"] = make_coord(rng, ids, raw["dims"]["r"])
    if col:
        raw["coords"]["k"] = make_coord(rng, ids, raw["dims"]["k"])
    if singleton:
        raw["coords"]["s"] = make_coord(rng, ids, 1, "int")
    if square:
        raw["coords"]["w"] = make_coord(rng, ids, raw["dims"]["w"], "int")
    p_nan = rng.choice([0.0, 0.1, 0.3])
    p_inf = rng.choice([0.0, 0.05, 0.1])
    multi = (not has_z) and rng.random() < 0.45
    ynames = rng.sample(["a", "b", "d"], rng.choice([2, 2, 3])) if multi else ["a"]
    for v in ynames:
        raw["vars"][v] = make_var(rng, ids, raw, perm(rng, active), p_nan, p_inf)
    case = {"kind": kind, "auto": False, "ds": raw, "x": "x", "y": (ynames if multi else "a"),
            "z": "z" if has_z else None, "c": None, "y_err": None, "x_err": None, "row": row, "col": col,
            "opts": opts}
    # x as a data variable (points = pairs of two variables); always on a square dataset (with x a dimension
    # coordinate xyzpy declines a second free dimension)
    if square or rng.random() < 0.3:
        xdims = perm(rng, active) if rng.random() < 0.7 else perm(rng, [d for d in active if d != "z"])
        if "x" not in xdims:
            xdims.append("x")
        raw["vars"]["xa"] = make_var(rng, ids, raw, xdims, rng.choice([0.0, 0.15]), rng.choice([0.0, 0.05]))
        case["x"] = "xa"
    # all-non-finite series / panels
    r = rng.random()
    if r < 0.45:
        target = rng.choice(ynames)
        fixed = {}
        if has_z and rng.random() < 0.9:
            fixed["z"] = rng.randrange(raw["dims"]["z"])
        if row and rng.random() < 0.5:
            fixed["r"] = rng.randrange(raw["dims"]["r"])
        if col and rng.random() < 0.5:
            fixed["k"] = rng.randrange(raw["dims"]["k"])
        blank(raw, target, fixed, rng.choice(["nan", "nan", "mixed"]), rng)
        if has_z and raw["dims"]["z"] > 2 and rng.random() < 0.3:
            blank(raw, target, {"z": rng.randrange(raw["dims"]["z"])}, "nan", rng)
    if not multi:
        if rng.random() < 0.25:
            raw["vars"]["ye"] = make_var(rng, eids, raw, perm(rng, active), 0, 0, scale=P.ESCALE, finite=True, small=True)
            case["y_err"] = "ye"
        if rng.random() < 0.15:
            raw["vars"]["xe"] = make_var(rng, eids, raw, perm(rng, active), 0, 0, scale=P.ESCALE, finite=True, small=True)
            case["x_err"] = "xe"
        if rng.random() < 0.3:
            if kind == "lineplot":
                cd = [d for d in active if d not in ("x", "s", "w")]
                raw["vars"]["cc"] = make_var(rng, ids, raw, perm(rng, cd), 0, 0, finite=True)
                case["c"] = "cc"
            else:
                raw["vars"]["cv"] = make_var(rng, ids, raw, perm(rng, active), 0, 0, finite=True)
                case["c"] = "cv"
    # options
    if (has_z or multi) and rng.random() < 0.15:
        # the user's own series labels, one per z value / variable, in order
        nser = raw["dims"]["z"] if has_z else len(ynames)
        opts["zlabels"] = [f"lab{k}" for k in range(nser)]
    if case["c"] is None:
        r = rng.random()
        if r < 0.4 and (has_z or multi or rng.random() < 0.5):
            opts["colors"] = True
        elif r < 0.6:
            opts["colors"] = rng.choice(COLOR_LISTS)
    if opts.get("colors") is True or case["c"] is not None:
        cm = rng.choice(CMAPS)
        if cm is not None:
            opts["colormap"] = cm
        if rng.random() < 0.25:
            opts["colormap_reverse"] = True
        coo = case["c"] or case["z"]
        numeric = coo is not None and (coo in raw["vars"] or raw["coords"][coo]["kind"] != "str")
        if numeric and rng.random() < 0.2:
            # logarithmic colour scale (needs a strictly positive quantity; no user limits then)
            allv = [c for c in (raw["vars"][coo]["cells"] if coo in raw["vars"] else raw["coords"][coo]["ids"])]
            if allv and all(isinstance(c, int) and c > 0 for c in allv):
                opts["colormap_log"] = True
                numeric = False
        if numeric and rng.random() < 0.3:
            vals = sorted(c for c in (raw["vars"][coo]["cells"] if coo in raw["vars"] else raw["coords"][coo]["ids"]))
            lo, hi = vals[0], vals[-1]
            which = rng.choice(["zlims", "vminmax", "inside", "zero"])
            if which == "zero":
                # a limit of exactly zero (a falsy number) is a limit like any other
                if hi > 0:
                    opts["vmin"] = 0.0 if rng.random() < 0.5 else 0
                    opts["vmax"] = (hi + rng.randint(1, 40)) / 4
                elif lo < 0:
                    opts["vmax"] = 0.0 if rng.random() < 0.5 else 0
                    opts["vmin"] = (lo - rng.randint(1, 40)) / 4
                which = "done"
            if which == "zlims":
                opts["zlims"] = [(lo - rng.randint(0, 40)) / 4, (hi + rng.randint(1, 40)) / 4]
            elif which == "vminmax":
                opts["vmin"] = (lo - rng.randint(0, 40)) / 4
                opts["vmax"] = (hi + rng.randint(1, 40)) / 4
            elif len(vals) > 2:
                # clipping range: some values fall under / over
                opts["vmin"] = vals[1] / 4 - 0.25 * rng.randint(0, 1)
                opts["vmax"] = vals[-2] / 4 + 0.25
    r = rng.random()
    if r < 0.2:
        opts["legend"] = True
    elif r < 0.35:
        opts["legend"] = False
    r = rng.random()
    if r < 0.15:
        opts["colorbar"] = True
    elif r < 0.3:
        opts["colorbar"] = False
    r = rng.random()
    if r < 0.15:
        opts["markers"] = True
    elif r < 0.3:
        opts["markers"] = False
    elif r < 0.45:
        opts["markers"] = rng.choice(MARKER_LISTS)
    if kind == "lineplot" and rng.random() < 0.15:
        opts["lines"] = False
    if rng.random() < 0.1:
        opts["legend_reverse"] = True
    if rng.random() < 0.1:
        opts["legend_marker_alpha"] = 0.5
    if rng.random() < 0.1 and not (row or col):
        opts["title"] = "T"
    if rng.random() < 0.1:
        opts["vlines"] = [1.0]
        opts["hlines"] = [2.0]
    if rng.random() < 0.1:
        opts["ztitle"] = "ZT"
    return case


def gen_auto_line_or_scatter(rng, kind):
    """auto_lineplot / auto_scatter (x array, y_z array)"""
    ids = Ids(rng, False)
    raw = {"dims": {"x": rng.choice([2, 3, 4, 5]), "z": rng.choice([1, 2, 3, 4])}, "coords": {}, "vars": {}}
    if raw["dims"]["x"] == raw["dims"]["z"]:
        raw["dims"]["x"] += 1         # auto_xyz_ds guesses the orientation from the sizes
    raw["coords"]["x"] = make_coord(rng, ids, raw["dims"]["x"], rng.choice(["int", "float"]))
    raw["coords"]["z"] = {"kind": "int", "ids": [4 * i for i in range(raw["dims"]["z"])]}   # np.arange(n_y)
    # id 0 is not usable: shift the z ids out of the data id space (they are labels only)
    raw["vars"]["a"] = make_var(rng, ids, raw, ["z", "x"], rng.choice([0, 0.2]), rng.choice([0, 0.05]))
    if rng.random() < 0.4:
        blank(raw, "a", {"z": rng.randrange(raw["dims"]["z"])}, "nan", rng)
    opts = {}
    if rng.random() < 0.4:
        opts["colors"] = True
        opts["colormap"] = rng.choice(["viridis", "plasma"])
    case = {"kind": kind, "auto": True, "auto_transposed": rng.random() < 0.5, "ds": raw, "x": "x", "y": "a", "z": "z",
            "c": None, "y_err": None, "x_err": None, "row": None, "col": None, "opts": opts}
    if rng.random() < 0.3 and raw["dims"]["x"] >= 2:
        # a TWO-dimensional x: every series has its own x values, x[i] goes with y_z[i]; also on a square layout
        # (as many points as series), where the sizes say nothing about the orientation
        if rng.random() < 0.5:
            raw["dims"]["z"] = raw["dims"]["x"]
            raw["coords"]["z"] = {"kind": "int", "ids": [4 * i for i in range(raw["dims"]["z"])]}
            raw["vars"]["a"] = make_var(rng, ids, raw, ["z", "x"], rng.choice([0, 0.2]), rng.choice([0, 0.05]))
        raw["vars"]["xa"] = make_var(rng, ids, raw, ["z", "x"], 0.0, 0.0)
        case.update({"x": "xa", "auto_x2d": True, "auto_transposed": False})
    return case


def gen_histogram(rng, tier, auto=False):
    ids = Ids(rng, False)
    nd = rng.choice([1, 2, 2, 3, 4])
    names = ["p", "z", "r", "k"][:nd] if not auto else ["y", "z", "w", "v"][:nd]
    raw = {"dims": {}, "coords": {}, "vars": {}}
    for d in names:
        raw["dims"][d] = rng.choice([2, 3, 4, 5] if d in ("p", "y") else [1, 2, 3])
        raw["coords"][d] = make_coord(rng, ids, raw["dims"][d])
    has_z = (not auto) and "z" in names and rng.random() < 0.7
    row = "r" if ((not auto) and "r" in names and rng.random() < 0.6) else None
    col = "k" if ((not auto) and "k" in names and rng.random() < 0.6) else None
    multi = (not auto) and (not has_z) and rng.random() < 0.4
    xn = rng.sample(["a", "b", "d"], 2) if multi else ["a"]
    p_nan, p_inf = rng.choice([0, 0.15, 0.3]), rng.choice([0, 0.05, 0.1])
    for v in xn:
        raw["vars"][v] = make_var(rng, ids, raw, perm(rng, names), p_nan, p_inf)
    if has_z and rng.random() < 0.35:
        blank(raw, "a", {"z": rng.randrange(raw["dims"]["z"])}, rng.choice(["nan", "mixed"]), rng)
    opts = {}
    r = rng.random()
    if r < 0.35:
        opts["bins"] = rng.choice([1, 2, 3, 5, 8])
    elif r < 0.7:
        vals = sorted(c for v in xn for c in raw["vars"][v]["cells"] if P.is_fin(c))
        if len(vals) >= 2:
            lo, hi = vals[0], vals[-1]
            nb = rng.choice([1, 2, 3, 4])
            cut = sorted({rng.randint(lo, hi) for _ in range(nb - 1)} - {lo, hi})
            how = rng.random()
            if how < 0.5:
                e = [lo] + cut + [hi]               # edges hit data values exactly (closed last bin)
            elif how < 0.8:
                e = [lo - 2] + cut + [hi + 3]
            else:
                e = [lo + 1] + cut + [hi - 1]       # some values fall outside every bin
                e = sorted(set(e))
            if len(e) >= 2 and e[0] < e[-1]:
                opts["bins"] = [v / 4 for v in e]
    if rng.random() < 0.15:
        opts["stacked"] = True
    r = rng.random()
    if r < 0.3 and (has_z or multi or rng.random() < 0.5):
        opts["colors"] = True
        opts["colormap"] = rng.choice(["viridis", "plasma"])
    elif r < 0.45:
        opts["colors"] = rng.choice(COLOR_LISTS)
    if rng.random() < 0.2:
        opts["legend"] = rng.choice([True, False])
    return {"kind": "histogram", "auto": auto, "ds": raw, "x": (xn if multi else "a"), "y": None,
            "z": "z" if has_z else None, "c": None, "y_err": None, "x_err": None, "row": row, "col": col,
            "opts": opts}


def gen_heatmap(rng, tier, auto=False):
    ids = Ids(rng, rng.random() < 0.2)
    nd = 2 if auto else rng.choice([2, 2, 3, 4])
    raw = {"dims": {}, "coords": {}, "vars": {}}
    raw["dims"]["x"] = rng.choice([2, 3, 4, 5])
    raw["dims"]["y"] = rng.choice([2, 3, 4])
    extra = rng.sample(["r", "k"], nd - 2)
    for d in extra:
        raw["dims"][d] = rng.choice([1, 2, 3])
    singleton = (not auto) and rng.random() < 0.3
    if singleton:
        raw["dims"]["s"] = 1
    for d in raw["dims"]:
        if auto:
            raw["coords"][d] = {"kind": "int", "ids": [4 * i for i in range(raw["dims"][d])]}
        else:
            raw["coords"][d] = make_coord(rng, ids, raw["dims"][d], rng.choice(["int", "float"]) if d in ("x", "y") else None,
                                          increasing=d in ("x", "y"))
            if d in ("x", "y") and rng.random() < 0.25:
                raw["coords"][d]["ids"] = list(reversed(raw["coords"][d]["ids"]))     # a descending mesh coordinate
    active = list(raw["dims"].keys())
    raw["vars"]["h"] = make_var(rng, ids, raw, ["x", "y"] if auto else perm(rng, active),
                                rng.choice([0, 0.1, 0.3]), rng.choice([0, 0, 0.05]))
    opts = {}
    if rng.random() < 0.5:
        opts["colormap"] = rng.choice(["viridis", "plasma", "Blues"])
    if rng.random() < 0.2:
        opts["colormap_reverse"] = True
    if rng.random() < 0.25:
        vals = sorted(c for c in raw["vars"]["h"]["cells"] if P.is_fin(c))
        if len(vals) > 3 and vals[1] < vals[-2]:
            opts["vmin"] = vals[1] / 4
            opts["vmax"] = vals[-2] / 4
    if rng.random() < 0.15:
        opts["colorbar"] = False
    if extra and "vmin" not in opts and rng.random() < 0.3:
        # the documented default spelled out: every panel is still coloured on the one scale of the colour bar
        opts["vmin"], opts["vmax"] = None, None
    return {"kind": "heatmap", "auto": auto, "ds": raw, "x": "x", "y": "y", "z": "h", "c": None, "y_err": None,
            "x_err": None, "row": ("r" if "r" in extra else None), "col": ("k" if "k" in extra else None),
            "opts": opts}


def gen_case(rng, tier):
    r = rng.random()
    if r < 0.36:
        return gen_line_or_scatter(rng, "lineplot", tier)
    if r < 0.60:
        return gen_line_or_scatter(rng, "scatter", tier)
    if r < 0.64:
        return gen_auto_line_or_scatter(rng, rng.choice(["lineplot", "scatter"]))
    if r < 0.80:
        return gen_histogram(rng, tier)
    if r < 0.83:
        return gen_histogram(rng, tier, auto=True)
    if r < 0.97:
        return gen_heatmap(rng, tier)
    return gen_heatmap(rng, tier, auto=True)


def grid_dims_gt1(case):
    return any(case["ds"]["dims"][case[k]] > 1 for k in ("row", "col") if case.get(k))


def colorbar_implies_colors(case):
    """colorbar=True on a single plot over a z coordinate with default colours: the series are coloured by z
    (otherwise the colour bar would describe nothing that is drawn)"""
    o = case["opts"]
    return (case["kind"] != "heatmap" and o.get("colorbar") is True and o.get("colors") is None
            and case.get("c") is None and case.get("z") is not None
            and not (case.get("row") or case.get("col")))


def colorbar_without_scale(case):
    """colorbar=True although nothing is colour-mapped: no z and no c, or (single plot) an explicit colour list"""
    o = case["opts"]
    if case["kind"] == "heatmap" or o.get("colorbar") is not True:
        return False
    grid = bool(case.get("row") or case.get("col"))
    noz = case.get("z") is None and case.get("c") is None
    return noz or (not grid and isinstance(o.get("colors"), list))


RAISE_SIGNATURE = {
    "multi-variable-y-with-row-or-col-raises": "non-singlet",
    "colors-true-without-z-raises": "_color_norm",
    "colorbar-true-without-colour-scale-raises": "mappable",
    "legend-true-on-grid-without-labels-raises": "_legend_handles",
}


def raise_class(case, error=""):
    """Stable key under which an exception of the plotting call is reported, by the option combination of the
    case.  These are the combinations that raised before the corresponding fix: commits; on a repaired tree
    none of them raises any more (see colorbar_without_scale for the one request that is declined on purpose).
    When a case combines several of them, the attribute / phrase named in the error picks the one that fired."""
    o = case["opts"]
    kind = case["kind"]
    if kind == "heatmap":
        return None
    names = case["x"] if kind == "histogram" else case["y"]
    multi = isinstance(names, list)
    grid = bool(case.get("row") or case.get("col"))
    noz = case.get("z") is None and case.get("c") is None
    cands = []
    if kind == "lineplot" and multi and grid:
        # check_excess_dims ran on the undivided dataset (only in line mode): a row / col dimension of
        # size > 1 that is not a dimension of the x variable was "in excess"
        xd = P.var_dims(case["ds"], case["x"])
        if any(case["ds"]["dims"][case[k]] > 1 and case[k] not in xd for k in ("row", "col") if case.get(k)):
            cands.append("multi-variable-y-with-row-or-col-raises")
    if o.get("colors") is True and noz and not multi:
        cands.append("colors-true-without-z-raises")
    if o.get("colorbar") is True and (noz or (not grid and not (o.get("colors") is True or case.get("c")))):
        cands.append("colorbar-true-without-colour-scale-raises")
    if o.get("legend") is True and grid and case.get("z") is None and not multi and kind == "lineplot":
        cands.append("legend-true-on-grid-without-labels-raises")
    for k in cands:
        if RAISE_SIGNATURE[k] in error:
            return k
    return cands[0] if cands else None
