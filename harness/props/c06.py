"""C06 -- a crop attached to a Runner, Harvester or Sampler reaps what a direct run gives."""
import functools
import json
import os
import shutil
import subprocess
import sys

import numpy as np

from harness import core
from harness.impl import runner as R
from harness.props import c03

PROP_FILE = "Props/C06.v"
TRUSTED = [
    "Coq 8.16.1 kernel (coqc, full .vo build)",
    "translator gen_farmer.py: the keyword arguments reap_runner / reap_combos_to_ds / Runner.run_combos / run_cases "
    "hand to the Dataset builder, Crop.parse_constants' merge order, the recording of the last result and the "
    "add_ds / add_df hand-over; bridged in Bridge/BridgeFarmer.v; C06_runner composes C04's round trip with the "
    "labelled-output model of C03",
    "Dataset equality is checked on the real objects (broadcast_equals up to axis order, coordinates, attributes); "
    "xarray / pandas / cloudpickle are library behaviour",
    "constants given at sow time are recorded with the crop (repair D29) and describe the reaped data exactly as "
    "the call-time constants of a direct run do; generated in a third of the runner / harvester cases",
]
RULE = ("farmer kind in {Runner, Harvester, Sampler} x runner descriptions (1-3 variables, array outputs with an internal "
        "dimension given by var_coords or by a constant, resources, attrs) x grids / case sets x batch sizes x shuffle x "
        "to_df x overwrite policy x reload of the crop by name (same process; fresh OS process for a sample) between "
        "sow, grow and reap; plus Harvester crops whose harvester already holds identical / conflicting / overlapping data, "
        "overwrite given or left at its default on both routes; plus crops re-sown in a folder left by an earlier sow "
        "with another function (same process / fresh process); distinct = distinct combinations; non-trivial = at least two batches")

RELOAD_SNIPPET = r'''
import sys, os, json
sys.path.insert(0, os.environ["XV_VERIF"])
import xyzpy
crop = xyzpy.Crop(name=sys.argv[1], parent_dir=sys.argv[2])
what = sys.argv[3]
if what == "grow":
    crop.grow_missing(verbosity=0)
else:
    out = crop.reap()
    import pickle
    pickle.dump(out, open(sys.argv[4], "wb"))
'''


def ds_equal(a, b):
    """same dataset up to axis order: dims, coords, values (NaN-aware), attrs"""
    if set(a.dims) != set(b.dims) or set(a.data_vars) != set(b.data_vars):
        return False, "dims / variables differ"
    for d in a.dims:
        if (d in a.coords) != (d in b.coords):
            return False, f"dimension {d} has a coordinate on one side only"
        if d in a.coords and list(a[d].values) != list(b[d].values):
            # the crop sorts combos by name but keeps the value order
            return False, f"coordinate {d} differs"
    for v in a.data_vars:
        if set(a[v].dims) != set(b[v].dims):
            return False, f"{v} dims differ"
        x = a[v].values
        y = b[v].transpose(*a[v].dims).values
        if not np.array_equal(x.astype(float), y.astype(float), equal_nan=True):
            return False, f"values of {v} differ"
    if dict(a.attrs) != dict(b.attrs):
        return False, f"attrs differ: {dict(a.attrs)} vs {dict(b.attrs)}"
    return True, ""


def one_case(c, tmp, idx):
    import xyzpy
    rng = c.rng
    kind_f = rng.choice(["Runner", "Runner", "Harvester", "Sampler"])
    with_cases = rng.random() < 0.3 and kind_f != "Sampler"
    sw = R.Sweep(rng, with_cases=with_cases, max_args=3, max_vals=3, kind=0, allow_consts=False)
    if with_cases and rng.random() < 0.5:
        # cases with a sub-grid over SEVERAL arguments (their order as given need not be alphabetical)
        for _ in range(20):
            sw = R.Sweep(rng, with_cases=True, max_args=4, max_vals=2, kind=0, allow_consts=False)
            if len(sw.combo_args) >= 2:
                break
    nv = rng.randint(1, 3)
    arrays = rng.random() < 0.45 and kind_f != "Sampler"
    kind = (20 if arrays else 10) + nv
    names = [f"v{j}" for j in range(nv)]
    constants, resources, attrs = {}, {}, {}
    if rng.random() < 0.5:
        constants["k1"] = rng.randint(0, 4)
    if rng.random() < 0.4:
        resources["k2"] = rng.randint(0, 4)
    if rng.random() < 0.4:
        attrs["at1"] = rng.randint(0, 9)
    t_source = None
    if arrays:
        t_source = rng.choice(["var_coords", "constant", "none"])
        if t_source == "constant":
            constants["t"] = list(c03.T_COORDS)
    var_coords = {"t": list(c03.T_COORDS)} if t_source == "var_coords" else None
    var_dims = {n: ["t"] for n in names} if arrays else None
    fn = functools.partial(c03.labelled_fn, sw.rank, kind, "plain")
    fn_args = tuple(sw.case_args + sw.combo_args)

    def mk_runner():
        return xyzpy.Runner(fn, tuple(names), fn_args=fn_args, var_dims=var_dims, var_coords=var_coords,
                            constants=dict(constants) or None, resources=dict(resources) or None,
                            attrs=dict(attrs) or None)
    d = os.path.join(tmp, f"f{idx}")
    os.makedirs(d)
    shuffle = rng.choice([False, False, True, 11])
    to_df = kind_f == "Runner" and not arrays and rng.random() < 0.3
    pol = rng.choice([None, True, False])
    reload_mode = rng.choice(["none", "object", "object", "process"]) if idx % 7 == 0 else rng.choice(["none", "object"])
    if reload_mode == "process":
        to_df = False            # the fresh process reaps through Crop.reap()
    rep = {"farmer": kind_f, "sweep": sw.describe(), "n_vars": nv, "arrays": arrays, "t_source": t_source,
           "constants": {k: ("list" if isinstance(v, list) else v) for k, v in constants.items()},
           "resources": resources, "attrs": attrs, "shuffle": shuffle, "to_df": to_df, "overwrite": pol,
           "reload": reload_mode}
    # constants given for THIS sow only (they override the runner's own and must describe the reaped data,
    # as the call-time constants of a direct run do)
    sow_consts = {"k1": rng.randint(5, 9)} if (kind_f != "Sampler" and rng.random() < 0.3) else {}
    rep["sow_constants"] = dict(sow_consts)
    n = sw.n_settings()
    bs = rng.randint(1, max(1, n))
    runner = mk_runner()
    if kind_f == "Runner":
        farmer = runner
    elif kind_f == "Harvester":
        if rng.random() < 0.3:
            # the decorator spelling: label(..., harvester=<data name>)
            farmer = xyzpy.label(tuple(names), fn_args=fn_args, var_dims=var_dims, var_coords=var_coords,
                                 constants=dict(constants) or None, resources=dict(resources) or None,
                                 attrs=dict(attrs) or None, harvester=os.path.join(d, "crop_side"))(fn)
            rep["via_label"] = True
        else:
            farmer = xyzpy.Harvester(runner, data_name=os.path.join(d, "crop_side"))
    else:
        farmer = xyzpy.Sampler(runner, data_name=os.path.join(d, "crop_side.pkl"), default_combos=dict(sw.combos))
    crop = farmer.Crop(name="fc", parent_dir=d, batchsize=bs)
    ctor_shuffle = None
    if kind_f != "Sampler" and rng.random() < 0.2:
        # the crop constructed directly around the farmer, WITH a shuffle setting; the sow call does not repeat it
        # (its own default, no shuffling, then decides what is sown AND what is recorded)
        ctor_shuffle = rng.choice([True, 5])
        crop = xyzpy.Crop(farmer=farmer, name="fc", parent_dir=d, batchsize=bs, shuffle=ctor_shuffle)
    rep["ctor_shuffle"] = ctor_shuffle
    bad = []
    try:
        if kind_f == "Sampler":
            np.random.seed(rng.randint(0, 10 ** 6))
            crop.sow_samples(rng.randint(2, 6), verbosity=0)
        elif sw.cases and rng.random() < 0.5:
            if ctor_shuffle is None:
                crop.shuffle = shuffle
            # fn_args=None: the runner's own argument order decides, as in a direct run_cases(cases)
            rep["case_fn_args"] = case_fn_args = (None if rng.random() < 0.3 else tuple(sw.case_args))
            crop.sow_cases(case_fn_args, [tuple(x) for x in sw.cases], combos=dict(sw.combos) or None,
                           constants=dict(sow_consts) or None, verbosity=0)
        else:
            crop.sow_combos(dict(sw.combos) if sw.combos else None, cases=sw.cases_dicts() if sw.cases else None,
                            constants=dict(sow_consts) or None, verbosity=0,
                            **({} if ctor_shuffle is not None else {"shuffle": shuffle}))
        rep["batches"] = crop.num_batches
        if reload_mode == "process":
            env = dict(os.environ, XV_VERIF=core.VERIF)
            for what in ("grow", "reap"):
                p = subprocess.run([sys.executable, "-W", "ignore", "-c", RELOAD_SNIPPET, "fc", d, what,
                                    os.path.join(d, "out.pkl")], env=env, capture_output=True, text=True, timeout=300)
                if p.returncode != 0:
                    return rep, [("reloaded-process-failed", p.stderr[-300:])]
            import pickle
            reaped = pickle.load(open(os.path.join(d, "out.pkl"), "rb"))
            farmer2 = None
        else:
            if reload_mode == "object":
                crop = xyzpy.Crop(name="fc", parent_dir=d)
            crop.grow_missing(verbosity=0)
            if reload_mode == "object" and rng.random() < 0.5:
                crop = xyzpy.Crop(name="fc", parent_dir=d)
            kw = {"overwrite": pol} if kind_f == "Harvester" else {}
            if to_df:
                reaped = crop.reap_runner(crop.farmer, to_df=True)
            else:
                reaped = crop.reap(**kw)
            farmer2 = crop.farmer
    except Exception as e:  # noqa
        return rep, [("farmer-crop-raised", f"{type(e).__name__}: {str(e)[:200]}")]
    # ---- the direct run on the same inputs
    direct_runner = mk_runner()
    if kind_f == "Sampler":
        cases = [tuple((r[a].item() if hasattr(r[a], 'item') else r[a]) for a in fn_args) for _, r in reaped.iterrows()]
        direct = direct_runner.run_cases(cases, fn_args=fn_args, to_df=True, verbosity=0)
        cols = sorted(direct.columns)
        if sorted(reaped.columns) != cols or sorted(map(tuple, reaped[cols].values.tolist())) != sorted(map(tuple, direct[cols].values.tolist())):
            bad.append(("sampler-rows-differ", "reaped rows differ from running the runner on the same drawn cases"))
        disk = xyzpy.manage.load_df(os.path.join(d, "crop_side.pkl"))
        if sorted(map(tuple, disk[cols].values.tolist())) != sorted(map(tuple, direct[cols].values.tolist())):
            bad.append(("sampler-table-differs", "table on disk differs from a direct sample of the same settings"))
        return rep, bad
    from xyzpy.gen.prepare import parse_combos
    if sw.cases:
        direct = direct_runner.run_cases([tuple(x) for x in sw.cases], fn_args=rep.get("case_fn_args", tuple(sw.case_args)),
                                         combos=(dict(sw.combos) or None), constants=dict(sow_consts),
                                         to_df=to_df, verbosity=0)
    else:
        direct = direct_runner.run_combos(dict(sw.combos), constants=dict(sow_consts), to_df=to_df, verbosity=0)
    if to_df:
        cols = sorted(direct.columns)
        if sorted(reaped.columns) != cols or sorted(map(tuple, reaped[cols].values.tolist())) != sorted(map(tuple, direct[cols].values.tolist())):
            bad.append(("dataframe-differs", "reaped DataFrame rows differ from the direct run"))
        if farmer2 is not None and farmer2._last_df is not reaped:
            bad.append(("last-result-not-recorded", "runner.last_df is not the reaped DataFrame"))
        return rep, bad
    ok, why = ds_equal(direct, reaped)
    if not ok:
        bad.append(("dataset-differs", why))
    if farmer2 is not None:
        last = farmer2.last_ds
        if last is not reaped:
            bad.append(("last-result-not-recorded", "the farmer's last_ds is not the reaped Dataset"))
    if kind_f == "Harvester":
        other = xyzpy.Harvester(mk_runner(), data_name=os.path.join(d, "direct_side"))
        if sw.cases:
            other.harvest_cases([tuple(x) for x in sw.cases], fn_args=tuple(sw.case_args),
                                combos=(dict(sw.combos) or None), overwrite=pol, constants=dict(sow_consts),
                                verbosity=0)
        else:
            other.harvest_combos(dict(sw.combos), overwrite=pol, constants=dict(sow_consts), verbosity=0)
        a = xyzpy.load_ds(os.path.join(d, "crop_side"))
        b = xyzpy.load_ds(os.path.join(d, "direct_side"))
        ok, why = ds_equal(b, a)
        if not ok:
            bad.append(("harvester-disk-differs", why))
        if os.path.exists(os.path.join(d, ".xyz-fc")):
            bad.append(("crop-not-cleaned-up", "complete harvest reap left the crop directory"))
    return rep, bad


def shifted_fn(ranks, kind, mode, **kw):
    """The same labelled function with every output moved by one (data that conflicts with labelled_fn's)."""
    out = c03.labelled_fn(ranks, kind, mode, **kw)
    return tuple(o + 1 for o in out) if isinstance(out, tuple) else out + 1


def harvester_prior_case(c, tmp, idx):
    """A Harvester that already holds data (identical to, or conflicting with, what the crop will deliver): the
    crop route crop.reap(...) and the direct route harvest_combos(...) must agree -- both raise or neither, the
    files end up equal -- with the overwrite policy given explicitly or LEFT AT ITS DEFAULT on both sides."""
    import xyzpy
    rng = c.rng
    sw = R.Sweep(rng, with_cases=False, max_args=3, max_vals=3, kind=0, allow_consts=False)
    nv = rng.randint(1, 2)
    kind = 10 + nv
    names = [f"v{j}" for j in range(nv)]
    fn_args = tuple(sw.combo_args)
    prior = rng.choice(["same", "conflict", "conflict", "disjoint-or-overlap"])
    pol_given = rng.choice(["default", "default", None, True, False])
    d = os.path.join(tmp, f"h{idx}")
    os.makedirs(d)

    def mk_runner(f):
        return xyzpy.Runner(functools.partial(f, sw.rank, kind, "plain"), tuple(names), fn_args=fn_args)
    sub = {a: sorted(rng.sample(list(v), rng.randint(1, len(v))), key=list(v).index) for a, v in sw.combos}
    prior_fn = c03.labelled_fn if prior == "same" else shifted_fn
    rep = {"stream": "harvester-with-prior-data", "sweep": sw.describe(), "n_vars": nv, "prior": prior,
           "prior_subgrid": {a: [str(x) for x in v] for a, v in sub.items()}, "overwrite": str(pol_given)}
    bad = []
    sides = {k: os.path.join(d, k) for k in ("crop_side", "direct_side")}
    for side in sides.values():
        xyzpy.Harvester(mk_runner(prior_fn), data_name=side).harvest_combos(dict(sub), verbosity=0)
    before = xyzpy.load_ds(sides["crop_side"])
    kw = {} if pol_given == "default" else {"overwrite": pol_given}
    # crop route
    h = xyzpy.Harvester(mk_runner(c03.labelled_fn), data_name=sides["crop_side"])
    crop = h.Crop(name="hc", parent_dir=d, batchsize=rng.randint(1, max(1, sw.n_settings())))
    crop.sow_combos(dict(sw.combos), verbosity=0)
    crop.grow_missing(verbosity=0)
    rep["batches"] = crop.num_batches
    crop_err = None
    try:
        crop.reap(**kw)
    except Exception as e:  # noqa
        crop_err = type(e).__name__
    # direct route
    other = xyzpy.Harvester(mk_runner(c03.labelled_fn), data_name=sides["direct_side"])
    direct_err = None
    try:
        other.harvest_combos(dict(sw.combos), verbosity=0, **kw)
    except Exception as e:  # noqa
        direct_err = type(e).__name__
    rep["crop_raised"], rep["direct_raised"] = crop_err, direct_err
    a, b = xyzpy.load_ds(sides["crop_side"]), xyzpy.load_ds(sides["direct_side"])
    if (crop_err is None) != (direct_err is None):
        bad.append(("harvester-crop-and-direct-disagree-on-conflict",
                    f"with existing data the crop route {'raised ' + crop_err if crop_err else 'raised nothing'} "
                    f"while the direct harvest {'raised ' + direct_err if direct_err else 'raised nothing'}"))
    ok, why = ds_equal(b, a)
    if not ok:
        bad.append(("harvester-disk-differs", "with existing data: " + why))
    if crop_err is not None:
        ok, why = ds_equal(before, a)
        if not ok:
            bad.append(("refused-harvest-changed-disk", why))
        if not os.path.exists(os.path.join(d, ".xyz-hc")):
            bad.append(("crop-deleted-after-failed-harvest", "the reap raised but the crop directory is gone"))
    elif os.path.exists(os.path.join(d, ".xyz-hc")):
        bad.append(("crop-not-cleaned-up", "complete harvest reap left the crop directory"))
    shutil.rmtree(d, ignore_errors=True)
    return rep, bad


RESOW_SNIPPET = r'''
import sys, os
sys.path.insert(0, os.environ["XV_VERIF"])
import xyzpy
crop = xyzpy.Crop(name=sys.argv[1], parent_dir=sys.argv[2])
crop.grow_missing(verbosity=0)
out = crop.reap()
import pickle
pickle.dump(out, open(sys.argv[3], "wb"))
'''


def resow_case(c, tmp, idx):
    """A crop folder left over from an earlier sow with ANOTHER function (nothing grown): the farmer is rebuilt
    with the corrected function, its crop re-created and re-sown ("you can safely resow"), grown and reaped --
    in this process or by a fresh process that only knows the crop's name.  The reap must be the direct run of
    the CURRENT runner."""
    import xyzpy
    rng = c.rng
    sw = R.Sweep(rng, with_cases=False, max_args=3, max_vals=3, kind=0, allow_consts=False)
    nv = rng.randint(1, 2)
    kind = 10 + nv
    names = [f"v{j}" for j in range(nv)]
    fn_args = tuple(sw.combo_args)
    kind_f = rng.choice(["Runner", "Harvester"])
    mode = rng.choice(["same-process", "fresh-process"])
    d = os.path.join(tmp, f"r{idx}")
    os.makedirs(d)
    bs = rng.randint(1, max(1, sw.n_settings()))

    def farmer(f):
        r = xyzpy.Runner(functools.partial(f, sw.rank, kind, "plain"), tuple(names), fn_args=fn_args)
        return r if kind_f == "Runner" else xyzpy.Harvester(r, data_name=os.path.join(d, "data"))
    rep = {"stream": "resow-after-changing-the-function", "farmer": kind_f, "sweep": sw.describe(), "n_vars": nv,
           "mode": mode, "batchsize": bs}
    bad = []
    same_object = rng.random() < 0.4
    rep["same_crop_object"] = same_object
    try:
        if same_object:
            # ONE Crop object: sow a first grid, look at its progress, then sow the corrected grid of the same
            # size through the same object (other values for the first argument): the reap must be the second
            cur = farmer(c03.labelled_fn)
            crop = cur.Crop(name="rc", parent_dir=d, batchsize=bs)
            a0, v0 = sw.combos[0]
            first = dict(sw.combos)
            first[a0] = list(reversed(v0)) if len(v0) > 1 else list(v0)
            crop.sow_combos(first, verbosity=0)
            _ = (crop.num_sown_batches, crop.missing_results(), str(crop))
            crop.sow_combos(dict(sw.combos), verbosity=0)
        else:
            old = farmer(shifted_fn)
            old.Crop(name="rc", parent_dir=d, batchsize=bs).sow_combos(dict(sw.combos), verbosity=0)
            cur = farmer(c03.labelled_fn)
            crop = cur.Crop(name="rc", parent_dir=d, batchsize=bs)
            crop.sow_combos(dict(sw.combos), verbosity=0)
        rep["batches"] = crop.num_batches
        if mode == "fresh-process":
            out = os.path.join(d, "out.pkl")
            p = subprocess.run([sys.executable, "-W", "ignore", "-c", RESOW_SNIPPET, "rc", d, out],
                               env=dict(os.environ, XV_VERIF=core.VERIF), capture_output=True, text=True, timeout=300)
            if p.returncode != 0:
                return rep, [("reloaded-process-failed", p.stderr[-300:])]
            import pickle
            reaped = pickle.load(open(out, "rb"))
        else:
            crop.grow_missing(verbosity=0)
            reaped = crop.reap()
        direct = xyzpy.Runner(functools.partial(c03.labelled_fn, sw.rank, kind, "plain"), tuple(names),
                              fn_args=fn_args).run_combos(dict(sw.combos), verbosity=0)
    except Exception as e:  # noqa
        shutil.rmtree(d, ignore_errors=True)
        return rep, [("farmer-crop-raised", f"{type(e).__name__}: {str(e)[:200]}")]
    ok, why = ds_equal(direct, reaped)
    if not ok:
        bad.append(("resown-crop-differs-from-direct-run", why + " (a re-sown crop must run the farmer's current "
                    "function)"))
    if kind_f == "Harvester":
        ok, why = ds_equal(direct, xyzpy.load_ds(os.path.join(d, "data")))
        if not ok:
            bad.append(("harvester-disk-differs", "after a re-sow: " + why))
    shutil.rmtree(d, ignore_errors=True)
    return rep, bad


def two_crops_case(c, tmp, idx):
    """ONE harvester that already holds data in memory sows TWO crops (disjoint parts of a grid); both are grown
    and reaped by crops reloaded BY NAME (their farmer is the copy pickled at sow time, with the data it held
    then).  Afterwards the file must hold the first harvest and both crops' data, as direct harvests would."""
    import xyzpy
    rng = c.rng
    d = os.path.join(tmp, f"t{idx}")
    os.makedirs(d)
    fresh = rng.random() < 0.3
    rep = {"stream": "two-crops-of-one-harvester-reaped-by-name", "fresh_process": fresh}

    def fn(a, b):
        return 100 * a + b

    def mk(path):
        return xyzpy.Harvester(xyzpy.Runner(fn, "out", fn_args=("a", "b")), data_name=path)
    parts = [{"a": [1], "b": [5, 6]}, {"a": [2, 3], "b": [5, 6]}, {"a": [4], "b": [5, 6]}]
    rng.shuffle(parts)
    bad = []
    try:
        h = mk(os.path.join(d, "crop_side"))
        h.harvest_combos(parts[0], verbosity=0)                    # the harvester now holds data in memory
        for k in (1, 2):
            h.Crop(name=f"tc{k}", parent_dir=d, batchsize=1).sow_combos(parts[k], verbosity=0)
        for k in rng.sample([1, 2], 2):
            if fresh:
                out = os.path.join(d, f"out{k}.pkl")
                p = subprocess.run([sys.executable, "-W", "ignore", "-c", RESOW_SNIPPET, f"tc{k}", d, out],
                                   env=dict(os.environ, XV_VERIF=core.VERIF), capture_output=True, text=True,
                                   timeout=300)
                if p.returncode != 0:
                    return rep, [("reloaded-process-failed", p.stderr[-300:])]
            else:
                crop = xyzpy.Crop(name=f"tc{k}", parent_dir=d)
                crop.grow_missing(verbosity=0)
                crop.reap()
        other = mk(os.path.join(d, "direct_side"))
        for part in parts:
            other.harvest_combos(part, verbosity=0)
        a, b = xyzpy.load_ds(os.path.join(d, "crop_side")), xyzpy.load_ds(os.path.join(d, "direct_side"))
    except Exception as e:  # noqa
        shutil.rmtree(d, ignore_errors=True)
        return rep, [("farmer-crop-raised", f"{type(e).__name__}: {str(e)[:200]}")]
    ok, why = ds_equal(b, a)
    if not ok:
        bad.append(("harvester-disk-differs", "two crops of one harvester reaped by name: " + why))
    shutil.rmtree(d, ignore_errors=True)
    return rep, bad


def run(tier, seed):
    c = core.Check("C06", tier, seed)
    gen_st = core.regen()
    b = core.build(PROP_FILE)
    c.cov["translator"] = {k: v for k, v in gen_st.items() if k in ("GenFarmer", "GenCrash")}
    c.cov["build"] = {"ok": b["ok"], "failed_file": b["failed_file"], "wall_s": round(b.get("wall_s", 0), 1)}
    for u in ("GenFarmer", "GenCrash"):
        if u in gen_st and not gen_st[u]["ok"]:
            c.obligation_broken(f"translator {u}", gen_st[u]["detail"])
    if not b["ok"]:
        c.obligation_broken(f"Coq build of {b['failed_file']}", b["log_tail"][-1200:])
    n = 150 if tier == "quick" else 1200
    if c.broken:
        n = 500
    tmp = core.scratch_dir("xv-c06-")
    try:
        for i in range(n):
            rep, bad = one_case(c, tmp, i)
            c.case(json.dumps(rep, sort_keys=True, default=str), nontrivial=rep.get("batches", 0) >= 2,
                   sample=rep if i % 25 == 0 else None)
            c.count("farmer", rep["farmer"]); c.count("reload", rep["reload"]); c.count("to_df", rep["to_df"])
            c.count("arrays", rep["arrays"]); c.count("t_source", str(rep["t_source"])); c.count("shuffle", bool(rep["shuffle"]))
            for key, msg in bad:
                c.violation(key, msg, rep)
            shutil.rmtree(os.path.join(tmp, f"f{i}"), ignore_errors=True)
        for i in range(30 if tier == "quick" and not c.broken else 200):
            rep, bad = harvester_prior_case(c, tmp, i)
            c.case(json.dumps(rep, sort_keys=True, default=str), nontrivial=rep.get("batches", 0) >= 2,
                   sample=rep if i % 10 == 0 else None)
            c.count("farmer", "Harvester/prior-data"); c.count("prior", rep["prior"]); c.count("overwrite", rep["overwrite"])
            c.count("prior_outcome", "raised" if rep["direct_raised"] else "merged")
            for key, msg in bad:
                c.violation(key, msg, rep)
        for i in range(6 if tier == "quick" and not c.broken else 40):
            rep, bad = two_crops_case(c, tmp, i)
            c.case(json.dumps(rep, sort_keys=True) + f"#{i}", nontrivial=True, sample=rep if i == 0 else None)
            c.count("farmer", "Harvester/two-crops"); c.count("two_crops_fresh_process", rep["fresh_process"])
            for key, msg in bad:
                c.violation(key, msg, rep)
        for i in range(16 if tier == "quick" and not c.broken else 120):
            rep, bad = resow_case(c, tmp, i)
            c.case(json.dumps(rep, sort_keys=True, default=str), nontrivial=rep.get("batches", 0) >= 2,
                   sample=rep if i % 8 == 0 else None)
            c.count("farmer", rep["farmer"] + "/resow"); c.count("resow_mode", rep["mode"])
            for key, msg in bad:
                c.violation(key, msg, rep)
    finally:
        R.shutdown_loky()
        shutil.rmtree(tmp, ignore_errors=True)
    c.cov["disagreements_checked"] = 0
    c.notes.append("the dynamic content of this property is compared on the real objects (crop side vs direct side); "
                   "the Coq side proves the description wiring and composes C04 with the labelling model")
    c.assumptions = ["the function is deterministic"]
    return c.finish(b, PROP_FILE, TRUSTED, RULE)


def replay(path):
    return core.generic_replay(run, path)
