"""C20 -- a number formatted with its error reads back as that number and that error.

Every case is a pair of binary64 numbers (x, err), err > 0.  It is
  (a) run through the real xyzpy.utils.format_number_with_error (imported: follows PYTHONPATH),
  (b) compared STRING FOR STRING with the binary64 instance of Model/DecFmt.v evaluated inside
      Coq (inputs passed as sign, odd integer mantissa, binary exponent -- exact),
  (c) checked against the property statement by an oracle that reads the produced string by the
      usual convention with fractions.Fraction, independently of the model.
Before the cases, the table of 10**k used by the model (Model/DecFmtPow.v) is compared with the
running CPython for every k in -324 .. 309.
"""
import json
import math
import re
from fractions import Fraction as Fr

from harness import core

PROP_FILE = "Props/C20.v"
IMPORTS = "Prelude DecFmt DecFmtFloat"
FLOAT_VO = "Model/DecFmtFloat.vo"
TRUSTED = [
    "Coq 8.16.1 kernel (coqc, full .vo build); vm_compute for the refutation witnesses, the check of the "
    "10**k table (C20_pow10_table), the non-vacuity Examples and for evaluating cases",
    "Print Assumptions reports no axiom for any C20 theorem (Q, Z, list, string only)",
    "hypotheses of C20_branches / C20_full (premises, not axioms): H_val (magnitudes are non-negative), "
    "H_div (binary64 division by a positive number keeps the sign bit, maps 0 to 0 and has relative error "
    "<= 2^-52 when the exact quotient is in [2^-1022, 2^1023]) -- IEEE-754 division accuracy is ASSUMED, "
    "not derived from the PrimFloat specification; H_pow (10**k is 10^k within 2^-53 for -307 <= k <= 308) "
    "is assumed for abstract operations and PROVED by computation for the table Model/DecFmtPow.v "
    "(C20_pow10_table); C20_full_table instantiates everything with exact division and that table",
    "reading of CPython: f\"{v:.Ne}\" and f\"{v:.Nf}\" are correctly rounded (round-half-even on the exact "
    "binary value, dtoa); x / 10**k for k >= 0 converts the exact int 10**k to binary64 by correct rounding "
    "(OverflowError when it does not fit), for k < 0 divides by libm pow(10.0, k); both are read from the "
    "table Model/DecFmtPow.v, compared with the running interpreter for every k on each run",
    "binary64 executions of the model use the kernel primitives PrimFloat (div, opp, of_uint63, ldshiftexp, "
    "frshiftexp, normfr_mantissa, classify) and Uint63; no theorem mentions them and no FloatAxioms "
    "specification is used",
    "translator harness/translator/gen_fmt.py + pyz.py (Python ast -> Gallina, fail closed): the whole body "
    "of format_number_with_error; bridge Bridge/BridgeFmt.v (gen_format = format for every operations record)",
    "correspondence harness: harness/props/c20.py (generators, float <-> (mantissa, exponent) encoding, "
    "Fraction oracle)",
    "NOT COVERED by C20_full: subnormal err (correspondence and oracle only)",
]
RULE = ("pairs (x, err) of binary64 numbers: uniform = log-uniform |x| in [1e-300, 1e300] both signs with "
        "err/|x| log-uniform in [1e-12, 1e12]; errb = err mantissa in [9.94, 10.0] (incl. the floats around "
        "9.95, 9.995, 9.9999995 and below 10) in random decades against x at fixed ratios; xpow = x within 3 "
        "ulps of a power of ten or of the 7-digit rounding boundary 9.9999995eN; ratio = err within 3 ulps of "
        "|x|/10 and |x|; ties = exactly representable decimal ties (0.125, 1.25, 2.5, 0.375 ...) for x and err; "
        "hide = |x| in [1e-3, 1e3] around the hide-exponent switch; zero = x = +-0 with any err; subn = "
        "subnormal err; over = err in [9.9999995e307, largest float] (scaling exponent capped at 308), "
        "incl. the floats around the cap threshold and the two-digit ties 1.05e308 .. 1.75e308; corpus = fixed "
        "regression inputs. distinct = distinct (x, err) bit patterns; non-trivial = x != 0 and err normal "
        "(inside the domain of C20_full)")

DBL_MIN = 2.2250738585072014e-308
OVER = float(Fr(99999995, 10 ** 7) * 10 ** 307)        # about 9.9999995e307
SLACK = Fr(1, 2 ** 51)


# ------------------------------------------------------------------ floats <-> exact
def float_me(f):
    """abs(f) = M * 2**E exactly, M odd (or M = E = 0)."""
    if f == 0:
        return 0, 0
    m, e = math.frexp(abs(f))
    M, E = int(m * 2 ** 53), e - 53
    while M % 2 == 0:
        M //= 2
        E += 1
    return M, E


def is_neg(f):
    return math.copysign(1.0, f) < 0


def coq_float_args(f):
    m, e = float_me(f)
    return f"{'true' if is_neg(f) else 'false'} {m} ({e})"


def nudge(f, steps):
    if steps == 0:
        return f
    return math.nextafter(f, math.inf if steps > 0 else -math.inf, steps=abs(steps))


# ------------------------------------------------------------------ the oracle (property statement)
PAT = re.compile(r"^(-?)(\d+)(?:\.(\d+))?\((\d+)\)(?:e([+-]?\d+))?$")


def read_back(s):
    """(X, E, u) denoted by the string under the usual convention, or None."""
    m = PAT.match(s)
    if not m:
        return None
    sign, ip, fp, ed, ex = m.groups()
    fp = fp or ""
    k = int(ex) if ex is not None else 0
    u = Fr(10) ** (k - len(fp))
    X = int(ip + fp) * u
    if sign:
        X = -X
    return X, int(ed) * u, u


def round2(err):
    """err (Fraction > 0) rounded half-even to two significant figures: (value, unit)."""
    e = 0
    while Fr(10) ** (e + 1) <= err:
        e += 1
    while Fr(10) ** e > err:
        e -= 1
    u = Fr(10) ** (e - 1)
    q = err / u
    m = math.floor(q)
    r = q - m
    if r > Fr(1, 2) or (r == Fr(1, 2) and m % 2 == 1):
        m += 1
    if m == 100:
        m, u = 10, u * 10
    return m * u, u


def show(fr):
    try:
        return repr(float(fr))
    except OverflowError:
        return f"{fr.numerator}/{fr.denominator}" if fr.denominator != 1 else str(fr.numerator)[:12] + "..."


def oracle(x, err, out):
    """Failures of the property statement on one observation: list of (key, message)."""
    if out[0] != 0:
        name = {4: "OverflowError", 5: "ZeroDivisionError"}.get(out[1], "exception")
        return [("raises-exception", f"{name} instead of a string")]
    rb = read_back(out[1])
    if rb is None:
        return [("unparseable", f"{out[1]!r} is not of the form [-]digits[.digits](digits)[e+-digits]")]
    X, E, u = rb
    fx, fe = Fr(x), Fr(err)
    bad = []
    if not (10 * u <= E <= 99 * u) or abs(E - fe) > u / 2 + SLACK * fe:
        bad.append(("error-digits-wrong",
                    f"{out[1]!r} denotes error {show(E)} (unit {show(u)}) for err = {err!r}"))
    if abs(X - fx) > u / 2 + SLACK * abs(fx):
        bad.append(("value-digits-wrong",
                    f"{out[1]!r} denotes value {show(X)} (unit {show(u)}) for x = {x!r}"))
    return bad


def observe(x, err):
    from xyzpy.utils import format_number_with_error
    try:
        s = format_number_with_error(x, err)
    except OverflowError:
        return [1, 4]
    except ZeroDivisionError:
        return [1, 5]
    except Exception:  # noqa
        return [1, 9]
    if not isinstance(s, str):
        return [1, 9]
    return [0, s]


# ------------------------------------------------------------------ the table of 10**k
def pow10_obs(k):
    try:
        f = float(10 ** k)
    except OverflowError:
        return [1, 4]
    if f == 0.0:
        return [1, 5]
    m, e = float_me(f)
    return [0, [0, m, e]]


def check_pow10(c):
    ks = list(range(-324, 310))
    pairs = [(f"enc_pow10 ({k})", pow10_obs(k)) for k in ks]
    bad, _ = core.run_cases(IMPORTS, pairs, chunk=700, jobs=1)
    c.cov["pow10_table_entries_checked"] = len(ks)
    c.cov["pow10_table_mismatches"] = [ks[i] for i in bad]
    if bad:
        c.obligation_broken("table Model/DecFmtPow.v differs from the running CPython's 10**k",
                            {"k": [ks[i] for i in bad][:20],
                             "python": {str(ks[i]): pow10_obs(ks[i]) for i in bad[:5]}})


# ------------------------------------------------------------------ generators
def log_uniform(rng, lo, hi):
    return 10.0 ** rng.uniform(lo, hi)


def rand_x(rng, lo=-300.0, hi=300.0):
    x = rng.uniform(1.0, 10.0) * 10.0 ** math.floor(rng.uniform(lo, hi))
    x = min(max(x, 1e-300), 1e300)
    return -x if rng.random() < 0.5 else x


CORPUS = [
    (0.1542412, 0.0626653), (-128124123097.0, 6424.0), (99.9, 9.96), (99.9, 9.94), (1e22, 1e10),
    (0.0, 0.5), (-0.0, 0.5), (-0.004, 0.5), (1e300, 1e307), (1e-300, 1e-288), (1e-300, 1e-312),
    (5.0, 9.96), (0.5, 9.96), (12.0, 1.2), (12.0, 1.1999999), (99.99999, 0.01), (9.9999996, 0.5),
    (0.99999996, 0.05), (1.0, 0.0995), (1.0, 0.09949999), (123.456, 99.6), (1234.5, 99.4),
    (0.0, 1e308), (1.5e308, 1.2e308), (1e300, 1e308), (0.0, 1.7976931348623157e308),
    (2.5e-7, 1.25e-8), (3.0, 0.1), (3.0, 1.0), (3.0, 10.0), (3.0, 100.0), (-3.0, 1e12), (7.0, 7e-12),
]

BOUNDARY_MANTISSAS = ["9.94", "9.949", "9.9499999999", "9.95", "9.9500000001", "9.951", "9.96", "9.99",
                      "9.994", "9.995", "9.996", "9.9999", "9.99999949", "9.9999995", "9.99999951",
                      "9.99999999", "0.995", "0.9949", "0.9951", "99.5", "99.49", "99.51"]
RATIOS = [0.0, 1e-12, 1.1e-9, 3e-5, 0.00101, 0.0099, 0.0101, 0.031, 0.0999, 0.1, 0.1001, 0.33, 0.99, 1.0,
          1.01, 3.3, 9.94, 9.96, 10.0, 10.04, 33.0, 99.4, 99.6, 101.0, 1234.5, 1e6, 1e11, 9.9e11]
TIES = [0.125, 1.25, 12.5, 0.375, 3.75, 2.5, 0.25, 0.5, 1.5, 0.0625, 0.625, 6.25, 0.875, 8.75, 1.125,
        0.15625, 4.5, 45.0, 99.5, 9.5, 0.96875, 1.0, 10.0, 100.0, 2.5e-7, 1.25e10, 3.5, 35.0, 0.35]


def gen_cases(tier, rng, hard):
    """[(stream, x, err)] -- everything derives from rng."""
    big = tier == "thorough" or hard
    n = {"uniform": 2600 if big else 110, "errb": 1500 if big else 110, "xpow": 900 if big else 70,
         "ratio": 700 if big else 50, "ties": 700 if big else 60, "hide": 700 if big else 60,
         "zero": 260 if big else 26, "subn": 80 if big else 8, "over": 500 if big else 50}
    out = [("corpus", float(x), float(e)) for x, e in CORPUS]
    for _ in range(n["uniform"]):
        x = rand_x(rng)
        err = abs(x) * log_uniform(rng, -12, 12)
        out.append(("uniform", x, err))
    # err mantissa at the two-digit rounding boundary
    for _ in range(n["errb"]):
        if rng.random() < 0.7:
            m = Fr(rng.choice(BOUNDARY_MANTISSAS))
        else:
            m = Fr(rng.uniform(9.94, 10.0))
        j = rng.choice([0, 0, 0, 1, -1, 2, -2]) if rng.random() < 0.6 else rng.randint(-290, 290)
        err = nudge(float(m * Fr(10) ** j), rng.choice([0, 0, 1, -1, 2, -2, 3]))
        r = rng.choice(RATIOS)
        x = err / r if r else 0.0
        if x != 0.0 and not (1e-300 <= abs(x) <= 1e300):
            x = 0.0
        if rng.random() < 0.4:
            x = -x
        out.append(("errb", x, err))
    # x next to a power of ten / to the 7-digit rounding boundary
    for _ in range(n["xpow"]):
        j = rng.randint(-4, 4) if rng.random() < 0.5 else rng.randint(-299, 299)
        base = Fr(10) ** j if rng.random() < 0.6 else Fr(99999995, 10 ** 7) * Fr(10) ** j
        x = nudge(float(base), rng.randint(-3, 3))
        r = rng.choice(RATIOS[1:])
        err = abs(x) * r if rng.random() < 0.7 else abs(x) * log_uniform(rng, -12, 12)
        if rng.random() < 0.4:
            x = -x
        out.append(("xpow", x, err))
    # err next to |x| / 10 and |x|
    for _ in range(n["ratio"]):
        x = rand_x(rng, -3, 4) if rng.random() < 0.6 else rand_x(rng)
        base = abs(x) / 10 if rng.random() < 0.5 else abs(x)
        if rng.random() < 0.3:
            base = abs(x) * rng.choice([0.1, 0.0999999, 0.1000001, 0.999999, 1.000001])
        out.append(("ratio", x, nudge(base, rng.randint(-3, 3))))
    # exact decimal ties
    for _ in range(n["ties"]):
        x = rng.choice(TIES) * 10.0 ** rng.choice([0, 0, 0, 1, -1, 2, -2, 5, -6])
        err = rng.choice(TIES) * 10.0 ** rng.choice([0, 0, -1, -1, -2, 1, -3, 2])
        if rng.random() < 0.4:
            x = -x
        out.append(("ties", x, err))
    # around the hide-exponent switch
    for _ in range(n["hide"]):
        x = rand_x(rng, -3, 3)
        out.append(("hide", x, abs(x) * log_uniform(rng, -4, 3)))
    # x = 0 (any err)
    for _ in range(n["zero"]):
        x = 0.0 if rng.random() < 0.6 else -0.0
        if rng.random() < 0.5:
            err = log_uniform(rng, -300, 300) * rng.uniform(1, 10)
        else:
            err = float(Fr(rng.choice(BOUNDARY_MANTISSAS)) * Fr(10) ** rng.randint(-12, 12))
        out.append(("zero", x, min(err, 9e307)))
    # subnormal err inside the stated domain (x near 1e-300) and with x = 0
    for _ in range(n["subn"]):
        if rng.random() < 0.7:
            x = rng.uniform(1, 10) * 10.0 ** rng.randint(-300, -297)
            err = x * log_uniform(rng, -12, -8.5)
            if rng.random() < 0.5:
                x = -x
        else:
            x, err = 0.0, rng.uniform(1, 10) * 10.0 ** rng.randint(-323, -309)
        out.append(("subn", x, err))
    # err within a factor ten of the largest float (the scaling exponent is capped at 308)
    fmax = 1.7976931348623157e308
    for x in (0.0, -0.0, 1e300, -3.3e297, 1.01e296):
        for e in (nudge(OVER, -2), nudge(OVER, -1), OVER, nudge(OVER, 1), 1e308, 1.2345e308,
                  nudge(fmax, -1), fmax, 9.95e307, 1.05e308, nudge(1.05e308, 1), 1.15e308, 1.25e308):
            out.append(("over", x, e))
    for _ in range(n["over"]):
        e = rng.uniform(0.94, 1.0) * 1e308 if rng.random() < 0.4 else rng.uniform(1.0, 1.7976931348623157) * 1e308
        if rng.random() < 0.2:
            e = nudge(float(Fr(rng.choice(["1.05", "1.15", "1.25", "1.35", "1.45", "1.55", "1.65", "1.75"]))
                            * 10 ** 308), rng.randint(-2, 2))
        e = min(e, fmax)
        r = rng.random()
        x = 0.0 if r < 0.3 else rng.uniform(1, 10) * 10.0 ** rng.randint(296, 299) * rng.choice([1, -1])
        out.append(("over", x, e))
    seen, uniq = set(), []
    for st, x, e in out:
        if not (e > 0.0 and math.isfinite(e) and math.isfinite(x)):
            continue
        if st != "corpus" and x != 0 and not (1e-300 <= abs(x) <= 1e300 and 1e-12 <= e / abs(x) <= 1e12):
            continue                       # outside the quantified domain
        key = (x.hex(), e.hex())
        if key not in seen:
            seen.add(key)
            uniq.append((st, x, e))
    return uniq


# ------------------------------------------------------------------ running
def decade(v):
    return "0" if v == 0 else str(int(math.floor(math.log10(abs(v)) / 50.0)) * 50)


def run_stream(c, cases, tier):
    pairs, metas = [], []
    for st, x, err in cases:
        out = observe(x, err)
        fails = oracle(x, err, out)
        subn, over = err < DBL_MIN, err >= OVER
        c.case((x.hex(), err.hex()), nontrivial=(x != 0 and not subn),
               sample={"stream": st, "x": x.hex(), "err": err.hex(), "x_repr": repr(x), "err_repr": repr(err),
                       "out": out[1] if out[0] == 0 else f"raised (tag {out[1]})"})
        c.count("stream", st)
        c.count("err_class", "subnormal" if subn else "capped-exponent-zone" if over else "normal")
        c.count("x_decade_50", decade(x))
        c.count("x", "zero" if x == 0 else "negative" if x < 0 else "positive")
        if x != 0:
            c.count("log10_ratio", int(math.floor(math.log10(err / abs(x)) / 4.0)) * 4)
        if out[0] == 0:
            c.count("branch", "suffix" if "e" in out[1] else "hidden")
            rb = read_back(out[1])
            if rb is not None:
                c.count("decimals_shown", len(out[1].split("(")[0].partition(".")[2]))
                if (rb[1], rb[2]) != round2(Fr(err)):
                    c.count("double_rounding", "error digits differ from the direct rounding (within slack)")
        else:
            c.count("branch", "raised")
        for key, msg in fails:
            c.violation(key, msg, {"x": x.hex(), "err": err.hex(), "x_repr": repr(x), "err_repr": repr(err),
                                   "observed": out, "stream": st})
        pairs.append((f"fmt_case {coq_float_args(x)} {coq_float_args(err)}", out))
        metas.append((st, x, err, out, fails))
    bad, info = core.run_cases(IMPORTS, pairs, chunk=(250 if len(pairs) > 1500 else 60), jobs=12)
    shown = 0
    for i in bad:
        st, x, err, out, fails = metas[i]
        c.count("model_vs_impl", "differ")
        if not fails and shown < 12:
            shown += 1
            try:
                mv = core.eval_model(IMPORTS, [pairs[i][0]])[0]
            except RuntimeError as e:
                mv = "(evaluation failed) " + str(e)[-200:]
            c.obligation_broken("correspondence Model/DecFmt.v (binary64 instance) vs format_number_with_error",
                                {"stream": st, "x": x.hex(), "err": err.hex(), "x_repr": repr(x),
                                 "err_repr": repr(err), "implementation": out, "model": mv})
    return len(bad), info


def gen_vs_model_diff(cases):
    """Inputs (from the case list) on which the regenerated gen_format and the model differ,
    both evaluated inside Coq on the binary64 instance.  Needs Gen/GenFmt.v to compile."""
    import fcntl
    with open(core.LOCK, "w") as lk:
        fcntl.flock(lk, fcntl.LOCK_EX)
        core.ensure_makefile()
        rc, log = core.sh("timeout 600 make -j4 Gen/GenFmt.vo", timeout=630, cwd=core.COQ)
    if rc != 0:
        return {"evaluated": 0, "note": "Gen/GenFmt.v does not compile: " + log[-300:]}
    sel = cases[:160]
    pairs = []
    for st, x, err in sel:
        a = f"(mkfloat {coq_float_args(x)}) (mkfloat {coq_float_args(err)})"
        pairs.append((f"vbool (val_eqb (enc_fmt (gen_format ops_float {a})) (enc_fmt (format ops_float {a})))", True))
    try:
        bad, _ = core.run_cases(IMPORTS + " GenFmt", pairs, chunk=40, jobs=8)
    except RuntimeError as e:
        return {"evaluated": 0, "note": "evaluation failed: " + str(e)[-300:]}
    return {"evaluated": len(sel), "differ": len(bad),
            "inputs": [{"x": sel[i][1].hex(), "err": sel[i][2].hex(), "x_repr": repr(sel[i][1]),
                        "err_repr": repr(sel[i][2])} for i in bad[:8]]}


def build_float_instance():
    import fcntl
    with open(core.LOCK, "w") as lk:
        fcntl.flock(lk, fcntl.LOCK_EX)
        core.ensure_makefile()
        return core.sh(f"timeout 900 make -j4 {FLOAT_VO}", timeout=930, cwd=core.COQ)


def coqchk():
    """Independent re-check of the compiled closure of Props/C20.vo (thorough tier)."""
    import fcntl
    with open(core.LOCK, "w") as lk:
        fcntl.flock(lk, fcntl.LOCK_EX)
        cmd = "timeout 840 coqchk -silent -o -R . XV XV.Props.C20"
        rc, out = core.sh(cmd, timeout=870, cwd=core.COQ)
    return rc, out, f"cd {core.COQ} && {cmd}"


def run(tier, seed):
    c = core.Check("C20", tier, seed)
    gen = core.regen()
    b = core.build(PROP_FILE)
    c.cov["translator"] = gen.get("GenFmt")
    c.cov["build"] = {"ok": b["ok"], "failed_file": b["failed_file"], "wall_s": round(b.get("wall_s", 0), 1)}
    if not gen.get("GenFmt", {}).get("ok"):
        c.obligation_broken("translator GenFmt", gen.get("GenFmt", {}).get("detail", "unit missing"))
    if not b["ok"]:
        c.obligation_broken(f"Coq build of {b['failed_file']}", b["log_tail"][-1200:])
    rc, log = build_float_instance()
    if rc != 0:
        c.obligation_broken(f"Coq build of {FLOAT_VO}", log[-1200:])
        c.notes.append("the executable model could not be built: oracle only")
    hard = bool(c.broken)          # an obligation is broken: search the large streams
    cases = gen_cases(tier, c.rng, hard)
    if rc == 0 and not b["ok"] and gen.get("GenFmt", {}).get("ok"):
        c.cov["gen_vs_model_diff"] = gen_vs_model_diff(cases)
    ran = False
    if rc == 0:
        try:
            check_pow10(c)
            nbad, info = run_stream(c, cases, tier)
            c.cov["disagreements_checked"] = nbad
            c.cov["case_files"] = info.get("files")
            ran = True
        except RuntimeError as e:
            c.obligation_broken("evaluation of the model inside Coq failed", str(e)[-1200:])
    if not ran and c.evaluations == 0:
        for st, x, err in cases:
            out = observe(x, err)
            c.case((x.hex(), err.hex()), nontrivial=x != 0)
            for key, msg in oracle(x, err, out):
                c.violation(key, msg, {"x": x.hex(), "err": err.hex(), "observed": out, "stream": st})
    if tier == "thorough" and b["ok"]:
        crc, cout, ccmd = coqchk()
        b["cmds"].append(ccmd)
        m = re.search(r"\* Axioms:\s*(.*?)\n\s*\n", cout, re.S)
        c.cov["coqchk"] = {"ok": crc == 0, "axioms": (m.group(1).strip() if m else "?")}
        if crc != 0:
            c.obligation_broken("coqchk of Props/C20.vo", cout[-1200:])
    c.cov["exhaustive"] = False
    c.cov["searched_large_streams"] = bool(tier == "thorough" or hard)
    c.assumptions = [
        "binary64 division has relative error <= 2^-52 in the normal range, keeps the sign and maps 0 to 0 (H_div)",
        "CPython formats floats by correct rounding (half-even on the exact binary value)",
        "10**k as a float equals the table Model/DecFmtPow.v (compared with the interpreter on this run)",
        "err is a normal binary64 (C20_full); subnormal err: correspondence and oracle only",
    ]
    c.notes.append("the hide-exponent test (x_exponent in (0, -1), err < abs(x / 10)) only chooses between two "
                   "correct spellings: C20_branches holds whatever it returns; edits there are caught by the "
                   "bridge and the string-exact correspondence, not by the reading oracle")
    return c.finish(b, PROP_FILE, TRUSTED, RULE)


def replay(path):
    r = json.load(open(path))
    items = []
    if "replay" in r:
        items.append(r["replay"])
    for bo in r.get("broken_obligations", []):
        d = bo.get("detail")
        if isinstance(d, dict) and "x" in d and "err" in d:
            items.append(d)
        for d in bo.get("more_details", []) or []:
            if isinstance(d, dict) and "x" in d and "err" in d:
                items.append(d)
    if not items:
        print(json.dumps(r, indent=1)[:3000])
        return 1
    rc = 0
    for it in items:
        x, err = float.fromhex(it["x"]), float.fromhex(it["err"])
        out = observe(x, err)
        fails = oracle(x, err, out)
        print(f"format_number_with_error({x!r}, {err!r}) -> {out}")
        for k, m in fails:
            print("FAILS:", k, m)
            rc = 1
        if "model" in it:
            print("model:", it["model"])
            if out[0] == 0 and json.dumps(out[1]) not in it["model"]:
                print("DIFFERS from the model")
                rc = 1
    return rc
