"""C07 -- batches partition the work exactly and honour the requested size or count."""
import json
import math
import os
import shutil

from harness import core
from harness.impl import crops as C

PROP_FILE = "Props/C07.v"
TRUSTED = [
    "Coq 8.16.1 kernel (coqc, full .vo build); vm_compute only for the two non-vacuity Examples and for evaluating cases",
    "translator harness/translator/gen_batch.py + pyz.py (Python ast -> Gallina, fail closed): "
    "Crop.choose_batch_settings, Sower.__call__/save_batch/__exit__",
    "translator gen_stages.py (description wiring): the combos / cases terms handed to choose_batch_settings, "
    "saved by prepare -> save_info and enumerated by the sowing runner in sow_combos and sow_cases "
    "(Bridge/BridgeStages.v; C07_planner_counts_what_is_sown)",
    "bridge lemmas Bridge/BridgeBatch.v tie Gen to Model/Batch.v; math.ceil(n / s) is modelled as exact integer "
    "ceiling (equal to the float computation for n < 2^53)",
    "correspondence harness: harness/props/c07.py + harness/impl/crops.py (reads the pickled batch files)",
    "modelled not verified: pickle round trip of batch files, os/glob, dict equality of kwargs",
]
RULE = ("configurations (N, batchsize | num_batches | neither, input kind grid/cases/cases x grid (the latter through sow_combos or sow_cases), shuffle, "
        "constants, farmer) ; quick: every N in 1..48 with a seeded third of the size/count options, thorough: "
        "all N in 1..48 x batchsize 1..N+1 x num_batches 1..N+2; distinct = distinct (N, size, count, kind, "
        "shuffle) tuples; non-trivial = more than one setting or an error outcome")


def gen_configs(tier, rng):
    cfgs = []
    for n in range(1, 49):
        opts = [("bs", s) for s in range(1, n + 2)] + [("nb", k) for k in range(1, n + 3)] + [("none", None)]
        if tier == "quick":
            keep = [o for o in opts if rng.random() < 0.34 or o[1] in (1, n, n + 1, None)]
        else:
            keep = opts
        for how, v in keep:
            kind = rng.choice(["grid", "grid", "cases", "casesgrid"])
            shuffle = rng.choice([False, False, True, rng.randint(2, 99)])
            extras = rng.choice(["none", "none", "constants", "runner", "runner-override"])
            cfgs.append({"n": n, "how": how, "v": v, "kind": kind, "shuffle": shuffle, "extras": extras,
                         "dims_seed": rng.randint(0, 10 ** 6),
                         # cases x grid goes through either sowing entry point
                         "entry": rng.choice(["sow_combos", "sow_cases"]) if kind == "casesgrid" else "auto",
                         # the batch request is made when the crop is created, or with the sow call
                         "where": rng.choice(["ctor", "ctor", "sow"]),
                         # a list of cases over ONE argument may name it by a bare string and list bare values
                         "bare": kind == "cases" and rng.random() < 0.35,
                         "factory": rng.choice([None, "Runner", "Harvester", "Sampler"]) if extras in ("runner", "runner-override") else None,
                         "resow_after_delete": rng.random() < 0.2 and not (how == "nb" and v is not None and v > n)})
    # invalid requests (rejected by the code, error branch of the model)
    for how, v in [("bs", 0), ("bs", -2), ("nb", 0), ("nb", -1)]:
        cfgs.append({"n": 5, "how": how, "v": v, "kind": "grid", "shuffle": False, "extras": "none", "dims_seed": 1})
    return cfgs


def _fn(**kw):
    return 0


def build_inputs(cfg):
    import random
    rng = random.Random(cfg["dims_seed"])
    n = cfg["n"]
    if cfg["kind"] == "grid":
        combos, cases = C.make_grid(C.factor_shapes(n, rng)), None
    elif cfg["kind"] == "cases" and cfg.get("bare"):
        combos = []
        cases = [{"alpha": (i * 7) % 101} for i in range(n)]
    elif cfg["kind"] == "cases":
        combos = []
        cases = [{"k": i, "j": (i * 7) % 5} for i in range(n)]
    else:
        divs = [d for d in range(1, n + 1) if n % d == 0]
        nc = rng.choice(divs)
        cases = [{"k": i, "j": (i * 3) % 4} for i in range(nc)]
        combos = C.make_grid(C.factor_shapes(n // nc, rng, max_args=2))
    return combos, cases


def observe(cfg, tmp):
    """Run the real sow and read back what is on disk."""
    import xyzpy
    combos, cases = build_inputs(cfg)
    bs = cfg["v"] if cfg["how"] == "bs" else None
    nb = cfg["v"] if cfg["how"] == "nb" else None
    sow_consts = {"c1": 7} if cfg["extras"] == "constants" else None
    farmer = None
    all_consts = dict(sow_consts or {})
    if cfg["extras"] == "runner":
        farmer = xyzpy.Runner(_fn, var_names="out", constants={"rc": 3}, resources={"rr": 4})
        all_consts = {"rr": 4, "rc": 3}
    if cfg["extras"] == "runner-override":
        # a constant given at sow time overrides the runner's own, exactly as in a direct run_combos(constants=...)
        farmer = xyzpy.Runner(_fn, var_names="out", constants={"rc": 3, "rd": 1}, resources={"rr": 4})
        sow_consts = {"rc": 9}
        all_consts = {"rr": 4, "rc": 9, "rd": 1}
    parent = os.path.join(tmp, "p")
    os.makedirs(parent, exist_ok=True)
    shutil.rmtree(os.path.join(parent, ".xyz-c07"), ignore_errors=True)
    at_sow = cfg.get("where") == "sow"
    kw = dict(name="c07", parent_dir=parent) if at_sow else dict(name="c07", parent_dir=parent, batchsize=bs, num_batches=nb)
    skw = dict(batchsize=bs, num_batches=nb) if at_sow else {}
    if farmer is not None and cfg.get("factory"):
        # the crop made by the farmer's own factory method (Runner.Crop / Harvester.Crop / Sampler.Crop)
        maker = {"Runner": farmer,
                 "Harvester": xyzpy.Harvester(farmer, data_name=os.path.join(tmp, "hdata")),
                 "Sampler": xyzpy.Sampler(farmer, data_name=os.path.join(tmp, "sdata.pkl"))}[cfg["factory"]]
        crop = maker.Crop(**kw)
    elif farmer is not None:
        crop = C.Crop(farmer=farmer, **kw)
    else:
        crop = C.Crop(fn=_fn, **kw)
    obs = {"cfg": cfg}
    try:
        if cases is not None and not combos and cfg.get("bare"):
            crop.sow_cases("alpha", [c["alpha"] for c in cases], constants=sow_consts, verbosity=0, **skw)
            eff_shuffle = False
        elif cases is not None and not combos:
            # list of cases through sow_cases (dict spelling -> fn_args inferred from the case keys)
            crop.sow_cases(("k", "j"), [(c["k"], c["j"]) for c in cases], constants=sow_consts, verbosity=0, **skw)
            if cfg["shuffle"]:
                obs["shuffle_ignored"] = True    # sow_cases has no shuffle argument
            eff_shuffle = False
        elif cases is not None and cfg.get("entry") == "sow_cases":
            # cases with sub-combos through sow_cases: the sub-combos are enumerated in the order given
            crop.sow_cases(("k", "j"), [(c["k"], c["j"]) for c in cases], combos=combos, constants=sow_consts,
                           verbosity=0, **skw)
            eff_shuffle = False
        else:
            crop.sow_combos(combos, cases=cases, constants=sow_consts, shuffle=cfg["shuffle"], verbosity=0, **skw)
            eff_shuffle = cfg["shuffle"]
    except (ValueError, TypeError) as e:
        obs["error"] = type(e).__name__
        return obs
    sorted_combos = list(combos) if cfg.get("entry") == "sow_cases" else sorted(combos, key=lambda x: x[0])
    settings = C.product_settings(sorted_combos, cases, all_consts)
    index_of = {C.freeze(k): i for i, k in enumerate(settings)}
    obs["n_settings"] = len(settings)
    obs["perm"] = C.py_perm(eff_shuffle, len(settings)) if eff_shuffle else list(range(len(settings)))
    obs["numbers"] = C.crop_numbers(crop)
    obs["batches"] = C.read_batches(crop, index_of)
    obs["num_sown"] = crop.num_sown_batches
    # direct run: what kwargs would a direct sweep pass?
    direct = []

    def rec(**kws):
        direct.append(C.freeze(kws))
        return 0
    if farmer is not None:
        farmer.fn = rec
        over = dict(sow_consts or {})
        if cases is not None and not combos and cfg.get("bare"):
            farmer.run_cases([c["alpha"] for c in cases], fn_args="alpha", constants=over, verbosity=0)
        elif cases is not None and not combos:
            farmer.run_cases([(c["k"], c["j"]) for c in cases], fn_args=("k", "j"), constants=over, verbosity=0)
        elif cfg["extras"] == "runner-override":
            farmer.run_combos(combos, cases=cases, constants=over, verbosity=0)
        else:
            xyzpy.combo_runner(rec, combos, cases=cases, constants=all_consts, verbosity=0)
        farmer.fn = _fn
    else:
        if cases is not None and not combos and cfg.get("bare"):
            xyzpy.case_runner(rec, "alpha", [c["alpha"] for c in cases], constants=sow_consts, verbosity=0)
        elif cases is not None and not combos:
            xyzpy.case_runner(rec, ("k", "j"), [(c["k"], c["j"]) for c in cases], constants=sow_consts, verbosity=0)
        else:
            xyzpy.combo_runner(rec, combos, cases=cases, constants=sow_consts, verbosity=0)
    obs["direct"] = sorted(direct)
    obs["sown_kwargs"] = sorted(
        C.freeze(kw) for i in C.batch_files(crop)
        for kw in C.read_pickle(os.path.join(crop.location, "batches", f"xyz-batch-{i}.jbdmp")))
    # reload from disk: a fresh object that only knows name and directory
    crop2 = C.Crop(name="c07", parent_dir=parent)
    obs["reload_numbers"] = C.crop_numbers(crop2)
    obs["reload_num_sown"] = crop2.num_sown_batches
    # ... and one re-created with the SAME arguments as the first (how a driver script that is run again
    # reloads its crop): what was saved with the crop wins over the request
    crop3 = C.Crop(farmer=farmer, **kw) if farmer is not None else C.Crop(fn=_fn, **kw)
    crop3.num_sown_batches
    obs["reload_same_args_numbers"] = C.crop_numbers(crop3)
    try:
        obs["reload_same_args_missing"] = list(crop3.missing_results())
    except Exception as e:  # noqa
        obs["reload_same_args_missing"] = f"{type(e).__name__}"
    # the same object used again after its crop was deleted (what a reap with clean-up leaves behind): the request
    # made when the object was created still stands, the second sow lays out the same batches
    if cfg.get("resow_after_delete") and not at_sow:
        first = C.read_batches(crop, index_of)
        crop.delete_all()
        try:
            if cases is not None and not combos and cfg.get("bare"):
                crop.sow_cases("alpha", [c["alpha"] for c in cases], constants=sow_consts, verbosity=0, **skw)
            elif cases is not None and not combos:
                crop.sow_cases(("k", "j"), [(c["k"], c["j"]) for c in cases], constants=sow_consts, verbosity=0, **skw)
            elif cases is not None and cfg.get("entry") == "sow_cases":
                crop.sow_cases(("k", "j"), [(c["k"], c["j"]) for c in cases], combos=combos, constants=sow_consts,
                               verbosity=0, **skw)
            else:
                crop.sow_combos(combos, cases=cases, constants=sow_consts, shuffle=cfg["shuffle"], verbosity=0, **skw)
            obs["resown_batches"] = [first, C.read_batches(crop, index_of)]
        except Exception as e:  # noqa
            obs["resown_batches"] = [first, f"{type(e).__name__}: {str(e)[:120]}"]
    return obs


def oracle(cfg, obs):
    """The property statement, checked directly on the observation (independent of the model)."""
    bad = []
    n, how, v = cfg["n"], cfg["how"], cfg["v"]
    if "error" in obs:
        if v is None or v >= 1:
            bad.append(("valid-request-rejected", f"valid request rejected with {obs['error']}"))
        return bad
    if v is not None and v < 1:
        bad.append(("invalid-request-accepted", "invalid request accepted"))
        return bad
    ids = [i for i, _ in obs["batches"]]
    B = len(ids)
    sizes = [len(b) for _, b in obs["batches"]]
    if ids != list(range(1, B + 1)):
        bad.append(("ids-not-1..B", f"batch ids {ids} are not 1..{B}"))
    if any(s == 0 for s in sizes):
        bad.append(("empty-batch", "empty batch"))
    flat = [x for _, b in obs["batches"] for x in b]
    if sorted(flat) != list(range(n)):
        bad.append(("not-a-partition", "batches do not partition the settings (each exactly once)"))
    if obs["sown_kwargs"] != obs["direct"]:
        bad.append(("kwargs-differ-from-direct-run", "sown keyword arguments differ from those of a direct run"))
    if how == "bs" or how == "none":
        s = v if how == "bs" else 1
        if B != -(-n // s):
            bad.append(("by-size-count", f"B={B} but ceil(N/s)={-(-n // s)}"))
        if any(x > s for x in sizes):
            bad.append(("by-size-too-large", f"a batch exceeds the requested size {s}: {sizes}"))
    else:
        if B != min(v, n):
            bad.append(("by-count-count", f"B={B} but min(k,N)={min(v, n)}"))
        if sizes and max(sizes) - min(sizes) > 1:
            bad.append(("by-count-uneven", f"batch sizes differ by more than one: {sizes}"))
    if obs["numbers"][:2] != obs["reload_numbers"][:2] or obs["numbers"][1] != B:
        bad.append(("reported-numbers", f"reported numbers {obs['numbers']} / after reload {obs['reload_numbers']} / files {B}"))
    if obs.get("reload_same_args_numbers") is not None and (
            obs["reload_same_args_numbers"][:2] != obs["numbers"][:2]
            or obs.get("reload_same_args_missing") != list(range(1, B + 1))):
        bad.append(("reload-with-same-arguments", f"a crop re-created with the original arguments reports "
                    f"{obs['reload_same_args_numbers']} / missing {obs.get('reload_same_args_missing')}, the sown "
                    f"crop reported {obs['numbers']} with {B} batch files"))
    if "resown_batches" in obs and obs["resown_batches"][0] != obs["resown_batches"][1]:
        a, b_ = obs["resown_batches"]
        bad.append(("resow-after-delete-differs", f"the same object sown again after delete_all(): first "
                    f"{[len(x) for _, x in a]} settings per batch, then "
                    f"{[len(x) for _, x in b_] if isinstance(b_, list) else b_}"))
    if obs["num_sown"] != B or obs["reload_num_sown"] != B:
        bad.append(("num-sown", "num_sown_batches differs from the number of batch files"))
    return bad


def model_pair(cfg, obs):
    bs = cfg["v"] if cfg["how"] == "bs" else None
    nb = cfg["v"] if cfg["how"] == "nb" else None
    if "error" in obs:
        perm = list(range(cfg["n"]))
        seen = [1, {"ValueError": 1, "TypeError": 2}[obs["error"]]]
    else:
        perm = obs["perm"]
        seen = [0, [obs["numbers"], [b for _, b in obs["batches"]]]]
    return (f"enc_sow (sow {core.zlist(perm)} {core.zopt(bs)} {core.zopt(nb)})", seen)


def gen_vs_model_diff():
    """Inputs on which the regenerated definitions and the hand model differ (evaluated in Coq)."""
    expr = ("flat_map (fun n => flat_map (fun o => "
            "if val_eqb (enc_choose (gen_choose true n false 0 (fst o) (snd o) None)) "
            "(enc_choose (choose n (fst o) (snd o) None)) then [] else [(n, o)]) "
            "((None, None) :: map (fun s => (Some s, None)) (zseq 0 (Z.to_nat n + 3)) ++ "
            "map (fun k => (None, Some k)) (zseq 0 (Z.to_nat n + 3)))) (zseq 1 30)")
    expr2 = ("flat_map (fun c => flat_map (fun bc => flat_map (fun s => flat_map (fun r => "
             "if (let '(a, b, d) := gen_sower_call c bc s r in (a =? c + 1) && b && Bool.eqb d (cut s r (c + 1) bc)) "
             "then [] else [(c, bc, s, r)]) (zseq 0 4)) (zseq 1 4)) (zseq 0 4)) (zseq 0 5)")
    try:
        return core.eval_model("Prelude Batch GenBatch", [expr, expr2])
    except RuntimeError as e:
        return ["(evaluation failed) " + str(e)[-300:]]


def run_cfgs(c, cfgs, tmp, stream):
    pairs, metas = [], []
    for cfg in cfgs:
        obs = observe(cfg, tmp)
        sig = (cfg["n"], cfg["how"], cfg["v"], cfg["kind"], bool(cfg["shuffle"]))
        c.case(sig, nontrivial=cfg["n"] > 1 or "error" in obs,
               sample={"cfg": {k: cfg[k] for k in ("n", "how", "v", "kind", "shuffle", "extras")},
                       "numbers": obs.get("numbers"), "batches": obs.get("batches"), "error": obs.get("error")})
        c.count("kind", cfg["kind"]); c.count("entry", cfg.get("entry", "auto")); c.count("request_made", cfg.get("where", "ctor")); c.count("request", cfg["how"]); c.count("shuffle", bool(cfg["shuffle"]))
        c.count("extras", cfg["extras"]); c.count("outcome", obs.get("error", "ok"))
        for key, msg in oracle(cfg, obs):
            c.violation(key, msg,
                        {"config": cfg, "observed": {k: obs.get(k) for k in
                                                     ("numbers", "batches", "reload_numbers", "error")}})
        pairs.append(model_pair(cfg, obs))
        metas.append((cfg, obs))
    bad, _ = core.safe_run_cases(c, "Prelude Batch", pairs)
    for i in bad:
        cfg, obs = metas[i]
        if not oracle(cfg, obs):
            c.obligation_broken(
                "correspondence Model/Batch.v vs cropping.py",
                {"stream": stream, "config": cfg, "model": pairs[i][0],
                 "observed": {k: obs.get(k) for k in ("numbers", "batches", "error")}})
    return len(bad)


def resow_stream(c, tmp, n):
    """Sow, then sow a DIFFERENT sweep on the same crop without new batch arguments: the crop must either
    refuse (its saved numbers do not fit) or end up with batches that satisfy the property for the new sweep."""
    import xyzpy
    from harness.impl import cropdriver as D
    from harness.impl import runner as R
    pairs, metas = [], []
    for _ in range(n):
        n1 = c.rng.randint(2, 12)
        how = c.rng.choice(["bs", "nb"])
        v = c.rng.randint(1, n1)
        n2 = max(1, n1 + c.rng.choice([-3, -2, -1, -1, 0, 1, 2]))
        sweeps = []
        for nn in (n1, n2):
            sw = R.Sweep(c.rng, with_cases=False, kind=0, allow_consts=False)
            sw.case_args, sw.cases, sw.combo_args = [], [], ["a"]
            sw.pools = {"a": list(range(nn))}
            sw.types = {"a": "int"}
            sw.combos = [("a", sw.pools["a"])]
            sw.rank = {"a": {x: x for x in range(nn)}}
            sweeps.append(D.SownSweep(sw, False, "combos"))
        run = D.CropRun(tmp, 0, name="rs")
        ops = [("sow", sweeps[0], v if how == "bs" else None, v if how == "nb" else None),
               ("reload",) if c.rng.random() < 0.5 else ("query",), ("sow", sweeps[1], None, None)]
        obs = [run.do(o) for o in ops]
        rep = {"first": [n1, how, v], "second_n": n2, "reload": ops[1][0]}
        c.case(("resow", n1, how, v, n2, ops[1][0]), nontrivial=True)
        c.count("stream", "resow"); c.count("resow_outcome", "accepted" if obs[-1][0] == 0 else "refused")
        if obs[-1][0] == 0:
            # accepted: the property must hold for the new sweep
            crop = run.crop
            ids = C.batch_files(crop)
            B = crop.num_batches
            allkw = [C.freeze(kw) for i in ids for kw in C.read_pickle(
                os.path.join(crop.location, "batches", f"xyz-batch-{i}.jbdmp"))]
            want = sorted(C.freeze({"a": x}) for x in range(n2))
            if ids != list(range(1, B + 1)):
                c.violation("resow:ids-not-1..B", f"after an accepted re-sow the crop reports {B} batches but files {ids}", rep)
            elif sorted(allkw) != want:
                c.violation("resow:not-a-partition", "after an accepted re-sow the batch files do not hold exactly the new settings", rep)
        pairs.append(("run_crop 0 [" + "; ".join(D.coq_op(o) for o in ops) + "]", obs))
        metas.append(rep)
    bad, _ = core.safe_run_cases(c, "Prelude Grid Perm Runner RunnerInst Batch Crop CropInst", pairs, chunk=100)
    for i in bad:
        c.obligation_broken("correspondence Model/Crop.v (re-sow) vs cropping.py",
                            {"case": metas[i], "model_expr": pairs[i][0][:1500], "observed": pairs[i][1]})
    return len(bad)


def run(tier, seed):
    c = core.Check("C07", tier, seed)
    gen = core.regen()
    b = core.build(PROP_FILE)
    c.cov["translator"] = {k: gen.get(k) for k in ("GenBatch", "GenStages", "GenFarmer")}
    c.cov["build"] = {"ok": b["ok"], "failed_file": b["failed_file"], "wall_s": round(b.get("wall_s", 0), 1)}
    directed = []
    if not gen["GenBatch"]["ok"]:
        c.obligation_broken("translator GenBatch", gen["GenBatch"]["detail"])
    if "GenFarmer" in gen and not gen["GenFarmer"]["ok"]:
        c.obligation_broken("translator GenFarmer (precedence of sow-time constants)", gen["GenFarmer"]["detail"])
    if "GenStages" in gen and not gen["GenStages"]["ok"]:
        c.obligation_broken("translator GenStages (call sites of the batch planner)", gen["GenStages"]["detail"])
    if not b["ok"]:
        c.obligation_broken(f"Coq build of {b['failed_file']}", b["log_tail"][-1200:])
        if gen["GenBatch"]["ok"]:
            diff = gen_vs_model_diff()
            c.cov["gen_vs_model_diff"] = diff
    tmp = core.scratch_dir("xv-c07-")
    try:
        # when an obligation is broken, search the whole stated domain
        cfgs = gen_configs("thorough" if (c.broken or tier == "thorough") else "quick", c.rng)
        nbad = run_cfgs(c, cfgs, tmp, "main")
        nbad += resow_stream(c, tmp, 150 if tier == "quick" and not c.broken else 1200)
        c.cov["disagreements_checked"] = nbad
        c.cov["exhaustive"] = bool(tier == "thorough" or c.broken)
    finally:
        shutil.rmtree(tmp, ignore_errors=True)
    c.assumptions = ["N < 2^53 so that math.ceil(n / batchsize) is the exact ceiling",
                     "batch files are read back with pickle exactly as written"]
    return c.finish(b, PROP_FILE, TRUSTED, RULE)


def replay(path):
    r = json.load(open(path))
    if "replay" not in r:
        print(json.dumps(r, indent=1)[:3000])
        return 1
    cfg = r["replay"]["config"]
    tmp = core.scratch_dir("xv-c07-")
    try:
        obs = observe(cfg, tmp)
        msgs = oracle(cfg, obs)
        print("config:", cfg)
        print("observed:", {k: obs.get(k) for k in ("numbers", "batches", "reload_numbers", "error")})
        for k, m in msgs:
            print("FAILS:", k, m)
        return 1 if msgs else 0
    finally:
        shutil.rmtree(tmp, ignore_errors=True)
