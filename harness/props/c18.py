"""C18 -- infiniplot draws each data slice once, correctly styled and correctly placed."""
import hashlib
import itertools
import json
import math
import os
from fractions import Fraction

import numpy as np

from harness import core
from harness.impl import infini as I

PROP_FILE = "Props/C18.v"
IMPORTS = "Prelude Grid Infini"
STYLE_PROPS = ["color", "marker", "markersize", "linestyle", "linewidth"]       # order of a canonical style record
MAPPABLE = ["hue", "color", "marker", "markersize", "linestyle", "linewidth", "col", "row"]
FIXED_ORDER = ["hue", "color", "marker", "markersize", "markeredgecolor", "linestyle", "linewidth", "col", "row"]
PALETTES = ["viridis", "plasma"]
TOL = 1e-9

TRUSTED = [
    "Coq 8.16.1 kernel (coqc, full .vo build); vm_compute for the non-vacuity Examples and for evaluating cases",
    "PROVED for all sizes (Props/C18.v over Model/Infini.v; 'Closed under the global context', no axiom): the drawn "
    "coordinate combinations are exactly, in product order, those of the final domains that have data, none twice "
    "(C18_each_slice_once); dropna(how='all') keeps every coordinate that has data, so that in line mode every "
    "point with an x and a y value inside the explicit orders lies on a drawn line (C18_dropna_keeps_data, "
    "C18_none_missing: end to end, aggregation included); panel = (index of the row coordinate, index of the col "
    "coordinate), unique under duplicate-free domains (C18_panel, C18_domains_nodup); data of a line = the slice, "
    "gaps kept or removed (C18_data_exact); style = function of the mapped coordinate (C18_style_functional), "
    "injective below the number of distinct defaults: cyclic 15 markers / 6 line styles, strictly monotone linspace "
    "for sizes / widths / colormap position, hue sweep (C18_style_injective, _linspace_monotone, _hue_monotone, "
    "_cyclic); heat-map: one mesh per combination, cell (a, b) = z(x_b, y_a) (C18_heatmap_mesh); histogram: bins "
    "partition [e_0, e_n], counts add up, density integrates to 1 over the TRUE bin widths (C18_hist_counts)",
    "PARTIAL -- not proved: for histogram and heat-map mode the end-to-end 'none missing' link (only the loop-level "
    "statement and dropna completeness are proved); that the hypotheses wf_maps hold of the list the code processes "
    "is shown for the example only (they say: no dimension mapped twice, orders duplicate free)",
    "hand model Model/Infini.v of Infiniplotter.__init__ / init_mapped_dim / plot_lines / plot_heatmap / the histogram "
    "branch, tied to the code by (i) translator harness/translator/gen_infini.py -> Gen/GenInfini.v + "
    "Bridge/BridgeInfini.v (fixed order of init_mapped_dim calls, hue->color rule, dropna how, lengths and "
    "distinctness of the default marker / line-style / colour lists, linspace end points, style loop of plot_lines) "
    "and (ii) differential execution against the artists of the returned (fig, axs)",
    "ONLY TESTED (differential / numeric, not proved): xarray stack / sel / dropna / isel / reductions and "
    "Dataset.sizes order (the iteration order of the dimensions is READ from the implementation and given to the "
    "model), matplotlib artist construction (Line2D, QuadMesh, PolyCollection), numpy histogram / linspace / "
    "nanmedian / nanquantile / nanstd (compared with tolerance 1e-9), colour tables (auto_colors, colormaps, cimple: "
    "the INDEX / parameter of a colour is checked, the table itself is trusted), heat-map colours with palette=None "
    "(compared with xyzpy's own to_colors on the expected z), error bands / bars (vertices compared numerically), "
    "legends, titles (checked as strings), everything about rendering (pixels, layout, fonts: out of scope)",
    "harness: generator, artist reader harness/impl/infini.py (uses the private Line2D._unscaled_dash_pattern to read "
    "a dash pattern), float -> id maps (all finite data values are distinct), the Python oracle of the property "
    "statement (used to search for violations)",
]
RULE = ("seeded random cases: datasets with 2-5 dimensions (sizes 1-4, int / float / str coordinates, shuffled "
        "names), NaN patterns (none, scattered, whole slice, whole coordinate, coordinate with data only outside an "
        "explicit order), injective assignments of <= 4 dimension groups (single or fused tuples) to hue / color / "
        "marker / markersize / linestyle / linewidth / col / row with optional explicit orders, modes lines / lines "
        "with a data variable as x / histogram / heat map, aggregate off / True / list x err range {quantile, std, "
        "stderr} x band / bars, join_across_missing, bins None / int / uniform / non-uniform edges x bins_density, "
        "palette on / off; distinct = distinct (mode, shape, mapping, options, NaN mask) signatures; non-trivial = "
        "at least two artists expected or an explicit order / fused dimension / NaN in the data")


# ------------------------------------------------------------------------------------------ generation
def gen_case(rng, mode=None, force=None):
    force = force or {}
    mode = mode or rng.choice(["lines"] * 6 + ["xvar"] * 2 + ["hist"] * 3 + ["heat"] * 3)
    n = force.get("n") or rng.choice([2, 3, 3, 4, 4, 5])
    if mode == "heat" and n < 2:
        n = 2
    names = rng.sample(I.DIM_NAMES, n)
    sizes = [rng.choice([1, 2, 2, 3, 3]) for _ in range(n)]
    special = []
    if mode in ("lines", "xvar"):
        xdim = rng.randrange(n)
        sizes[xdim] = rng.choice([1, 2, 3, 3, 4])
        special = [xdim]
        ydim = None
    elif mode == "heat":
        xdim, ydim = rng.sample(range(n), 2)
        sizes[xdim] = rng.choice([2, 3, 4])
        sizes[ydim] = rng.choice([2, 3])
        special = [xdim, ydim]
    else:
        xdim = ydim = None
    while math.prod(sizes) > 150:
        i = max(range(n), key=lambda k: sizes[k])
        sizes[i] -= 1
    coords = []
    for d in range(n):
        kind = rng.choice(["int", "float", "str"])
        if d in special:
            kind = rng.choice(["int", "float"])
        if kind == "int":
            c = rng.sample(range(-9, 40), sizes[d])
        elif kind == "float":
            c = [v / 4.0 for v in rng.sample(range(-20, 60), sizes[d])]
        else:
            c = rng.sample(["u", "v", "w", "p", "q", "zz", "A", "b2"], sizes[d])
        if d in special or rng.random() < 0.5:
            c = sorted(c)
        coords.append(c)
    ncell = math.prod(sizes)
    if mode == "hist":
        vals = [v / 8.0 for v in rng.sample(range(-1600, 1600), ncell)]
    else:
        vals = [v / 1024.0 for v in rng.sample(range(-200000, 200000), ncell)]
    cfg = {"mode": mode, "names": names, "sizes": sizes, "coords": coords, "var": "y" if mode != "heat" else "z",
           "xdim": xdim, "ydim": ydim, "xvals": None, "xvar": None}
    if mode == "hist":
        cfg["var"] = "v"
    if mode == "xvar":
        cfg["xvar"] = "xv"
        cfg["xvals"] = [v / 1024.0 for v in rng.sample(range(300000, 700000), ncell)]
    # ---- mapping
    others = [d for d in range(n) if d not in special]
    rng.shuffle(others)
    props = ["row", "col"] if mode == "heat" else list(MAPPABLE)
    kmax = min(4, len(props), len(others))
    k = rng.randint(0, kmax) if others else 0
    if k == 0 and others and rng.random() < 0.8:
        k = 1
    groups, rest = [], list(others)
    for _ in range(k):
        if not rest:
            break
        g = [rest.pop()]
        while rest and rng.random() < 0.3 and len(g) < 3 and math.prod(sizes[d] for d in g + [rest[-1]]) <= 12:
            g.append(rest.pop())
        groups.append(g)
    chosen = rng.sample(props, len(groups))
    maps = []
    for p, g in zip(chosen, groups):
        m = {"prop": p, "dims": g, "order": None}
        labs = list(itertools.product(*[range(sizes[d]) for d in g]))
        if rng.random() < 0.4:
            kk = rng.randint(1, len(labs))
            m["order"] = [list(l) for l in rng.sample(labs, kk)]
        maps.append(m)
    if mode == "hist" and not rest and maps and rng.random() < 0.6:
        rest = list(maps.pop()["dims"])          # mostly keep something to bin over (all mapped: one value per slice)
    cfg["maps"] = maps
    unmapped = sorted(rest)
    # ---- options
    cfg["palette"] = rng.choice(PALETTES) if rng.random() < 0.4 else None
    cfg["jam"] = mode in ("lines", "xvar") and rng.random() < 0.35
    cfg["agg"] = None
    if mode in ("lines", "xvar"):
        r = rng.random()
        if unmapped and r < 0.5:
            cfg["agg"] = True if rng.random() < 0.5 else sorted(rng.sample(unmapped, rng.randint(1, len(unmapped))))
        elif not unmapped and r < 0.08:
            cfg["agg"] = True
    elif mode == "heat" and unmapped:
        r = rng.random()
        # a heat map shows ONE value per cell: naming only some of the unmapped dimensions still aggregates over all
        cfg["agg"] = True if r < 0.6 else ("default" if r < 0.8 else
                                            sorted(rng.sample(unmapped, rng.randint(1, len(unmapped)))))
    if cfg["agg"] is not None:
        cfg["agg_err"] = rng.choice([None, 0.5, 0.0, 1.0, 0.8, "std", "stderr"])
        cfg["agg_method"] = rng.choice([None, None, "median", "mean"])
        cfg["err_style"] = rng.choice([None, None, "band", "bars"]) if mode != "heat" else None
        cfg["agg_as_str"] = rng.random() < 0.3
    if mode == "hist":
        allv = sorted(vals)
        r = rng.random()
        if r < 0.25:
            cfg["bins"] = None
        elif r < 0.45:
            cfg["bins"] = rng.randint(1, 6)
        else:
            lo8, hi8 = int(allv[0] * 8), int(allv[-1] * 8)
            a = rng.randint(lo8 - 40, lo8 + (hi8 - lo8) // 3)
            if r < 0.7:      # uniform explicit edges
                nb = rng.randint(1, 6)
                w = max(1, (rng.randint(hi8 - (hi8 - lo8) // 3, hi8 + 40) - a) // nb)
                e = [a + i * w for i in range(nb + 1)]
            else:            # non-uniform explicit edges
                nb = rng.randint(2, 6)
                b = rng.randint(hi8 - (hi8 - lo8) // 3, hi8 + 40)
                inner = sorted(rng.sample(range(a + 1, max(a + nb + 2, b)), nb - 1))
                e = [a] + inner + [max(b, inner[-1] + 1)]
                if len(set(e[i + 1] - e[i] for i in range(nb))) == 1:
                    e[-1] += 3
            if rng.random() < 0.4 and vals:   # an edge exactly on a data value (closed / half-open rule)
                j = rng.randrange(len(e))
                v8 = int(rng.choice(vals) * 8)
                if all(x != v8 for x in e) and (j == 0 or e[j - 1] < v8) and (j == len(e) - 1 or v8 < e[j + 1]):
                    e[j] = v8
            cfg["bins"] = [x / 8.0 for x in e]
            cfg["bins_as_array"] = rng.random() < 0.5
        cfg["bins_density"] = rng.random() < 0.6
    cfg["legend"] = rng.choice([None, None, None, False])
    cfg["legend_merge"] = cfg["legend"] is None and rng.random() < 0.1
    # colours without a palette: the default colour table is indexable without knowing N only below 7 entries
    for m in maps:
        if m["prop"] in ("color", "hue") and not any(x["prop"] in ("color", "hue") for x in maps if x is not m):
            nlab = len(m["order"]) if m["order"] is not None else math.prod(sizes[d] for d in m["dims"])
            if nlab >= 7 and cfg["palette"] is None:
                cfg["palette"] = rng.choice(PALETTES)
    # ---- NaN pattern
    cfg["nan"] = rng.choice(["none", "scatter", "scatter", "slice", "coord", "mixed", "outside-order"])
    cfg["vals"] = nan_pattern(rng, cfg, vals)
    if mode == "xvar" and rng.random() < 0.5:
        cfg["xvals"] = [None if rng.random() < 0.12 else v for v in cfg["xvals"]]
    if mode == "hist" and all(v is None for v in cfg["vals"]):
        cfg["vals"][0] = vals[0]
    if mode == "hist" and not isinstance(cfg.get("bins"), list) and rng.random() < 0.9:
        dyadic_default_edges(cfg)
    # aggregated values are mapped back to their cells numerically: they must be pairwise distinct
    for _ in range(30):
        if distinct_reduced(cfg):
            break
        fresh = [v / 1024.0 for v in rng.sample(range(-200000, 200000), ncell)]
        cfg["vals"] = [None if o is None else f for o, f in zip(cfg["vals"], fresh)]
        if cfg["xvals"] is not None:
            fresh = [v / 1024.0 for v in rng.sample(range(300000, 700000), ncell)]
            cfg["xvals"] = [None if o is None else f for o, f in zip(cfg["xvals"], fresh)]
    return cfg


def dyadic_default_edges(cfg):
    """bins=None / int: raise the largest value so that linspace(min, max, nbins + 1) falls on multiples of 1/8
    (then the model can bin with exact integers; other cases are checked by the oracle only)."""
    E = Expect(cfg)
    ok = E.allowed_mask() & ~np.isnan(E.A)
    if np.count_nonzero(ok) < 2:
        return
    b = cfg.get("bins")
    nb = int(b) if b is not None else min(max(3, int(math.prod(E.sizes[d] for d in E.binned) ** 0.5)), 50)
    vals = np.where(ok, E.A, -np.inf)
    k = int(np.argmax(vals))
    lo8, hi8 = int(round(float(E.A[ok].min()) * 8)), int(round(float(E.A[ok].max()) * 8))
    hi8 += (-(hi8 - lo8)) % nb
    taken = {v for v in cfg["vals"] if v is not None}
    while hi8 / 8.0 in taken and hi8 / 8.0 != cfg["vals"][k]:
        hi8 += nb
    cfg["vals"][k] = hi8 / 8.0


def distinct_reduced(cfg):
    if cfg["mode"] == "hist" or cfg.get("agg") is None:
        return True
    E = Expect(cfg)
    for t in (E.Ared, E.Xred):
        if t is None:
            continue
        v = np.sort(t[np.isfinite(t)].ravel())
        if v.size > 1 and np.min(np.diff(v)) < 1e-6:
            return False
    return True


def nan_pattern(rng, cfg, vals):
    sizes = cfg["sizes"]
    n = len(sizes)
    a = np.array(vals, dtype=float).reshape(sizes)
    kind = cfg["nan"]
    free = [d for d in range(n) if d != cfg["xdim"]] or list(range(n))

    def some_index(dims):
        idx = [slice(None)] * n
        for d in dims:
            idx[d] = rng.randrange(sizes[d])
        return tuple(idx)
    if kind in ("scatter", "mixed"):
        p = rng.choice([0.1, 0.25, 0.5])
        mask = np.array([rng.random() < p for _ in range(a.size)]).reshape(sizes)
        a[mask] = np.nan
    if kind in ("slice", "mixed"):
        for _ in range(rng.randint(1, 3)):
            a[some_index(free)] = np.nan
    if kind in ("coord", "mixed"):
        for _ in range(rng.randint(1, 2)):
            a[some_index([rng.choice(free)])] = np.nan
    if kind == "outside-order":
        # a coordinate of one mapped dimension that has data only at labels which another (ordered) mapped
        # dimension leaves out: whether it survives dropna depends on the fixed processing order
        ordered = [m for m in cfg["maps"] if m["order"] is not None]
        othermaps = [m for m in cfg["maps"]]
        if ordered and len(othermaps) >= 2:
            mo = rng.choice(ordered)
            mb = rng.choice([m for m in othermaps if m is not mo])
            alllabs = list(itertools.product(*[range(sizes[d]) for d in mo["dims"]]))
            out = [l for l in alllabs if list(l) not in mo["order"]]
            db = rng.choice(mb["dims"])
            b0 = rng.randrange(sizes[db])
            keep = np.zeros(sizes, dtype=bool)
            for l in out:
                idx = [slice(None)] * n
                for d, i in zip(mo["dims"], l):
                    idx[d] = i
                keep[tuple(idx)] = True
            idx = [slice(None)] * n
            idx[db] = b0
            sel = np.zeros(sizes, dtype=bool)
            sel[tuple(idx)] = True
            a[sel & ~keep] = np.nan
        else:
            a[some_index([rng.choice(free)])] = np.nan
    if np.all(np.isnan(a)) and rng.random() < 0.9:
        orig = np.array(vals, dtype=float).reshape(sizes)
        for _ in range(rng.randint(1, 4)):
            k = tuple(rng.randrange(s) for s in sizes)
            a[k] = orig[k]
    return [None if math.isnan(v) else float(v) for v in a.ravel().tolist()]


def signature(cfg):
    mask = "".join("1" if v is None else "0" for v in cfg["vals"])
    return json.dumps([cfg["mode"], cfg["sizes"], cfg["xdim"], cfg["ydim"],
                       [(m["prop"], m["dims"], m["order"]) for m in cfg["maps"]], cfg["agg"], cfg.get("agg_err"),
                       cfg.get("agg_method"), cfg.get("err_style"), cfg["jam"], cfg["palette"], cfg.get("bins"),
                       cfg.get("bins_density"), hashlib.md5(mask.encode()).hexdigest() if len(mask) > 64 else mask], default=str)


# ------------------------------------------------------------------------------------------ expected structure
class Expect:
    """What the PROPERTY STATEMENT requires for a case, computed directly from the raw arrays with numpy (no
    xarray, no xyzpy): the coordinate combinations, their slices, the float -> id tables."""

    def __init__(self, cfg):
        self.cfg = cfg
        self.sizes = cfg["sizes"]
        self.n = len(self.sizes)
        self.A = I.arr(cfg["vals"], self.sizes)
        self.X = I.arr(cfg["xvals"], self.sizes) if cfg.get("xvals") is not None else None
        self.ids = np.arange(self.A.size).reshape(self.sizes)
        mode = cfg["mode"]
        maps = cfg["maps"]
        mapped_dims = [d for m in maps for d in m["dims"]]
        special = [d for d in (cfg["xdim"], cfg["ydim"]) if d is not None]
        self.unmapped = [d for d in range(self.n) if d not in mapped_dims and d not in special]
        agg = cfg.get("agg")
        if mode == "hist":
            self.agg = []
            self.binned = list(self.unmapped)
        elif agg is True or agg == "default" or mode == "heat":
            self.agg = list(self.unmapped)
        elif agg is None:
            self.agg = []
        else:
            self.agg = sorted(agg)
        self.binned = list(self.unmapped) if mode == "hist" else []
        # axes that are iterated: mapped groups, then unmapped dimensions that are neither aggregated nor binned
        self.axes = [{"prop": m["prop"], "dims": list(m["dims"]),
                      "labels": [tuple(l) for l in (m["order"] if m["order"] is not None else
                                                    itertools.product(*[range(self.sizes[d]) for d in m["dims"]]))],
                      "ordered": m["order"] is not None} for m in maps]
        for d in self.unmapped:
            if d not in self.agg and d not in self.binned:
                self.axes.append({"prop": None, "dims": [d], "labels": [(i,) for i in range(self.sizes[d])],
                                  "ordered": False})
        self.method = cfg.get("agg_method") or "median"
        self.aggregated = agg is not None and mode != "hist"
        if self.aggregated:
            self.Ared = self.reduce(self.A, self.method)
            self.Xred = self.reduce(self.X, self.method) if self.X is not None else None
        else:
            self.Ared, self.Xred = self.A, self.X

    def reduce(self, a, how, q=None):
        import warnings
        ax = tuple(self.agg)
        with warnings.catch_warnings():
            warnings.simplefilter("ignore")
            if not ax:
                if how in ("median", "mean", "quantile"):
                    return a.copy()
                if how == "std":
                    return np.where(np.isnan(a), np.nan, 0.0)
                if how == "count":
                    return (~np.isnan(a)).astype(float)
            if how == "median":
                return np.nanmedian(a, axis=ax, keepdims=True)
            if how == "mean":
                return np.nanmean(a, axis=ax, keepdims=True)
            if how == "std":
                return np.nanstd(a, axis=ax, keepdims=True)
            if how == "count":
                return np.sum(~np.isnan(a), axis=ax, keepdims=True).astype(float)
            if how == "quantile":
                return np.nanquantile(a, q, axis=ax, keepdims=True)
        raise ValueError(how)

    def members(self, idx):
        """ids of the non-NaN source cells of the (possibly aggregated) cell at full index idx (aggregated
        positions are ignored)."""
        sl = tuple(slice(None) if d in self.agg else idx[d] for d in range(self.n))
        return sl

    def cell_members(self, arr, idx):
        sl = tuple(slice(None) if d in self.agg else idx[d] for d in range(self.n))
        sub = np.asarray(arr[sl]).ravel()
        ids = np.asarray(self.ids[sl]).ravel()
        return [int(i) for i, v in zip(ids, sub) if not math.isnan(v)]

    def combos(self):
        return list(itertools.product(*[ax["labels"] for ax in self.axes]))

    def index_of(self, combo, xpos=None):
        idx = [0] * self.n
        for ax, lab in zip(self.axes, combo):
            for d, i in zip(ax["dims"], lab):
                idx[d] = i
        if xpos is not None and self.cfg["xdim"] is not None:
            idx[self.cfg["xdim"]] = xpos
        return idx

    def series(self, combo):
        """[(x value or None, y value or None, x members, y members)] along the x dimension."""
        cfg = self.cfg
        xd = cfg["xdim"]
        out = []
        for xp in range(self.sizes[xd]):
            idx = self.index_of(combo, xp)
            ridx = tuple(0 if d in self.agg else idx[d] for d in range(self.n))
            yv = I.fnum(self.Ared[ridx])
            ym = self.cell_members(self.A, idx)
            if self.X is None:
                xv, xm = float(cfg["coords"][xd][xp]), [xp]
            else:
                xv, xm = I.fnum(self.Xred[ridx]), self.cell_members(self.X, idx)
            out.append((xv, yv, xm, ym))
        return out

    def hist_values(self, combo):
        idx = self.index_of(combo)
        sl = tuple(slice(None) if d in self.binned else idx[d] for d in range(self.n))
        sub = np.asarray(self.A[sl]).ravel()
        return [float(v) for v in sub if not math.isnan(v)]

    def allowed_mask(self):
        """Cells whose coordinates are allowed by every explicit order."""
        ok = np.ones(self.sizes, dtype=bool)
        for ax in self.axes:
            if ax["ordered"]:
                m = np.zeros(self.sizes, dtype=bool)
                for lab in ax["labels"]:
                    idx = [slice(None)] * self.n
                    for d, i in zip(ax["dims"], lab):
                        idx[d] = i
                    m[tuple(idx)] = True
                ok &= m
        return ok


def close(a, b, tol=TOL):
    if a is None or b is None:
        return a is None and b is None
    return abs(a - b) <= tol * max(1.0, abs(a), abs(b))


def lookup(table, v):
    """indices of the entries of the float table equal (within TOL) to v."""
    if v is None:
        return []
    t = np.asarray(table, dtype=float).ravel()
    return [int(i) for i in np.flatnonzero(np.abs(t - v) <= TOL * np.maximum(1.0, np.abs(t)))]


# ------------------------------------------------------------------------------------------ style reading
def default_tables():
    """Default style tables, read from the implementation's module constants (trusted tables; the INDEX into
    them is what is checked).  Their lengths are also extracted by the translator."""
    import xyzpy.plot.infiniplot as ip
    import matplotlib.colors as mc
    return {"markers": list(ip._MARKERS_DEFAULT),
            "dashes": [dash_canon(x) for x in ip._LINESTYLES_DEFAULT],
            "colors": [tuple(mc.to_rgba(c)) for c in ip._COLORS_DEFAULT]}


def dash_canon(ls):
    if ls == "solid":
        return (0.0, None)
    off, seq = ls
    return (float(off), tuple(float(s) for s in seq))


def frac_of(x, maxden=1000):
    f = Fraction(x).limit_denominator(maxden)
    if abs(float(f) - x) > 1e-9:
        return None
    return [f.numerator, f.denominator]


_CMAP_CACHE = {}


def palette_param(palette, rgba):
    """Invert colormap(t) for t a fraction with denominator <= 11: the reduced fraction, or None."""
    import matplotlib.pyplot as plt
    key = ("pal", palette)
    if key not in _CMAP_CACHE:
        cm = plt.get_cmap(palette)
        tab = {}
        for den in range(1, 12):
            for num in range(0, den + 1):
                f = Fraction(num, den)
                col = tuple(round(c, 9) for c in cm(float(np.linspace(0.0, 1.0, den + 1)[num])))
                tab.setdefault(col, set()).add((f.numerator, f.denominator))
        _CMAP_CACHE[key] = tab
    hits = _CMAP_CACHE[key].get(tuple(round(c, 9) for c in rgba), set())
    return [list(h) for h in sorted(hits)]


def hue_color_param(rgba):
    """Invert cimple-colormap(h)(t): h = k/N (N <= 24) of the default hue sweep, t = k/(M-1) for up to M = 25
    colour levels (a colour mapped to several dimensions easily has more than ten combinations; the first
    version of this table stopped at ten and raised a false alarm in a thorough run)."""
    import xyzpy.plot.infiniplot as ip
    key = "huecol"
    if key not in _CMAP_CACHE:
        tab = {}
        opts = {"val1": 1.0, "sat1": 0.3, "val2": 0.6}
        for hden in range(1, 25):
            hs = np.linspace(0.6, 0.6 - 1.0, hden, endpoint=False)
            for hnum in range(hden):
                cm = ip.to_colormap(float(hs[hnum]), **opts)
                hf = Fraction(hnum, hden)
                for den in range(1, 25):
                    ts = np.linspace(0.0, 1.0, den + 1) if den >= 1 else [0.0]
                    for num in range(den + 1):
                        tf = Fraction(num, den)
                        col = tuple(round(c, 9) for c in cm(float(ts[num])))
                        tab.setdefault(col, set()).add((hf.numerator, hf.denominator, tf.numerator, tf.denominator))
        _CMAP_CACHE[key] = tab
    hits = _CMAP_CACHE[key].get(tuple(round(c, 9) for c in rgba), set())
    return [list(h) for h in sorted(hits)]


# ------------------------------------------------------------------------------------------ the oracle
def bold(s):
    return r"$\bf{" + s.replace("_", r"\_") + r"}$"


def value_str(cfg, dims, lab):
    if len(dims) == 1:
        return str(np.array(cfg["coords"][dims[0]])[lab[0]])
    return str(tuple(np.array(cfg["coords"][d])[i].item() for d, i in zip(dims, lab)))


def axis_name(cfg, dims):
    return ", ".join(cfg["names"][d] for d in dims)


def prop_axes(E):
    """property -> index of its axis in E.axes, after the rule 'hue alone acts as color'."""
    pa = {ax["prop"]: k for k, ax in enumerate(E.axes) if ax["prop"] is not None}
    if "hue" in pa and "color" not in pa:
        pa["color"] = pa.pop("hue")
    return pa


def is_cap(ln):
    return ln["linestyle"] in ("None", "none", "") and ln["marker"] in ("_", "|")


def degenerate(E):
    """No finite value is left inside the explicit orders: there is nothing to draw (outside the guard)."""
    ok = E.allowed_mask() & ~np.isnan(E.A)
    if E.X is not None:
        ok &= ~np.isnan(E.X)
    return not bool(np.any(ok))


def raise_key(cfg, obs, E):
    if cfg["mode"] == "hist" and not E.binned:
        return "histogram-all-dims-mapped-raises"
    return f"raises-{cfg['mode']}-{obs['error']}"


def raw_style(ln, p):
    if p == "color":
        return tuple(round(c, 9) for c in ln["color"])
    if p == "marker":
        return ln["marker"]
    if p == "markersize":
        return ln["markersize"]
    if p == "linewidth":
        return ln["linewidth"]
    if p == "linestyle":
        off, seq = ln["dash"]
        return (off, None if seq is None else tuple(seq))
    raise KeyError(p)


N_DEFAULTS = {"marker": 15, "linestyle": 6, "markersize": 10 ** 9, "linewidth": 10 ** 9, "color": 10 ** 9}


def check_panels_and_styles(cfg, obs, E, placed, bad):
    """placed: list of (i, j, combo, line dict).  Panel = (index of row coordinate, index of col coordinate) among
    the coordinates shown, in order; titles; style functional / injective; unmapped style constant."""
    pa = prop_axes(E)
    R, C = obs["shape"]
    for prop, pos_of, size in (("row", lambda t: t[0], R), ("col", lambda t: t[1], C)):
        if prop not in pa:
            if size != 1:
                bad.append(("wrong-panel", f"{prop} is not mapped but the figure has {size} {prop}s"))
            continue
        k = pa[prop]
        labs = E.axes[k]["labels"]
        seen = {}
        for t in placed:
            seen.setdefault(t[2][k], set()).add(pos_of(t))
        for lab, poss in seen.items():
            if len(poss) != 1:
                bad.append(("wrong-panel", f"{prop} coordinate {lab} is drawn in {prop}s {sorted(poss)}"))
        byidx = {}
        for lab, poss in seen.items():
            for q in poss:
                byidx.setdefault(q, set()).add(lab)
        for q, ls in byidx.items():
            if len(ls) != 1:
                bad.append(("wrong-panel", f"{prop} {q} holds lines of {prop} coordinates {sorted(ls)}"))
        order = [lab for lab in labs if lab in seen]
        idxs = [min(seen[lab]) for lab in order]
        if any(b <= a for a, b in zip(idxs, idxs[1:])):
            bad.append(("wrong-panel", f"{prop} coordinates {order} sit at indices {idxs}: order not kept"))
        if size > len(labs):
            bad.append(("wrong-panel", f"{size} {prop}s for {len(labs)} candidate coordinates"))
    # titles
    for (i, j, combo, ln) in placed:
        parts = []
        for prop in ("col", "row"):
            if prop in pa:
                ax = E.axes[pa[prop]]
                parts.append(f"{bold(axis_name(cfg, ax['dims']))}={value_str(cfg, ax['dims'], combo[pa[prop]])}")
        texts = obs["panels"][i][j]["texts"]
        want = ", ".join(parts)
        if parts and want not in texts:
            bad.append(("panel-title-differs", f"panel ({i},{j}) holds the slice {combo} but is titled {texts}, not {want!r}"))
    # styles
    for p in STYLE_PROPS:
        vals = [(t[2], raw_style(t[3], p)) for t in placed]
        if p == "color" and "hue" in pa and "color" in pa:
            kh, kc = pa["hue"], pa["color"]
            fn = {}
            for combo, v in vals:
                fn.setdefault((combo[kh], combo[kc]), set()).add(v)
            if any(len(s) != 1 for s in fn.values()):
                bad.append(("style-not-functional", f"colour is not a function of the (hue, color) coordinates: {short(fn)}"))
            else:
                for (h1, c1), (h2, c2) in itertools.combinations(fn, 2):
                    if (h1 == h2 or c1 == c2) and fn[(h1, c1)] == fn[(h2, c2)] and len(E.axes[kh]["labels"]) <= 9:
                        bad.append(("style-not-injective", f"(hue, color) {(h1, c1)} and {(h2, c2)} share a colour"))
                        break
        elif p in pa:
            k = pa[p]
            fn = {}
            for combo, v in vals:
                fn.setdefault(combo[k], set()).add(v)
            if any(len(s) != 1 for s in fn.values()):
                bad.append(("style-not-functional", f"{p} is not a function of its mapped coordinate: {short(fn)}"))
            elif len(E.axes[k]["labels"]) <= N_DEFAULTS[p]:
                inv = {}
                for lab, s in fn.items():
                    inv.setdefault(next(iter(s)), []).append(lab)
                dup = {v: ls for v, ls in inv.items() if len(ls) > 1}
                if dup:
                    bad.append(("style-not-injective", f"{p}: different coordinates share a style: {short(dup)}"))
        else:
            if len(set(v for _, v in vals)) > 1:
                bad.append(("unmapped-style-varies", f"{p} is not mapped but takes the values {sorted(set(map(str, (v for _, v in vals))))[:4]}"))


def short(d, n=300):
    return str({str(k): (sorted(map(str, v)) if isinstance(v, (set, list)) else v) for k, v in d.items()})[:n]


def oracle(cfg, obs, E=None):
    """The property statement, checked directly on the artists (independent of the Coq model).
    Returns [(key, message)], info."""
    E = E or Expect(cfg)
    bad, info = [], {}
    if not obs.get("pure", True):
        bad.append(("input-dataset-modified", "the dataset passed in is no longer identical to its deep copy"))
    if degenerate(E):
        info["degenerate"] = True
        return bad, info
    if "error" in obs:
        bad.append((raise_key(cfg, obs, E), f"{obs['error']}: {obs['message'][:160]} at {obs['where'][-2:]}"))
        return bad, info
    if not obs.get("fig_is_figure", True):
        bad.append(("axes-not-in-figure", "returned axes do not belong to the returned figure"))
    if cfg["mode"] in ("lines", "xvar"):
        oracle_lines(cfg, obs, E, bad, info)
    elif cfg["mode"] == "hist":
        oracle_hist(cfg, obs, E, bad, info)
    else:
        oracle_heat(cfg, obs, E, bad, info)
    return bad, info


def expected_lines(E):
    """combo -> series, for the combinations that have data (some point with x and y both present)."""
    out = {}
    for combo in E.combos():
        s = E.series(combo)
        if any(x is not None and y is not None for x, y, _, _ in s):
            out[combo] = s
    return out


def combo_of_ridx(E, ridx):
    return tuple(tuple(int(ridx[d]) for d in ax["dims"]) for ax in E.axes)


def oracle_lines(cfg, obs, E, bad, info):
    R, C = obs["shape"]
    want = expected_lines(E)
    info["expected_lines"] = len(want)
    allcombos = set(E.combos())
    ytab = E.Ared
    placed, count = [], {}
    info["placed"] = placed
    xd = cfg["xdim"]
    for i in range(R):
        for j in range(C):
            P = obs["panels"][i][j]
            for ln in P["lines"]:
                if is_cap(ln):
                    continue
                combos = set()
                unknown = False
                for x, y in ln["xy"]:
                    if y is None:
                        continue
                    hit = lookup(ytab, y)
                    if len(hit) != 1:
                        unknown = True
                        continue
                    ridx = np.unravel_index(hit[0], ytab.shape)
                    combos.add(combo_of_ridx(E, ridx))
                if unknown:
                    bad.append(("line-value-not-in-dataset", f"panel ({i},{j}): a drawn y value is not a value of the dataset: {ln['xy'][:6]}"))
                    continue
                if not combos:
                    bad.append(("line-without-data", f"panel ({i},{j}): a line without any value was drawn"))
                    continue
                if len(combos) > 1:
                    bad.append(("line-mixes-slices", f"panel ({i},{j}): one line carries values of the slices {sorted(combos)}"))
                    continue
                combo = combos.pop()
                count[combo] = count.get(combo, 0) + 1
                placed.append((i, j, combo, ln))
                if combo not in allcombos:
                    bad.append(("unexpected-line", f"slice {combo} is outside the explicit orders but was drawn"))
                    continue
                s = E.series(combo)
                exp = [(x, y) for x, y, _, _ in s]
                if cfg["jam"]:
                    exp = [(x, y) for x, y in exp if x is not None and y is not None]
                got = [tuple(p) for p in ln["xy"]]
                if len(got) != len(exp) or not all(close(a, c) and close(b, d) for (a, b), (c, d) in zip(got, exp)):
                    bad.append(("line-data-differs", f"slice {combo}: drawn {got[:8]} expected {exp[:8]} "
                                                     f"(join_across_missing={cfg['jam']})"))
    for combo in want:
        if count.get(combo, 0) == 0:
            bad.append(("slice-missing", f"slice {combo} has data but no line was drawn for it"))
    for combo, k in count.items():
        if k > 1:
            bad.append(("slice-drawn-twice", f"slice {combo} was drawn {k} times"))
    check_panels_and_styles(cfg, obs, E, placed, bad)
    if E.aggregated:
        check_spread(cfg, obs, E, placed, bad, info)


def spread_bounds(E):
    cfg = E.cfg
    r = cfg.get("agg_err")
    r = 0.5 if r is None else r
    if r == "std":
        m, s = E.reduce(E.A, "mean"), E.reduce(E.A, "std")
        return m - s, m + s
    if r == "stderr":
        m, s, cnt = E.reduce(E.A, "mean"), E.reduce(E.A, "std"), E.reduce(E.A, "count")
        with np.errstate(all="ignore"):
            se = s / np.sqrt(cnt)
        return m - se, m + se
    r = min(max(0.0, float(r)), 1.0)
    return E.reduce(E.A, "quantile", 0.5 - r / 2.0), E.reduce(E.A, "quantile", 0.5 + r / 2.0)


def check_spread(cfg, obs, E, placed, bad, info):
    """TEST ONLY (numeric, tolerance): the band / bars drawn with an aggregated line show the requested range."""
    style = cfg.get("err_style") or "band"
    lo, hi = spread_bounds(E)
    xd = cfg["xdim"]
    R, C = obs["shape"]
    for i in range(R):
        for j in range(C):
            P = obs["panels"][i][j]
            mine = [t for t in placed if t[0] == i and t[1] == j]
            arts = P["polys"] if style == "band" else P["segments"]
            if len(arts) != len(mine):
                bad.append(("spread-count-differs", f"panel ({i},{j}): {len(mine)} lines but {len(arts)} error {style}s"))
                continue
            pool = [v for a in arts for path in a for v in path]
            for (_, _, combo, ln) in mine:
                s = E.series(combo)
                for xp, (x, y, _, _) in enumerate(s):
                    idx = E.index_of(combo, xp)
                    ridx = tuple(0 if d in E.agg else idx[d] for d in range(E.n))
                    l, h = I.fnum(lo[ridx]), I.fnum(hi[ridx])
                    if x is None or y is None or l is None or h is None:
                        continue
                    if style == "bars":
                        l, h = y - abs(y - l), y + abs(h - y)
                    for v in (l, h):
                        if not any(a is not None and b is not None and close(a, x) and close(b, v) for a, b in pool):
                            bad.append(("spread-value-differs", f"slice {combo}: no error-{style} vertex at ({x}, {v}) "
                                                                f"[range {cfg.get('agg_err')!r}]"))
                            break
    info["spread_checked"] = True


# ---------------------------------------------------------------- histogram
def hist_edges(cfg, E):
    """The bin edges the property statement implies: the explicit edges, or linspace(min, max, nbins + 1) over the
    values inside the explicit orders (numpy.linspace is library behaviour)."""
    b = cfg.get("bins")
    if isinstance(b, list):
        return [float(x) for x in b]
    ok = E.allowed_mask() & ~np.isnan(E.A)
    vals = E.A[ok]
    if b is None:
        S = math.prod(E.sizes[d] for d in E.binned)
        nb = min(max(3, int(S ** 0.5)), 50)
    else:
        nb = int(b)
    return [float(x) for x in np.linspace(float(vals.min()), float(vals.max()), nb + 1)]


def py_counts(edges, vals):
    """numpy's rule: half-open bins, the last one closed; values outside [e_0, e_n] are not counted."""
    nb = len(edges) - 1
    out = [0] * nb
    for v in vals:
        for k in range(nb):
            if edges[k] <= v and (v < edges[k + 1] or (k == nb - 1 and v <= edges[k + 1])):
                out[k] += 1
                break
    return out


def expected_hist(cfg, E, combo, edges):
    cnt = py_counts(edges, E.hist_values(combo))
    T = sum(cnt)
    if not cfg.get("bins_density", True):
        return cnt, T, [float(c) for c in cnt]
    if T == 0:
        return cnt, T, None
    return cnt, T, [c / (T * (edges[k + 1] - edges[k])) for k, c in enumerate(cnt)]


def line_label(cfg, E, combo):
    pa = prop_axes(E)
    keys = []
    for p in ("hue", "color", "marker", "markersize", "linewidth", "linestyle"):
        if p in pa:
            ax = E.axes[pa[p]]
            keys.append(value_str(cfg, ax["dims"], combo[pa[p]]))
    return ", ".join(keys)


def oracle_hist(cfg, obs, E, bad, info):
    R, C = obs["shape"]
    pa = prop_axes(E)
    edges = hist_edges(cfg, E)
    info["edges"] = edges
    if any(b <= a for a, b in zip(edges, edges[1:])):
        # bins=None / int and a single distinct value: linspace(x, x) has zero-width bins (outside the guard; reported
        # separately as histogram-constant-data-zero-width-bins).  If the implementation widens the range to
        # [x - 0.5, x + 0.5] as numpy.histogram does, the case is checked like any other.
        wide = [float(v) for v in np.linspace(edges[0] - 0.5, edges[0] + 0.5, len(edges))]
        cw = [(wide[k] + wide[k + 1]) / 2 for k in range(len(wide) - 1)]
        drawn = [ln for row in obs["panels"] for P in row for ln in P["lines"] if not is_cap(ln)]
        if drawn and all(len(ln["xy"]) == len(cw) and all(close(p[0], c) and p[1] is not None and math.isfinite(p[1])
                                                          for p, c in zip(ln["xy"], cw)) for ln in drawn):
            edges = wide
            info["edges"] = edges
            info["widened"] = True
        else:
            info["degenerate"] = True
            return
    centres = [(edges[k] + edges[k + 1]) / 2 for k in range(len(edges) - 1)]
    dens = cfg.get("bins_density", True)
    # identify the panels by their titles and the lines by their labels (histogram heights carry no ids)
    def title(combo):
        parts = []
        for prop in ("col", "row"):
            if prop in pa:
                ax = E.axes[pa[prop]]
                parts.append(f"{bold(axis_name(cfg, ax['dims']))}={value_str(cfg, ax['dims'], combo[pa[prop]])}")
        return ", ".join(parts)
    bykey = {}
    for combo in E.combos():
        bykey.setdefault((title(combo), line_label(cfg, E, combo)), []).append(combo)
    placed, count = [], {}
    info["placed"] = placed
    for i in range(R):
        for j in range(C):
            P = obs["panels"][i][j]
            t = P["texts"][0] if P["texts"] else ""
            lines = [ln for ln in P["lines"] if not is_cap(ln)]
            if len(P["polys"]) != len(lines):
                bad.append(("histogram-fill-count-differs", f"panel ({i},{j}): {len(lines)} lines, {len(P['polys'])} fills"))
            for ln in lines:
                lab = "" if ln["label"].startswith("_child") else ln["label"]
                cands = bykey.get((t, lab), [])
                if len(cands) != 1:
                    bad.append(("histogram-line-unidentified", f"panel ({i},{j}) title {t!r} label {lab!r}: {len(cands)} candidate slices"))
                    continue
                combo = cands[0]
                count[combo] = count.get(combo, 0) + 1
                placed.append((i, j, combo, ln))
                cnt, T, want = expected_hist(cfg, E, combo, edges)
                got = ln["xy"]
                if want is None:
                    bad.append(("histogram-line-without-data", f"slice {combo} has no value inside the bins but a density was drawn"))
                    continue
                ok = len(got) == len(want) and all(close(g[0], c) and close(g[1], w) for g, c, w in zip(got, centres, want))
                if not ok:
                    bad.append(("histogram-differs", f"slice {combo}: drawn {[g[1] for g in got][:8]} at {[g[0] for g in got][:8]}; "
                                                     f"true {'density' if dens else 'counts'} {want[:8]} at {centres[:8]} "
                                                     f"(edges {edges[:9]}, counts {cnt[:8]})"))
                if ln["drawstyle"] != "steps-mid":
                    bad.append(("histogram-drawstyle", f"histogram drawn with drawstyle {ln['drawstyle']}"))
    for combo in E.combos():
        cnt, T, want = expected_hist(cfg, E, combo, edges)
        if T > 0 and count.get(combo, 0) == 0:
            bad.append(("slice-missing", f"slice {combo} has {T} values inside the bins but no histogram was drawn"))
    for combo, k in count.items():
        if k > 1:
            bad.append(("slice-drawn-twice", f"slice {combo} was drawn {k} times"))
    check_panels_and_styles(cfg, obs, E, placed, bad)


# ---------------------------------------------------------------- heat map
def oracle_heat(cfg, obs, E, bad, info):
    import warnings
    R, C = obs["shape"]
    pa = prop_axes(E)
    xd, yd = cfg["xdim"], cfg["ydim"]
    xs = [float(v) for v in cfg["coords"][xd]]
    ys = [float(v) for v in cfg["coords"][yd]]
    ztab = E.Ared
    placed = []
    info["placed"] = placed
    count = {}
    finite_all = ztab[np.isfinite(ztab) & E_allowed_reduced(E)]
    max_mag = float(np.max(np.abs(finite_all))) if finite_all.size else None

    def expect_matrix(combo):
        idx = E.index_of(combo)
        m = [[None] * len(xs) for _ in ys]
        for a in range(len(ys)):
            for b in range(len(xs)):
                k = list(idx)
                k[yd], k[xd] = a, b
                ridx = tuple(0 if d in E.agg else k[d] for d in range(E.n))
                m[a][b] = I.fnum(ztab[ridx])
        return m

    def title(combo):
        parts = []
        for prop in ("col", "row"):
            if prop in pa:
                ax = E.axes[pa[prop]]
                parts.append(f"{bold(axis_name(cfg, ax['dims']))}={value_str(cfg, ax['dims'], combo[pa[prop]])}")
        return ", ".join(parts)
    bytitle = {}
    for combo in E.combos():
        bytitle.setdefault(title(combo), []).append(combo)
    for i in range(R):
        for j in range(C):
            P = obs["panels"][i][j]
            if len(P["meshes"]) != 1:
                bad.append(("heatmap-mesh-count", f"panel ({i},{j}) holds {len(P['meshes'])} meshes"))
                continue
            M = P["meshes"][0]
            t = P["texts"][0] if P["texts"] else ""
            combo = None
            if "z" in M:       # identify by the data
                combos = set()
                for row in M["z"]:
                    for v in row:
                        if v is None:
                            continue
                        hit = lookup(ztab, v)
                        if len(hit) != 1:
                            combos.add(None)
                            continue
                        combos.add(combo_of_ridx(E, np.unravel_index(hit[0], ztab.shape)))
                if None in combos:
                    bad.append(("heatmap-value-not-in-dataset", f"panel ({i},{j}): a drawn z value is not a value of the dataset"))
                    continue
                if len(combos) > 1:
                    bad.append(("heatmap-mixes-slices", f"panel ({i},{j}) mixes the slices {sorted(combos)}"))
                    continue
                if combos:
                    combo = combos.pop()
            if combo is None:  # all-NaN panel or explicit colours: identify by the title
                c = bytitle.get(t, [])
                if len(c) != 1:
                    bad.append(("heatmap-panel-unidentified", f"panel ({i},{j}) titled {t!r}: {len(c)} candidate slices"))
                    continue
                combo = c[0]
            count[combo] = count.get(combo, 0) + 1
            placed.append((i, j, combo, None))
            want = expect_matrix(combo)
            if M["shape"][:2] != [len(ys), len(xs)]:
                bad.append(("heatmap-mesh-shape", f"slice {combo}: mesh of shape {M['shape']} for {len(ys)} y and {len(xs)} x values"))
                continue
            if "z" in M:
                if not all(close(M["z"][a][b], want[a][b]) for a in range(len(ys)) for b in range(len(xs))):
                    bad.append(("heatmap-values-differ", f"slice {combo}: drawn {M['z']} expected {want}"))
            else:
                from xyzpy.plot.plotter_matplotlib import to_colors
                for a in range(len(ys)):
                    for b in range(len(xs)):
                        got = M["rgba"][a][b]
                        if want[a][b] is None:
                            exp = (0.5, 0.5, 0.5, 0.5)
                        else:
                            with warnings.catch_warnings():
                                warnings.simplefilter("ignore")
                                exp = tuple(np.asarray(to_colors(np.array([want[a][b]]), alpha_pow=0.0, max_mag=max_mag)[0])[0])
                        if not all(abs(g - e) <= 1e-6 for g, e in zip(got, exp)):
                            bad.append(("heatmap-colours-differ", f"slice {combo} cell ({a},{b}): colour {got} but z={want[a][b]} maps to {exp}"))
                            break
            # the mesh: cell (a, b) must contain the point (x_b, y_a)
            xe, ye = M["xedges"], M["yedges"]
            okx = len(xe) == len(xs) + 1 and all(min(xe[b], xe[b + 1]) - 1e-9 <= xs[b] <= max(xe[b], xe[b + 1]) + 1e-9 for b in range(len(xs)))
            oky = len(ye) == len(ys) + 1 and all(min(ye[a], ye[a + 1]) - 1e-9 <= ys[a] <= max(ye[a], ye[a + 1]) + 1e-9 for a in range(len(ys)))
            if not (okx and oky and M["xedges_const"] and M["yedges_const"]):
                bad.append(("heatmap-mesh-misplaced", f"slice {combo}: mesh edges x {xe} y {ye} do not enclose x {xs} y {ys}"))
    for combo, k in count.items():
        if k > 1:
            bad.append(("slice-drawn-twice", f"slice {combo} was drawn {k} times"))
    # every combination with data must be shown
    for combo in E.combos():
        m = expect_matrix(combo)
        if any(v is not None for row in m for v in row) and count.get(combo, 0) == 0:
            bad.append(("slice-missing", f"slice {combo} has data but no mesh was drawn for it"))
    check_panels_heat(cfg, obs, E, placed, bad)


def E_allowed_reduced(E):
    ok = E.allowed_mask()
    if E.agg:
        ok = np.any(ok, axis=tuple(E.agg), keepdims=True)
    return ok


def check_panels_heat(cfg, obs, E, placed, bad):
    fake = [(i, j, combo, {"color": (0, 0, 0, 1), "marker": "", "markersize": 0.0, "linewidth": 0.0, "dash": [0.0, None]})
            for i, j, combo, _ in placed]
    check_panels_and_styles(cfg, obs, E, fake, bad)


# ------------------------------------------------------------------------------------------ the Coq model side
PROP_ID = {p: i for i, p in enumerate(FIXED_ORDER)}


def coq_nat(n):
    return f"{int(n)}%nat"


def coq_optnat(n):
    return "None" if n is None else f"(Some {int(n)}%nat)"


def coq_optz_list(flat):
    return "[" + "; ".join("None" if v is None else f"Some ({int(v)})" for v in flat) + "]"


def coq_labels(labs):
    return "[" + "; ".join(core.zlist(l) for l in labs) + "]"


def coq_bool(b):
    return "true" if b else "false"


def hist_scaled(cfg, E, edges):
    """values and edges as integers in units of 1/8, or None when they are not all multiples of 1/8."""
    def s8(v):
        f = Fraction(v) * 8
        return int(f) if f.denominator == 1 else None
    ev = [s8(e) for e in edges]
    vv = [None if v is None else s8(v) for v in cfg["vals"]]
    if any(e is None for e in ev) or any(v is None and o is not None for v, o in zip(vv, cfg["vals"])):
        return None
    return vv, ev


def spec_expr(cfg, E, iter_dims, edges=None):
    mode = cfg["mode"]
    names = cfg["names"]
    n = len(names)
    if mode == "hist":
        sc = hist_scaled(cfg, E, edges)
        if sc is None:
            return None
        yflat, ev = sc
    else:
        yflat = [None if v is None else k for k, v in enumerate(cfg["vals"])]
        ev = []
    xflat = "None"
    if cfg.get("xvals") is not None:
        xflat = "(Some " + coq_optz_list([None if v is None else k for k, v in enumerate(cfg["xvals"])]) + ")"
    maps = "[" + "; ".join(
        f"mk_mprop {PROP_ID[m['prop']]}%nat {core.natlist(m['dims'])} "
        + ("None" if m["order"] is None else f"(Some {coq_labels(m['order'])})") for m in cfg["maps"]) + "]"
    agg = cfg.get("agg")
    # (a heat map aggregates over every unmapped dimension whatever subset was named)
    aggall = mode == "hist" or agg is True or agg == "default" or (mode == "heat" and agg is not None)
    agglist = list(agg) if (isinstance(agg, list) and not aggall) else []
    it = []
    for nm in iter_dims:
        it.append([names.index(x) for x in nm.split(", ")])
    iters = "[" + "; ".join(core.natlist(d) for d in it) + "]"
    return (f"(mk_spec {core.natlist(cfg['sizes'])} {coq_optz_list(yflat)} {xflat} {coq_optnat(cfg['xdim'])} "
            f"{coq_optnat(cfg['ydim'])} {maps} {coq_bool(aggall)} {core.natlist(agglist)} {iters} "
            f"{coq_bool(cfg.get('jam'))} {coq_bool(cfg.get('palette') is not None)} 8 {core.zlist(ev)} "
            f"{coq_bool(cfg.get('bins_density', True))} {coq_bool(mode == 'hist' and cfg.get('bins') is None)})")


def members_of(E, arr, table, v):
    """canonical cell of a drawn float: the ids of the source values it is made of."""
    if v is None:
        return None
    hit = lookup(table, v)
    if len(hit) != 1:
        return "?"
    ridx = np.unravel_index(hit[0], table.shape)
    return E.cell_members(arr, [int(k) for k in ridx])


def canon_style(cfg, E, ln, tabs):
    pa = prop_axes(E)
    out = []
    # colour
    rgba = tuple(round(c, 9) for c in ln["color"])
    if "hue" in pa and "color" in pa:
        c = hue_color_param(rgba)
        if len(c) > 1:
            # a colormap is a 256-entry table: two parameters can give one colour.  Two fractions with
            # denominators up to 16 differ by more than one table cell, so the reading with the smallest
            # denominators is the only one a plot with up to 17 colour levels can have produced (the number of
            # levels actually drawn can be smaller than the number of coordinates: all-NaN slices are dropped,
            # so it is not taken from the dataset)
            best = min((h[1], h[3]) for h in c)
            ok = [h for h in c if (h[1], h[3]) == best]
            if len(ok) == 1 and best[1] <= 16:
                c = ok
        out.append(["ht", [c[0][0], c[0][1]], [c[0][2], c[0][3]]] if len(c) == 1 else ["?", len(c)])
    elif "color" in pa:
        if cfg.get("palette") is not None:
            c = palette_param(cfg["palette"], rgba)
            out.append(["t", c[0]] if len(c) == 1 else ["?", len(c)])
        else:
            ks = [k for k, col in enumerate(tabs["colors"]) if tuple(round(x, 9) for x in col) == rgba]
            out.append(["idx", ks[0]] if len(ks) == 1 else ["?", len(ks)])
    else:
        out.append(None)
    if "marker" in pa:
        out.append(tabs["markers"].index(ln["marker"]) if ln["marker"] in tabs["markers"] else "?")
    else:
        out.append(None)
    out.append((frac_of(ln["markersize"]) or "?") if "markersize" in pa else None)
    if "linestyle" in pa:
        d = (ln["dash"][0], None if ln["dash"][1] is None else tuple(ln["dash"][1]))
        out.append(tabs["dashes"].index(d) if d in tabs["dashes"] else "?")
    else:
        out.append(None)
    out.append((frac_of(ln["linewidth"]) or "?") if "linewidth" in pa else None)
    return out


def canonical(cfg, obs, E, edges=None):
    """The artists in the vocabulary of the model (nested lists / ints / None / str)."""
    tabs = default_tables()
    R, C = obs["shape"]
    mode = cfg["mode"]
    panels = []
    for i in range(R):
        for j in range(C):
            P = obs["panels"][i][j]
            items = []
            if mode in ("lines", "xvar"):
                for ln in P["lines"]:
                    if is_cap(ln):
                        continue
                    pts = []
                    for x, y in ln["xy"]:
                        if E.X is None:
                            hit = [k for k, c in enumerate(cfg["coords"][cfg["xdim"]]) if x is not None and float(c) == x]
                            xc = [hit[0]] if len(hit) == 1 else (None if x is None else "?")
                        else:
                            xc = members_of(E, E.X, E.Xred, x)
                        pts.append([xc, members_of(E, E.A, E.Ared, y)])
                    items.append([pts, canon_style(cfg, E, ln, tabs)])
            elif mode == "hist":
                for ln in P["lines"]:
                    if is_cap(ln):
                        continue
                    hs = [None if y is None else (frac_of(y, 10 ** 7) or "?") for _, y in ln["xy"]]
                    items.append([hs, canon_style(cfg, E, ln, tabs)])
            else:
                for M in P["meshes"]:
                    if "z" in M:
                        items.append([[members_of(E, E.A, E.Ared, v) for v in row] for row in M["z"]])
                    else:
                        items.append([[None if all(abs(c - 0.5) < 1e-12 for c in cell) else 1 for cell in row] for row in M["rgba"]])
            panels.append(items)
    out = [[R, C], panels]
    if mode == "hist":
        out = [True, out]
    return out


def model_pair(cfg, obs, E, edges=None):
    it = obs.get("iter_dims")
    if not isinstance(it, list):
        return None
    sp = spec_expr(cfg, E, it, edges)
    if sp is None:
        return None
    fn = {"lines": "enc_lines", "xvar": "enc_lines", "hist": "enc_hist", "heat": "enc_heat"}[cfg["mode"]]
    return f"{fn} {sp}", canonical(cfg, obs, E, edges)


# ------------------------------------------------------------------------------------------ the check
def directed(rng, mode, pred, tries=400):
    for _ in range(tries):
        cfg = gen_case(rng, mode)
        if pred(cfg):
            return cfg
    return None


def nonuniform(cfg):
    b = cfg.get("bins")
    return isinstance(b, list) and len({round(y - x, 9) for x, y in zip(b, b[1:])}) > 1


def directed_cases(rng, tier):
    """Inputs aimed at the places where a slip would hide (they run before the random stream)."""
    k = 3 if tier == "quick" else 12
    props = lambda cfg: {m["prop"] for m in cfg["maps"]}
    sz = lambda cfg, p: next((math.prod(cfg["sizes"][d] for d in m["dims"]) for m in cfg["maps"] if m["prop"] == p), 1)
    finite = lambda cfg: sum(v is not None for v in cfg["vals"]) >= 4
    wanted = []
    wanted += [("hist", lambda c: nonuniform(c) and c["bins_density"] and c["maps"] and finite(c) and c["nan"] in ("none", "scatter"))] * (2 * k)
    wanted += [("hist", lambda c: nonuniform(c) and not c["bins_density"] and finite(c))] * k
    wanted += [("hist", lambda c: c.get("bins") is None and finite(c))] * k
    wanted += [("hist", lambda c: isinstance(c.get("bins"), int) and finite(c))] * k
    wanted += [("lines", lambda c: {"row", "col"} <= props(c) and sz(c, "row") == sz(c, "col") >= 2 and c["nan"] in ("none", "scatter") and finite(c))] * (2 * k)
    wanted += [("lines", lambda c: {"row", "col"} <= props(c) and sz(c, "row") != sz(c, "col") and finite(c))] * k
    wanted += [("heat", lambda c: {"row", "col"} <= props(c) and sz(c, "row") == sz(c, "col") >= 2 and c["nan"] in ("none", "scatter"))] * k
    wanted += [("heat", lambda c: any(len(m["dims"]) > 1 for m in c["maps"]) and finite(c))] * k
    wanted += [("lines", lambda c: len(props(c) & {"hue", "color", "marker", "markersize", "linestyle", "linewidth"}) >= 3 and finite(c))] * (2 * k)
    wanted += [("lines", lambda c: {"hue", "color"} <= props(c) and finite(c))] * k
    wanted += [("lines", lambda c: c["nan"] == "outside-order" and sum(m["order"] is not None for m in c["maps"]) >= 1 and len(c["maps"]) >= 2 and finite(c))] * (2 * k)
    wanted += [("lines", lambda c: c["jam"] and c["nan"] in ("scatter", "mixed") and finite(c))] * k
    wanted += [("xvar", lambda c: c["maps"] and finite(c))] * k
    for er in (None, 0.5, 0.0, 1.0, 0.8, "std", "stderr"):
        for st in ("band", "bars"):
            wanted.append(("lines", lambda c, er=er, st=st: c["agg"] is not None and c.get("agg_err") == er
                           and (c.get("err_style") or "band") == st and finite(c)))
    # every dimension mapped: '__hist_dim__' has one entry (raised before the repair of
    # histogram-all-dims-mapped-raises), with default, integer and explicit bins
    wanted += [("hist", lambda c: c["maps"] and not Expect(c).binned and c.get("bins") is None and finite(c))] * 2
    wanted += [("hist", lambda c: c["maps"] and not Expect(c).binned and isinstance(c.get("bins"), int) and finite(c))]
    wanted += [("hist", lambda c: c["maps"] and not Expect(c).binned and nonuniform(c) and finite(c))] * 2
    out = []
    for mode, pred in wanted:
        cfg = directed(rng, mode, pred)
        if cfg is not None:
            cfg["stream"] = "directed"
            out.append(cfg)
    return out


def n_expected_artists(cfg, E):
    try:
        if cfg["mode"] in ("lines", "xvar"):
            return len(expected_lines(E))
        return len(E.combos())
    except Exception:
        return 0


def call_text(cfg):
    args, kw = I.call_args(cfg)
    def r(v):
        if isinstance(v, np.ndarray):
            return "np.array(" + repr(v.tolist()) + ")"
        return repr(v)
    return "ds.xyz.infiniplot(" + ", ".join([repr(a) for a in args] + [f"{k}={r(v)}" for k, v in kw.items()]) + ")"


def dataset_text(cfg):
    dv = {cfg["var"]: cfg["vals"]}
    if cfg.get("xvals") is not None:
        dv[cfg["xvar"]] = cfg["xvals"]
    return (f"dims={cfg['names']} sizes={cfg['sizes']} coords={cfg['coords']}; variables (row-major, None = NaN): "
            + "; ".join(f"{k}={v}" for k, v in dv.items()))


def replay_dict(cfg, obs):
    return {"config": cfg, "call": call_text(cfg), "dataset": dataset_text(cfg),
            "observed": {k: obs.get(k) for k in ("error", "message", "where", "shape", "pure")}}


def evaluate(c, cfg, pairs, metas):
    """One case: run the implementation, the oracle, and prepare the model comparison."""
    E = Expect(cfg)
    obs = I.observe(cfg)
    try:
        bad, info = oracle(cfg, obs, E)
    except Exception as e:   # a bug of the harness must not pass silently
        c.obligation_broken("harness: the oracle raised", {"error": f"{type(e).__name__}: {e}", "config": cfg})
        return
    nexp = n_expected_artists(cfg, E)
    nontrivial = (not info.get("degenerate")) and (
        nexp >= 2 or any(m["order"] is not None or len(m["dims"]) > 1 for m in cfg["maps"]) or any(v is None for v in cfg["vals"]))
    sample = {"call": call_text(cfg), "sizes": dict(zip(cfg["names"], cfg["sizes"])), "nan_pattern": cfg["nan"],
              "missing_values": sum(v is None for v in cfg["vals"]), "expected_artists": nexp,
              "figure_shape": obs.get("shape"), "outcome": obs.get("error", "degenerate" if info.get("degenerate") else "ok")}
    c.case(signature(cfg), nontrivial=nontrivial, sample=sample)
    c.count("mode", cfg["mode"])
    c.count("ndims", len(cfg["sizes"]))
    c.count("mapped_groups", len(cfg["maps"]))
    for m in cfg["maps"]:
        c.count("property", m["prop"])
        c.count("fused", len(m["dims"]) > 1)
        c.count("explicit_order", m["order"] is not None)
    c.count("nan_pattern", cfg["nan"])
    c.count("palette", cfg.get("palette") is not None)
    c.count("stream", cfg.get("stream", "random"))
    if cfg["mode"] in ("lines", "xvar"):
        c.count("join_across_missing", bool(cfg["jam"]))
        a = cfg.get("agg")
        c.count("aggregate", "off" if a is None else ("True" if a is True else "list"))
        if a is not None:
            c.count("aggregate_err_range", str(cfg.get("agg_err")))
            c.count("err_style", str(cfg.get("err_style")))
    if cfg["mode"] == "hist":
        b = cfg.get("bins")
        c.count("histogram_over", "unmapped dimensions" if E.binned else "single values (every dimension mapped)")
        c.count("bins", "None" if b is None else ("int" if isinstance(b, int) else ("non-uniform" if nonuniform(cfg) else "uniform")))
        c.count("bins_density", bool(cfg.get("bins_density", True)))
    c.count("outcome", "degenerate (nothing to draw)" if info.get("degenerate") else obs.get("error", "ok"))
    for key, msg in bad:
        c.violation(key, msg, replay_dict(cfg, obs))
    if info.get("degenerate") or "error" in obs:
        return
    # colours are read back through a finite table (24 hue x 25 colour levels): a plot with more levels is
    # checked by the oracle above only
    pa = prop_axes(E)
    if "hue" in pa and "color" in pa and (len(E.axes[pa["hue"]]["labels"]) > 24
                                          or len(E.axes[pa["color"]]["labels"]) > 25):
        c.count("model_comparison", "skipped (more hue / colour levels than the read-back table holds)")
        return
    try:
        mp = model_pair(cfg, obs, E, info.get("edges"))
    except Exception as e:
        c.obligation_broken("harness: canonicalisation raised", {"error": f"{type(e).__name__}: {e}", "config": cfg})
        return
    if mp is None:
        c.count("model_comparison", "skipped (edges not multiples of 1/8 or no iteration order)")
        return
    c.count("model_comparison", "done")
    pairs.append(mp)
    metas.append((cfg, obs, bool(bad)))


def run(tier, seed):
    c = core.Check("C18", tier, seed)
    for attempt in range(3):
        gen = core.regen()
        b = core.build(PROP_FILE)
        g = gen.get("GenInfini", {"ok": False, "detail": "unit GenInfini is not registered"})
        if not g["ok"] or gen_file_current():
            break       # else: another process regenerated Gen/ from a different tree in between -- do it again
    else:
        c.obligation_broken("Gen/GenInfini.v keeps being overwritten by another process",
                            "the bridge lemmas were not checked against this source tree")
    c.cov["translator"] = g
    c.cov["build"] = {"ok": b["ok"], "failed_file": b["failed_file"], "wall_s": round(b.get("wall_s", 0), 1)}
    if not g["ok"]:
        c.obligation_broken("translator GenInfini", g["detail"])
    if not b["ok"]:
        c.obligation_broken(f"Coq build of {b['failed_file']}", b["log_tail"][-1200:])
    search = "thorough" if (c.broken or tier == "thorough") else "quick"
    n_random = 900 if search == "quick" else (11000 if tier == "thorough" else 4000)
    pairs, metas = [], []
    cases = directed_cases(c.rng, search)
    for _ in range(n_random):
        cases.append(gen_case(c.rng))
    for cfg in cases:
        evaluate(c, cfg, pairs, metas)
    model_ok = os.path.exists(os.path.join(core.COQ, "Model", "Infini.vo"))
    nbad = 0
    if model_ok:
        bad, _ = core.safe_run_cases(c, IMPORTS, pairs, chunk=150)
        nbad = len(bad)
        for i in bad:
            cfg, obs, oracle_unhappy = metas[i]
            if not oracle_unhappy:
                c.obligation_broken("correspondence Model/Infini.v vs infiniplot.py",
                                    {"call": call_text(cfg), "dataset": dataset_text(cfg), "config": cfg,
                                     "iteration_order": obs.get("iter_dims"), "model": pairs[i][0][:1500],
                                     "observed": json.dumps(pairs[i][1])[:1500]})
    else:
        c.obligation_broken("model evaluation: Model/Infini.vo is missing", b.get("log_tail", "")[-400:])
    if tier == "thorough" and b["ok"]:
        import fcntl
        with open(core.LOCK, "w") as lk:
            fcntl.flock(lk, fcntl.LOCK_EX)
            rc, out = core.sh("timeout 600 coqchk -silent -o -R . XV XV.Props.C18", timeout=630, cwd=core.COQ)
        tail = " ".join(out.strip().splitlines()[-6:])[-600:]
        c.cov["coqchk"] = {"cmd": "coqchk -silent -o -R . XV XV.Props.C18", "ok": rc == 0, "summary": tail}
        if rc != 0:
            c.obligation_broken("coqchk of Props/C18.vo", out[-800:])
    c.cov["disagreements_checked"] = nbad
    c.cov["model_comparisons"] = len(pairs)
    c.cov["exhaustive"] = False
    c.notes.append("degenerate cases (no finite value inside the explicit orders, or a single distinct value with default "
                   "bins) are generated and run but nothing is required of them: there is nothing to draw")
    c.notes.append("observation outside the guard (key histogram-constant-data-zero-width-bins, reported separately): with "
                   "bins=None / int and all values equal, linspace(xmin, xmax) gives zero-width bins and the drawn "
                   "density is nan / inf; such cases are counted as degenerate, nothing is required of them")
    c.notes.append("histogram cases whose default edges are not multiples of 1/8 are checked by the oracle (floats, "
                   "tolerance 1e-9) but not compared with the integer model")
    c.notes.append("aggregation statistics, error bands / bars, heat-map colours without a palette, bin centres: "
                   "numeric TESTS (tolerance), not theorems")
    c.assumptions = [
        "at least one finite value lies inside the explicit orders (otherwise there is nothing to draw and matplotlib "
        "refuses a 0 x 0 grid)",
        "each dimension is mapped to at most one property (injective assignment); explicit orders list existing, "
        "distinct labels; histogram bin edges are strictly increasing",
        "coordinates of a dimension are distinct; all finite data values are distinct (so artists identify slices)",
        "numpy / xarray / matplotlib behave as observed (differential test); Dataset.sizes order is read from the "
        "implementation",
    ]
    return c.finish(b, PROP_FILE, TRUSTED, RULE)


def gen_file_current():
    """Is coq/Gen/GenInfini.v (what the bridge was compiled against) the translation of THIS source tree?"""
    try:
        from harness.translator import gen_infini
        return open(os.path.join(core.COQ, "Gen", "GenInfini.v")).read() == gen_infini.generate(core.REPO)
    except Exception:
        return True     # a refusal is reported through core.regen()


def replay(path):
    r = json.load(open(path))
    if "replay" not in r or "config" not in r.get("replay", {}):
        print(json.dumps(r, indent=1, default=str)[:4000])
        return 1
    cfg = r["replay"]["config"]
    print("dataset:", dataset_text(cfg))
    print("call   :", call_text(cfg))
    E = Expect(cfg)
    obs = I.observe(cfg)
    bad, info = oracle(cfg, obs, E)
    if "error" in obs:
        print("raised :", obs["error"], obs["message"], obs["where"])
    else:
        print("figure :", obs["shape"], "panels;",
              sum(len([l for l in P["lines"] if not is_cap(l)]) for row in obs["panels"] for P in row), "lines;",
              sum(len(P["meshes"]) for row in obs["panels"] for P in row), "meshes")
    for k, m in bad:
        print("FAILS:", k, "--", m)
    if not bad:
        print("no violation on this input")
    return 1 if bad else 0
