"""C18 -- infiniplot draws each data slice once, correctly styled and correctly placed."""
import itertools
import json
import math
import os
from fractions import Fraction

import numpy as np

from harness import core
from harness.impl import infini as I

PROP_FILE = "Props/C18.v"
IMPORTS = "Prelude Grid Infini"
STYLE_PROPS = ["color", "marker", "markersize", "linestyle", "linewidth"]       # order of a canonical style record
MAPPABLE = ["hue", "color", "marker", "markersize", "linestyle", "linewidth", "col", "row"]
FIXED_ORDER = ["hue", "color", "marker", "markersize", "markeredgecolor", "linestyle", "linewidth", "col", "row"]
PALETTES = ["viridis", "plasma"]
TOL = 1e-9

TRUSTED = [
    "Coq 8.16.1 kernel (coqc, full .vo build); vm_compute for the non-vacuity Examples and for evaluating cases",
    "PROVED for all sizes (Props/C18.v over Model/Infini.v): which coordinate combinations are drawn (exactly those "
    "of the domains that have data, each once, in product order), the panel (index of the row / column coordinate), "
    "the data of a line (the slice, gaps kept or removed), style = function of the mapped coordinate, injective below "
    "the number of distinct defaults (cyclic markers / line styles, strictly monotone linspace), dropna(how='all') "
    "never loses a coordinate combination that has data, heat-map mesh cell (i, j) = z(y_i, x_j), histogram bins "
    "partition [e_0, e_n] and the density integrates to 1 over the true bin widths",
    "hand model Model/Infini.v of Infiniplotter.__init__ / init_mapped_dim / plot_lines / plot_heatmap / the histogram "
    "branch, tied to the code by (i) translator harness/translator/gen_infini.py -> Gen/GenInfini.v + "
    "Bridge/BridgeInfini.v (fixed order of init_mapped_dim calls, hue->color rule, dropna how, lengths and "
    "distinctness of the default marker / line-style / colour lists, linspace end points, style loop of plot_lines) "
    "and (ii) differential execution against the artists of the returned (fig, axs)",
    "ONLY TESTED (differential / numeric, not proved): xarray stack / sel / dropna / isel / reductions and "
    "Dataset.sizes order (the iteration order of the dimensions is READ from the implementation and given to the "
    "model), matplotlib artist construction (Line2D, QuadMesh, PolyCollection), numpy histogram / linspace / "
    "nanmedian / nanquantile / nanstd (compared with tolerance 1e-9), colour tables (auto_colors, colormaps, cimple: "
    "the INDEX / parameter of a colour is checked, the table itself is trusted), heat-map colours with palette=None "
    "(compared with xyzpy's own to_colors on the expected z), error bands / bars (vertices compared numerically), "
    "legends, titles (checked as strings), everything about rendering (pixels, layout, fonts: out of scope)",
    "harness: generator, artist reader harness/impl/infini.py (uses the private Line2D._unscaled_dash_pattern to read "
    "a dash pattern), float -> id maps (all finite data values are distinct), the Python oracle of the property "
    "statement (used to search for violations)",
]
RULE = ("seeded random cases: datasets with 2-5 dimensions (sizes 1-4, int / float / str coordinates, shuffled "
        "names), NaN patterns (none, scattered, whole slice, whole coordinate, coordinate with data only outside an "
        "explicit order), injective assignments of <= 4 dimension groups (single or fused tuples) to hue / color / "
        "marker / markersize / linestyle / linewidth / col / row with optional explicit orders, modes lines / lines "
        "with a data variable as x / histogram / heat map, aggregate off / True / list x err range {quantile, std, "
        "stderr} x band / bars, join_across_missing, bins None / int / uniform / non-uniform edges x bins_density, "
        "palette on / off; distinct = distinct (mode, shape, mapping, options, NaN mask) signatures; non-trivial = "
        "at least two artists expected or an explicit order / fused dimension / NaN in the data")


# ------------------------------------------------------------------------------------------ generation
def gen_case(rng, mode=None, force=None):
    force = force or {}
    mode = mode or rng.choice(["lines"] * 6 + ["xvar"] * 2 + ["hist"] * 3 + ["heat"] * 3)
    n = force.get("n") or rng.choice([2, 3, 3, 4, 4, 5])
    if mode == "heat" and n < 2:
        n = 2
    names = rng.sample(I.DIM_NAMES, n)
    sizes = [rng.choice([1, 2, 2, 3, 3]) for _ in range(n)]
    special = []
    if mode in ("lines", "xvar"):
        xdim = rng.randrange(n)
        sizes[xdim] = rng.choice([1, 2, 3, 3, 4])
        special = [xdim]
        ydim = None
    elif mode == "heat":
        xdim, ydim = rng.sample(range(n), 2)
        sizes[xdim] = rng.choice([2, 3, 4])
        sizes[ydim] = rng.choice([2, 3])
        special = [xdim, ydim]
    else:
        xdim = ydim = None
    while math.prod(sizes) > 150:
        i = max(range(n), key=lambda k: sizes[k])
        sizes[i] -= 1
    coords = []
    for d in range(n):
        kind = rng.choice(["int", "float", "str"])
        if d in special:
            kind = rng.choice(["int", "float"])
        if kind == "int":
            c = rng.sample(range(-9, 40), sizes[d])
        elif kind == "float":
            c = [v / 4.0 for v in rng.sample(range(-20, 60), sizes[d])]
        else:
            c = rng.sample(["u", "v", "w", "p", "q", "zz", "A", "b2"], sizes[d])
        if d in special or rng.random() < 0.5:
            c = sorted(c)
        coords.append(c)
    ncell = math.prod(sizes)
    vals = [v / 8.0 for v in rng.sample(range(-1600, 1600), ncell)]
    cfg = {"mode": mode, "names": names, "sizes": sizes, "coords": coords, "var": "y" if mode != "heat" else "z",
           "xdim": xdim, "ydim": ydim, "xvals": None, "xvar": None}
    if mode == "hist":
        cfg["var"] = "v"
    if mode == "xvar":
        cfg["xvar"] = "xv"
        cfg["xvals"] = [v / 8.0 for v in rng.sample(range(2000, 6000), ncell)]
    # ---- mapping
    others = [d for d in range(n) if d not in special]
    rng.shuffle(others)
    props = ["row", "col"] if mode == "heat" else list(MAPPABLE)
    kmax = min(4, len(props), len(others))
    k = rng.randint(0, kmax) if others else 0
    if k == 0 and others and rng.random() < 0.8:
        k = 1
    groups, rest = [], list(others)
    for _ in range(k):
        if not rest:
            break
        g = [rest.pop()]
        while rest and rng.random() < 0.3 and len(g) < 3:
            g.append(rest.pop())
        groups.append(g)
    chosen = rng.sample(props, len(groups))
    maps = []
    for p, g in zip(chosen, groups):
        m = {"prop": p, "dims": g, "order": None}
        labs = list(itertools.product(*[range(sizes[d]) for d in g]))
        if rng.random() < 0.4:
            kk = rng.randint(1, len(labs))
            m["order"] = [list(l) for l in rng.sample(labs, kk)]
        maps.append(m)
    cfg["maps"] = maps
    unmapped = sorted(rest)
    # ---- options
    cfg["palette"] = rng.choice(PALETTES) if rng.random() < 0.4 else None
    cfg["jam"] = mode in ("lines", "xvar") and rng.random() < 0.35
    cfg["agg"] = None
    if mode in ("lines", "xvar"):
        r = rng.random()
        if unmapped and r < 0.5:
            cfg["agg"] = True if rng.random() < 0.5 else sorted(rng.sample(unmapped, rng.randint(1, len(unmapped))))
        elif not unmapped and r < 0.08:
            cfg["agg"] = True
    elif mode == "heat" and unmapped:
        cfg["agg"] = True if rng.random() < 0.7 else "default"
    if cfg["agg"] is not None:
        cfg["agg_err"] = rng.choice([None, 0.5, 0.0, 1.0, 0.8, "std", "stderr"])
        cfg["agg_method"] = rng.choice([None, None, "median", "mean"])
        cfg["err_style"] = rng.choice([None, None, "band", "bars"]) if mode != "heat" else None
        cfg["agg_as_str"] = rng.random() < 0.3
    if mode == "hist":
        allv = sorted(vals)
        r = rng.random()
        if r < 0.25:
            cfg["bins"] = None
        elif r < 0.45:
            cfg["bins"] = rng.randint(1, 6)
        else:
            lo8, hi8 = int(allv[0] * 8), int(allv[-1] * 8)
            a = rng.randint(lo8 - 40, lo8 + (hi8 - lo8) // 3)
            if r < 0.7:      # uniform explicit edges
                nb = rng.randint(1, 6)
                w = max(1, (rng.randint(hi8 - (hi8 - lo8) // 3, hi8 + 40) - a) // nb)
                e = [a + i * w for i in range(nb + 1)]
            else:            # non-uniform explicit edges
                nb = rng.randint(2, 6)
                b = rng.randint(hi8 - (hi8 - lo8) // 3, hi8 + 40)
                inner = sorted(rng.sample(range(a + 1, max(a + nb + 2, b)), nb - 1))
                e = [a] + inner + [max(b, inner[-1] + 1)]
                if len(set(e[i + 1] - e[i] for i in range(nb))) == 1:
                    e[-1] += 3
            if rng.random() < 0.4 and vals:   # an edge exactly on a data value (closed / half-open rule)
                j = rng.randrange(len(e))
                v8 = int(rng.choice(vals) * 8)
                if all(x != v8 for x in e) and (j == 0 or e[j - 1] < v8) and (j == len(e) - 1 or v8 < e[j + 1]):
                    e[j] = v8
            cfg["bins"] = [x / 8.0 for x in e]
            cfg["bins_as_array"] = rng.random() < 0.5
        cfg["bins_density"] = rng.random() < 0.6
    cfg["legend"] = rng.choice([None, None, None, False])
    cfg["legend_merge"] = cfg["legend"] is None and rng.random() < 0.1
    # colours without a palette: the default colour table is indexable without knowing N only below 7 entries
    for m in maps:
        if m["prop"] in ("color", "hue") and not any(x["prop"] in ("color", "hue") for x in maps if x is not m):
            nlab = len(m["order"]) if m["order"] is not None else math.prod(sizes[d] for d in m["dims"])
            if nlab >= 7 and cfg["palette"] is None:
                cfg["palette"] = rng.choice(PALETTES)
    # ---- NaN pattern
    cfg["nan"] = rng.choice(["none", "scatter", "scatter", "slice", "coord", "mixed", "outside-order"])
    cfg["vals"] = nan_pattern(rng, cfg, vals)
    if mode == "xvar" and rng.random() < 0.5:
        cfg["xvals"] = [None if rng.random() < 0.12 else v for v in cfg["xvals"]]
    if mode == "hist" and all(v is None for v in cfg["vals"]):
        cfg["vals"][0] = vals[0]
    return cfg


def nan_pattern(rng, cfg, vals):
    sizes = cfg["sizes"]
    n = len(sizes)
    a = np.array(vals, dtype=float).reshape(sizes)
    kind = cfg["nan"]
    free = [d for d in range(n) if d != cfg["xdim"]] or list(range(n))

    def some_index(dims):
        idx = [slice(None)] * n
        for d in dims:
            idx[d] = rng.randrange(sizes[d])
        return tuple(idx)
    if kind in ("scatter", "mixed"):
        p = rng.choice([0.1, 0.25, 0.5])
        mask = np.array([rng.random() < p for _ in range(a.size)]).reshape(sizes)
        a[mask] = np.nan
    if kind in ("slice", "mixed"):
        for _ in range(rng.randint(1, 3)):
            a[some_index(free)] = np.nan
    if kind in ("coord", "mixed"):
        for _ in range(rng.randint(1, 2)):
            a[some_index([rng.choice(free)])] = np.nan
    if kind == "outside-order":
        # a coordinate of one mapped dimension that has data only at labels which another (ordered) mapped
        # dimension leaves out: whether it survives dropna depends on the fixed processing order
        ordered = [m for m in cfg["maps"] if m["order"] is not None]
        othermaps = [m for m in cfg["maps"]]
        if ordered and len(othermaps) >= 2:
            mo = rng.choice(ordered)
            mb = rng.choice([m for m in othermaps if m is not mo])
            alllabs = list(itertools.product(*[range(sizes[d]) for d in mo["dims"]]))
            out = [l for l in alllabs if list(l) not in mo["order"]]
            db = rng.choice(mb["dims"])
            b0 = rng.randrange(sizes[db])
            keep = np.zeros(sizes, dtype=bool)
            for l in out:
                idx = [slice(None)] * n
                for d, i in zip(mo["dims"], l):
                    idx[d] = i
                keep[tuple(idx)] = True
            idx = [slice(None)] * n
            idx[db] = b0
            sel = np.zeros(sizes, dtype=bool)
            sel[tuple(idx)] = True
            a[sel & ~keep] = np.nan
        else:
            a[some_index([rng.choice(free)])] = np.nan
    return [None if math.isnan(v) else float(v) for v in a.ravel().tolist()]


def signature(cfg):
    mask = "".join("1" if v is None else "0" for v in cfg["vals"])
    return json.dumps([cfg["mode"], cfg["sizes"], cfg["xdim"], cfg["ydim"],
                       [(m["prop"], m["dims"], m["order"]) for m in cfg["maps"]], cfg["agg"], cfg.get("agg_err"),
                       cfg.get("agg_method"), cfg.get("err_style"), cfg["jam"], cfg["palette"], cfg.get("bins"),
                       cfg.get("bins_density"), hash(mask) if len(mask) > 64 else mask], default=str)


# ------------------------------------------------------------------------------------------ expected structure
class Expect:
    """What the PROPERTY STATEMENT requires for a case, computed directly from the raw arrays with numpy (no
    xarray, no xyzpy): the coordinate combinations, their slices, the float -> id tables."""

    def __init__(self, cfg):
        self.cfg = cfg
        self.sizes = cfg["sizes"]
        self.n = len(self.sizes)
        self.A = I.arr(cfg["vals"], self.sizes)
        self.X = I.arr(cfg["xvals"], self.sizes) if cfg.get("xvals") is not None else None
        self.ids = np.arange(self.A.size).reshape(self.sizes)
        mode = cfg["mode"]
        maps = cfg["maps"]
        mapped_dims = [d for m in maps for d in m["dims"]]
        special = [d for d in (cfg["xdim"], cfg["ydim"]) if d is not None]
        self.unmapped = [d for d in range(self.n) if d not in mapped_dims and d not in special]
        agg = cfg.get("agg")
        if mode == "hist":
            self.agg = []
            self.binned = list(self.unmapped)
        elif agg is True or agg == "default":
            self.agg = list(self.unmapped)
        elif agg is None:
            self.agg = []
        else:
            self.agg = sorted(agg)
        self.binned = list(self.unmapped) if mode == "hist" else []
        # axes that are iterated: mapped groups, then unmapped dimensions that are neither aggregated nor binned
        self.axes = [{"prop": m["prop"], "dims": list(m["dims"]),
                      "labels": [tuple(l) for l in (m["order"] if m["order"] is not None else
                                                    itertools.product(*[range(self.sizes[d]) for d in m["dims"]]))],
                      "ordered": m["order"] is not None} for m in maps]
        for d in self.unmapped:
            if d not in self.agg and d not in self.binned:
                self.axes.append({"prop": None, "dims": [d], "labels": [(i,) for i in range(self.sizes[d])],
                                  "ordered": False})
        self.method = cfg.get("agg_method") or "median"
        self.aggregated = agg is not None and mode != "hist"
        if self.aggregated:
            self.Ared = self.reduce(self.A, self.method)
            self.Xred = self.reduce(self.X, self.method) if self.X is not None else None
        else:
            self.Ared, self.Xred = self.A, self.X

    def reduce(self, a, how, q=None):
        import warnings
        ax = tuple(self.agg)
        with warnings.catch_warnings():
            warnings.simplefilter("ignore")
            if not ax:
                if how in ("median", "mean", "quantile"):
                    return a.copy()
                if how == "std":
                    return np.where(np.isnan(a), np.nan, 0.0)
                if how == "count":
                    return (~np.isnan(a)).astype(float)
            if how == "median":
                return np.nanmedian(a, axis=ax, keepdims=True)
            if how == "mean":
                return np.nanmean(a, axis=ax, keepdims=True)
            if how == "std":
                return np.nanstd(a, axis=ax, keepdims=True)
            if how == "count":
                return np.sum(~np.isnan(a), axis=ax, keepdims=True).astype(float)
            if how == "quantile":
                return np.nanquantile(a, q, axis=ax, keepdims=True)
        raise ValueError(how)

    def members(self, idx):
        """ids of the non-NaN source cells of the (possibly aggregated) cell at full index idx (aggregated
        positions are ignored)."""
        sl = tuple(slice(None) if d in self.agg else idx[d] for d in range(self.n))
        return sl

    def cell_members(self, arr, idx):
        sl = tuple(slice(None) if d in self.agg else idx[d] for d in range(self.n))
        sub = np.asarray(arr[sl]).ravel()
        ids = np.asarray(self.ids[sl]).ravel()
        return [int(i) for i, v in zip(ids, sub) if not math.isnan(v)]

    def combos(self):
        return list(itertools.product(*[ax["labels"] for ax in self.axes]))

    def index_of(self, combo, xpos=None):
        idx = [0] * self.n
        for ax, lab in zip(self.axes, combo):
            for d, i in zip(ax["dims"], lab):
                idx[d] = i
        if xpos is not None and self.cfg["xdim"] is not None:
            idx[self.cfg["xdim"]] = xpos
        return idx

    def series(self, combo):
        """[(x value or None, y value or None, x members, y members)] along the x dimension."""
        cfg = self.cfg
        xd = cfg["xdim"]
        out = []
        for xp in range(self.sizes[xd]):
            idx = self.index_of(combo, xp)
            ridx = tuple(0 if d in self.agg else idx[d] for d in range(self.n))
            yv = I.fnum(self.Ared[ridx])
            ym = self.cell_members(self.A, idx)
            if self.X is None:
                xv, xm = float(cfg["coords"][xd][xp]), [xp]
            else:
                xv, xm = I.fnum(self.Xred[ridx]), self.cell_members(self.X, idx)
            out.append((xv, yv, xm, ym))
        return out

    def hist_values(self, combo):
        idx = self.index_of(combo)
        sl = tuple(slice(None) if d in self.binned else idx[d] for d in range(self.n))
        sub = np.asarray(self.A[sl]).ravel()
        return [float(v) for v in sub if not math.isnan(v)]

    def allowed_mask(self):
        """Cells whose coordinates are allowed by every explicit order."""
        ok = np.ones(self.sizes, dtype=bool)
        for ax in self.axes:
            if ax["ordered"]:
                m = np.zeros(self.sizes, dtype=bool)
                for lab in ax["labels"]:
                    idx = [slice(None)] * self.n
                    for d, i in zip(ax["dims"], lab):
                        idx[d] = i
                    m[tuple(idx)] = True
                ok &= m
        return ok


def close(a, b, tol=TOL):
    if a is None or b is None:
        return a is None and b is None
    return abs(a - b) <= tol * max(1.0, abs(a), abs(b))


def lookup(table, v):
    """indices of the entries of the float table equal (within TOL) to v."""
    if v is None:
        return []
    t = np.asarray(table, dtype=float).ravel()
    return [int(i) for i in np.flatnonzero(np.abs(t - v) <= TOL * np.maximum(1.0, np.abs(t)))]


# ------------------------------------------------------------------------------------------ style reading
def default_tables():
    """Default style tables, read from the implementation's module constants (trusted tables; the INDEX into
    them is what is checked).  Their lengths are also extracted by the translator."""
    import xyzpy.plot.infiniplot as ip
    import matplotlib.colors as mc
    return {"markers": list(ip._MARKERS_DEFAULT),
            "dashes": [dash_canon(x) for x in ip._LINESTYLES_DEFAULT],
            "colors": [tuple(mc.to_rgba(c)) for c in ip._COLORS_DEFAULT]}


def dash_canon(ls):
    if ls == "solid":
        return (0.0, None)
    off, seq = ls
    return (float(off), tuple(float(s) for s in seq))


def frac_of(x, maxden=1000):
    f = Fraction(x).limit_denominator(maxden)
    if abs(float(f) - x) > 1e-9:
        return None
    return [f.numerator, f.denominator]


_CMAP_CACHE = {}


def palette_param(palette, rgba):
    """Invert colormap(t) for t a fraction with denominator <= 11: the reduced fraction, or None."""
    import matplotlib.pyplot as plt
    key = ("pal", palette)
    if key not in _CMAP_CACHE:
        cm = plt.get_cmap(palette)
        tab = {}
        for den in range(1, 12):
            for num in range(0, den + 1):
                f = Fraction(num, den)
                col = tuple(round(c, 9) for c in cm(float(np.linspace(0.0, 1.0, den + 1)[num])))
                tab.setdefault(col, set()).add((f.numerator, f.denominator))
        _CMAP_CACHE[key] = tab
    hits = _CMAP_CACHE[key].get(tuple(round(c, 9) for c in rgba), set())
    return [list(h) for h in sorted(hits)]


def hue_color_param(rgba):
    """Invert cimple-colormap(h)(t): h = k/N (N <= 9) of the default hue sweep, t = k/(N-1)."""
    import xyzpy.plot.infiniplot as ip
    key = "huecol"
    if key not in _CMAP_CACHE:
        tab = {}
        opts = {"val1": 1.0, "sat1": 0.3, "val2": 0.6}
        for hden in range(1, 10):
            hs = np.linspace(0.6, 0.6 - 1.0, hden, endpoint=False)
            for hnum in range(hden):
                cm = ip.to_colormap(float(hs[hnum]), **opts)
                hf = Fraction(hnum, hden)
                for den in range(1, 10):
                    ts = np.linspace(0.0, 1.0, den + 1) if den >= 1 else [0.0]
                    for num in range(den + 1):
                        tf = Fraction(num, den)
                        col = tuple(round(c, 9) for c in cm(float(ts[num])))
                        tab.setdefault(col, set()).add((hf.numerator, hf.denominator, tf.numerator, tf.denominator))
        _CMAP_CACHE[key] = tab
    hits = _CMAP_CACHE[key].get(tuple(round(c, 9) for c in rgba), set())
    return [list(h) for h in sorted(hits)]
