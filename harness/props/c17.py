"""C17 -- classic line, scatter, histogram and heat-map plots draw exactly the data.

Each generated case (a raw dataset + one plotting call) is
  (a) run on the real xyzpy (matplotlib backend Agg) and the artists of the returned figure are read back into
      the integer ids of the dataset values,
  (b) checked against the PROPERTY STATEMENT by a Python oracle that works on the raw dataset only
      (independent of the Coq model), and
  (c) compared with Model/PlotSeries.v evaluated inside Coq (correspondence).
The theorems of Props/C17.v are about the logic xyzpy adds (series extraction and masking, bin membership,
mesh orientation, panel of a slice, colour index); what matplotlib does with the arrays it is handed is only
TESTED here (differential test), never proved.
"""
import json
import math
from fractions import Fraction

from harness import core
from harness.impl import plots as P
from harness.props import c17gen as G

PROP_FILE = "Props/C17.v"
IMPORTS = "Prelude PlotSeries PlotFlow GenPlot"
TRUSTED = [
    "Coq 8.16.1 kernel (coqc, full .vo build); vm_compute for the non-vacuity Examples, the _refuted witness and "
    "for evaluating cases",
    "PROVED (for all datasets and sizes, over Model/PlotSeries.v): one series per z value / listed variable in "
    "order with its label; drawn points = the (x, y) pairs with both finite, in data order, companions "
    "(c, y_err, x_err) under the same mask; an all-non-finite series is present, empty and shifts nothing; "
    "numpy's bin rule partitions [e_0, e_n] and the counts add up to the in-range values; mesh[i][j] = z at "
    "(y_i, x_j) whatever the stored dimension order; slice (row_i, col_j) sits in panel (i, j) = axes number "
    "i * ncols + j with its titles; the colour-table index is monotone in the value, 0 at vmin and N-1 at vmax; "
    "scatter c= points are all coloured on the one dataset-wide scale (the pre-repair per-series scaling is "
    "refuted: C17_scatter_c_scale_refuted_old)",
    "ONLY TESTED (differential test against matplotlib 3.11 / numpy 2.5 / xarray 2026.7, backend Agg, labelled "
    "as such): that Line2D / ErrorbarContainer / PathCollection / Polygon / QuadMesh artists hold exactly the "
    "arrays xyzpy computed, that Axes.hist bins as numpy.histogram does, legend and colour-bar contents, "
    "xarray selection / broadcast / transpose order, Normalize and Colormap.__call__ in binary64; rendering "
    "(pixels, layout, fonts) is out of scope",
    "hand model Model/PlotSeries.v of gen_xy / prepare_x_vals_histogram / prepare_heatmap_data / "
    "calc_color_norm / calc_line_colors / mpl_multi_plot, tied to the code by differential execution; in addition "
    "translator gen_plot.py regenerates the data path of xyzpy/plot/core.py as data (the arrays that decide the "
    "finite-mask of a series, the arrays it is applied to, what the histogram is fed, the mesh orientation), checks "
    "the shape of the statements around it (sources per branch, joint broadcast, positional z selection, colour-scale "
    "limits, colour of a series) and pins 13 small helpers; Model/PlotFlow.v interprets that data, "
    "Proofs/PlotFlowProofs.v shows the interpretation of the modelled data is PlotSeries.v, and the correspondence "
    "evaluates the interpretation of the REGENERATED data (C17_generated_flow, C17_flow_is_model)",
    "the colour index is computed on exact rationals; it equals matplotlib's binary64 computation because data "
    "values are multiples of 1/4 below 2^12 and every colour table used has N = 256 (a power of two): a "
    "quotient that is not exactly representable is at least 2^-14 away from an index boundary; for evenly "
    "spaced colours (string z) the agreement with numpy.linspace is checked exhaustively for up to 64 series "
    "on every run",
    "the harness: generators harness/props/c17gen.py, artist readers harness/impl/plots.py (value <-> id is "
    "exact: value * 4 resp. error * 4096 must be an integer), interposition of matplotlib.axes.Axes.hist to "
    "record the arrays handed to it, the Python oracle in this file",
    "Python's str() of a coordinate value and xyzpy.plot.core.prettify are not modelled: labels and titles enter "
    "the model as strings computed by the harness from the raw values",
    "purity is checked on the implementation (deep copy before, Dataset.identical after); the model is "
    "functional",
]
RULE = ("random datasets with 1-4 dimensions (x 1-7, z 1-5 or 11-12, row/col 1-3, optional singleton), variables "
        "stored in random dimension order, NaN / +-inf patterns incl. all-non-finite series, panels and "
        "datasets, int / float / str coordinates, x as coordinate or data variable, multi-variable y, optional "
        "y_err / x_err / c, row / col, log axes, markers / colors / colormap (reverse, vmin/vmax, zlims) / "
        "legend / colorbar options, for lineplot, scatter, histogram (int and explicit bins, stacked) and "
        "heatmap through the xarray accessor, plus the auto_* functions; distinct = distinct (kind, dataset "
        "shape, argument roles, option set, non-finite pattern) signatures; non-trivial = at least two drawn "
        "series or panels, or at least one masked value")

KNOWN_RAISE_WHAT = {
    "multi-variable-y-with-row-or-col-raises": "lineplot(y=[...], row=/col=) raises instead of drawing one panel per slice",
    "colors-true-without-z-raises": "colors=True without z / c raises instead of drawing",
    "colorbar-true-without-colour-scale-raises": "colorbar=True raises from inside the drawing code",
    "legend-true-on-grid-without-labels-raises": "legend=True on a row/col grid of unlabelled lines raises",
}


# ------------------------------------------------------------------ labels and colour tables
def str_of(co, k):
    """Python's str of the k-th coordinate value as xyzpy sees it (numpy scalar)"""
    if co["kind"] == "str":
        return co["vals"][k]
    if co["kind"] == "int":
        return str(co["ids"][k] // P.SCALE)
    return repr(co["ids"][k] / P.SCALE)


def title_of(co, k):
    """the coordinate value as shown in a panel title: floats with at most 4 decimals"""
    if co["kind"] != "float":
        return str_of(co, k)
    s = format(co["ids"][k] / P.SCALE, ".4f").rstrip("0")
    return s + "0" if s.endswith(".") else s


_CMAPS = {}


def cmap_of(name, reverse):
    """the chosen colour map as an object, obtained without going through xyzpy's lookup (except for its own
    table 'xyz'), and its canonical table: position -> smallest position with a bit-identical colour"""
    key = (name, bool(reverse))
    if key not in _CMAPS:
        import matplotlib
        if name is None or name == "xyz":
            from xyzpy.plot.xyz_cmaps import _XYZ_CMAPS
            cm = _XYZ_CMAPS["xyz"]
        else:
            cm = matplotlib.colormaps[name]
        if reverse:
            cm = cm.reversed()
        cm(0.5)    # initialise the table
        lut = [tuple(float(v).hex() for v in row) for row in cm._lut]
        first = {}
        canon = []
        for i, row in enumerate(lut):
            first.setdefault(row, i)
            canon.append(first[row])
        _CMAPS[key] = (cm, canon, first)
    return _CMAPS[key]


def hexkey(col):
    return tuple(float(v).hex() for v in col)


TAB10 = None


def cycle_table(opts):
    """(list of rgba hex keys) of the palette a series cycles through when colours are not colour-mapped"""
    global TAB10
    from matplotlib.colors import to_rgba
    if isinstance(opts.get("colors"), list):
        return [hexkey(to_rgba(c)) for c in opts["colors"]]
    if TAB10 is None:
        import matplotlib
        TAB10 = [hexkey(tuple(rgb) + (1.0,)) for rgb in matplotlib.colormaps["tab10"].colors]
    return TAB10


# ------------------------------------------------------------------ what the case asks for
class Plan:
    """Everything the oracle and the model expression need, derived from the raw case only."""

    def __init__(self, case):
        self.case = case
        self.raw = raw = case["ds"]
        self.kind = case["kind"]
        o = case["opts"]
        self.row, self.col = case.get("row"), case.get("col")
        self.z = case.get("z") if self.kind != "heatmap" else None
        names = case["x"] if self.kind == "histogram" else (case["y"] if self.kind != "heatmap" else case["z"])
        self.multi = isinstance(names, list)
        self.ynames = list(names) if self.multi else [names]
        self.nrows = raw["dims"][self.row] if self.row else 1
        self.ncols = raw["dims"][self.col] if self.col else 1
        if self.z:
            self.nser = raw["dims"][self.z]
            self.labels = [str_of(raw["coords"][self.z], k) for k in range(self.nser)]
        elif self.multi:
            self.nser = len(self.ynames)
            self.labels = list(self.ynames)
        else:
            self.nser = 1
            self.labels = [None]
        if o.get("zlabels") is not None and (self.z or self.multi):
            self.labels = list(o["zlabels"])
        # colour mode
        self.c = case.get("c")
        self.cmap_name = o.get("colormap")
        self.reverse = bool(o.get("colormap_reverse"))
        if self.kind == "heatmap":
            self.cmap_name = o.get("colormap", "inferno")
            self.mode = "heat"
        elif self.c is not None:
            self.mode = "cpoints" if self.kind == "scatter" else "cvar"
        elif o.get("colors") is True or G.colorbar_implies_colors(case):
            zco = raw["coords"].get(self.z) if self.z else None
            self.mode = "zmap-numeric" if (zco is not None and zco["kind"] != "str") else "zmap-even"
        else:
            self.mode = "cycle"
        # limits of the colour scale: vmin/vmax, else zlims, else the quantity's own range
        self.coo = self.c if self.c is not None else (case["z"] if self.kind == "heatmap" else self.z)
        self.lo = self.hi = None
        self.degenerate = False
        self.log = bool(o.get("colormap_log"))
        if self.mode in ("cvar", "cpoints", "zmap-numeric", "heat"):
            zl = o.get("zlims") or [None, None]
            lo = o.get("vmin", zl[0])
            hi = o.get("vmax", zl[1])
            self.user_lo = None if lo is None else int(round(lo * P.SCALE))
            self.user_hi = None if hi is None else int(round(hi * P.SCALE))
            ids = self.coo_ids()
            self.lo = self.user_lo if self.user_lo is not None else (min(ids) if ids else 0)
            self.hi = self.user_hi if self.user_hi is not None else (max(ids) if ids else 1)
            # a scale of width zero, or of a quantity without a finite value, defines no normalised value
            # (matplotlib's colour bar widens it in place): nothing is stated about colours then
            self.degenerate = self.lo == self.hi or (not ids and (self.user_lo is None or self.user_hi is None))

    def norm(self):
        """the normalisation the statement fixes: linear, or logarithmic with colormap_log"""
        import matplotlib.colors as mc
        return (mc.LogNorm if self.log else mc.Normalize)(self.lo / P.SCALE, self.hi / P.SCALE)

    def coo_ids(self):
        raw = self.raw
        if self.coo in raw["vars"]:
            return [c for c in raw["vars"][self.coo]["cells"] if P.is_fin(c)]
        return list(raw["coords"][self.coo]["ids"])

    def panels(self):
        for i in range(self.nrows):
            for j in range(self.ncols):
                sel = {}
                if self.row:
                    sel[self.row] = i
                if self.col:
                    sel[self.col] = j
                yield i, j, sel

    def titles(self, i, j):
        raw = self.raw
        t = r = None
        if self.col and i == 0:
            t = f"{self.col} = {title_of(raw['coords'][self.col], j)}"
        if self.row and j == self.ncols - 1:
            r = f"{self.row} = {title_of(raw['coords'][self.row], i)}"
        return t, r

    def series_sel(self, sel, k):
        s = dict(sel)
        if self.z:
            s[self.z] = k
        return s, (self.ynames[0] if self.z or not self.multi else self.ynames[k])

    # -- the statement: points of series k in a panel = the (x, y) pairs of the dataset where both are finite
    def expected_series(self, sel, k):
        raw, case = self.raw, self.case
        s, yv = self.series_sel(sel, k)
        used = [case["x"], yv]
        if self.mode == "cpoints":
            used.append(self.c)
        if self.kind == "lineplot":
            used += [v for v in (case.get("y_err"), case.get("x_err")) if v]
        elif self.kind == "scatter":
            used += [v for v in (case.get("y_err"), case.get("x_err")) if v]
        free = []
        for v in used:
            for d in P.var_dims(raw, v):
                if d not in s and d not in free:
                    free.append(d)
        pts, ye, xe, cs = [], [], [], []
        for e in P.envs(raw, free):
            env = dict(e)
            env.update(s)
            a, b = P.var_get(raw, case["x"], env), P.var_get(raw, yv, env)
            if P.is_fin(a) and P.is_fin(b):
                pts.append((a, b))
                if case.get("y_err"):
                    ye.append(P.var_get(raw, case["y_err"], env))
                if case.get("x_err"):
                    xe.append(P.var_get(raw, case["x_err"], env))
                if self.mode == "cpoints":
                    cs.append(P.var_get(raw, self.c, env))
        return {"label": self.labels[k], "xy": pts,
                "ye": ye if (case.get("y_err") and self.kind == "lineplot") else None,
                "xe": xe if (case.get("x_err") and self.kind == "lineplot") else None,
                "c": cs if self.mode == "cpoints" else None}

    def expected_color(self, sel, k):
        """rgba hex key of series k by the statement, or None when the statement does not fix it"""
        if self.mode == "cycle":
            tab = cycle_table(self.case["opts"])
            return tab[k % len(tab)]
        if self.mode == "cpoints":
            return None
        import matplotlib.colors as mc
        cm = cmap_of(self.cmap_name, self.reverse)[0]
        if self.mode == "zmap-even":
            t = 0.0 if self.nser == 1 else k / (self.nser - 1)
            return hexkey(cm(float(t)))
        if self.mode == "zmap-numeric":
            q = self.raw["coords"][self.z]["ids"][k]
        else:
            s, _ = self.series_sel(sel, k)
            q = P.var_get(self.raw, self.c, s)
        return hexkey(cm(float(self.norm()(q / P.SCALE))))

    def expected_hist_values(self, sel, k):
        raw = self.raw
        s, v = self.series_sel(sel, k)
        free = [d for d in P.var_dims(raw, v) if d not in s]
        out = []
        for e in P.envs(raw, free):
            env = dict(e)
            env.update(s)
            c = P.var_get(raw, v, env)
            if P.is_fin(c):
                out.append(c)
        return out

    def expected_mesh(self, sel):
        raw, case = self.raw, self.case
        nx, ny = raw["dims"][case["x"]], raw["dims"][case["y"]]
        rows = []
        for i in range(ny):
            row = []
            for j in range(nx):
                env = {d: 0 for d in raw["dims"]}
                env.update(sel)
                env[case["y"]] = i
                env[case["x"]] = j
                c = P.var_get(raw, case["z"], env)
                row.append(c if P.is_fin(c) else None)
            rows.append(row)
        return rows

    def has_inf(self, name):
        return any(c in ("inf", "-inf") for c in self.raw["vars"][name]["cells"])


# ------------------------------------------------------------------ observed -> canonical
def color_index(plan, key):
    """canonical integer of an observed colour (rgba hex key), "?" when it is not in the expected table"""
    if key is None:
        return None
    if plan.mode == "cycle":
        tab = cycle_table(plan.case["opts"])
        return tab.index(key) if key in tab else "?color"
    _, canon, first = cmap_of(plan.cmap_name, plan.reverse)
    return first.get(key, "?color")


def hist_counts(hobs, plan):
    """integer counts per series from the polygon heights (density / stacked undone); "?" on inconsistency"""
    series = hobs["series"]
    if not series:
        return []
    edges = series[0]["edges"]
    widths = [b - a for a, b in zip(edges[:-1], edges[1:])]

    def inrange(s):
        n = 0
        for i in s["fed"]:
            if isinstance(i, int) and edges[0] <= i / P.SCALE <= edges[-1]:
                n += 1
        return n
    totals = [inrange(s) for s in series]
    out = []
    prev = [0] * len(widths)
    for s, t in zip(series, totals):
        tt = sum(totals) if hobs["stacked"] else t
        cnt = []
        for b, (h, w) in enumerate(zip(s["heights"], widths)):
            if tt == 0:
                cnt.append(0 if (math.isnan(h) or h == 0) else "?height")
                continue
            v = h * w * tt
            if math.isnan(v) or abs(v - round(v)) > 1e-6 * max(1, tt):
                cnt.append("?height")
            else:
                cnt.append(int(round(v)) - (prev[b] if hobs["stacked"] else 0))
        if hobs["stacked"]:
            prev = [p + c if isinstance(c, int) else p for p, c in zip(prev, cnt)]
        out.append(cnt)
    return out


def panel_key(p):
    return tuple(p["pos"])


def observed_val(plan, obs):
    """the canonical python value compared with fig_lines / fig_hist / fig_heat of the model"""
    case = plan.case
    grid = bool(plan.row or plan.col)
    out = []
    for p in sorted(obs["panels"], key=panel_key) if grid else obs["panels"]:
        i, j = p["pos"]
        title = (p["title"] or None) if grid else None
        rlabel = (p["ylabel"] or None) if (grid and p["ylabel_pos"] == "right") else None
        if plan.kind in ("lineplot", "scatter"):
            ser = []
            for s in p["series"]:
                if plan.kind == "scatter" and s.get("carr") is not None:
                    ccol = [color_index(plan, hexkey(c)) for c in s["colors"]]
                    ser.append([s["label"], None, [list(xy) for xy in s["xy"]], None, None, s["carr"], ccol])
                else:
                    ser.append([s["label"], color_index(plan, hexkey(s["color"])) if s.get("color") else None,
                                [list(xy) for xy in s["xy"]], s.get("ye"), s.get("xe"), None, None])
            content = ser
        elif plan.kind == "histogram":
            h = p["hist"]
            if "error" in h:
                content = h["error"]
            else:
                cnts = hist_counts(h, plan)
                content = [[s["label"], color_index(plan, hexkey(s["edgecolor"])), s["fed"], c]
                           for s, c in zip(h["series"], cnts)]
        else:
            h = p["heat"]
            if "error" in h:
                content = h["error"]
            else:
                cols = None
                if heat_colors_modelled(plan):
                    cols = [[color_index(plan, hexkey(c)) for c in row] for row in h["colors"]]
                content = [h["cells"], cols]
        out.append([i, j, title, rlabel, content])
    return out


def heat_colors_modelled(plan):
    # a scale of width zero (one finite value) has no normalised value and the colour bar widens it
    return plan.lo != plan.hi


# ------------------------------------------------------------------ the model expression
def qstr(s):
    return '(str "' + s.replace('"', '""') + '")'


def strlist(l):
    return "[" + "; ".join(qstr(x) for x in l) + "]"


def cells_expr(cells):
    ids = [0 if isinstance(c, str) else c for c in cells]
    return "cells " + core.zlist(ids)


def fin_expr(ids):
    return "[" + "; ".join(f"Fin ({i})" if i < 0 else f"Fin {i}" for i in ids) + "]"


def model_expr(plan, obs, canon_names):
    case, raw = plan.case, plan.raw
    names = sorted(set(raw["dims"]) | set(raw["vars"]))
    nid = {n: k + 1 for k, n in enumerate(names)}
    sizes = "[" + "; ".join(f"({nid[d]}, {n}%nat)" for d, n in raw["dims"].items()) + "]"
    vs = []
    for d, co in raw["coords"].items():
        ids = co["ids"] if co["kind"] != "str" else list(range(1, len(co["vals"]) + 1))
        vs.append(f"({nid[d]}, mkvar [{nid[d]}] {fin_expr(ids)})")
    for v, var in raw["vars"].items():
        vs.append(f"({nid[v]}, mkvar {core.zlist([nid[d] for d in var['dims']])} ({cells_expr(var['cells'])}))")
    ds = f"(mkds {sizes} [" + "; ".join(vs) + "])"

    def oid(n):
        return "None" if n is None else f"(Some {nid[n]})"
    N, canon = 0, "[]"
    if plan.mode == "cycle":
        cm = f"(CCycle {len(cycle_table(case['opts']))})"
    else:
        N = 256
        canon = canon_names[(plan.cmap_name, plan.reverse)]
        lo = core.zopt(getattr(plan, "user_lo", None))
        hi = core.zopt(getattr(plan, "user_hi", None))
        if plan.mode == "zmap-numeric":
            cm = f"(CMapZ true {lo} {hi})"
        elif plan.mode == "zmap-even":
            cm = "(CMapZ false None None)"
        elif plan.mode == "cvar":
            cm = f"(CMapC {nid[plan.c]} {lo} {hi})"
        elif plan.mode == "cpoints":
            cm = f"(CPoints {nid[plan.c]} {lo} {hi})"
        else:
            cm = "(CCycle 1)"
    labels = strlist([l for l in plan.labels if l is not None])
    rowl = strlist([title_of(raw["coords"][plan.row], k) for k in range(plan.nrows)]) if plan.row else "[]"
    coll = strlist([title_of(raw["coords"][plan.col], k) for k in range(plan.ncols)]) if plan.col else "[]"
    line_errs = plan.kind == "lineplot"
    xname = case["x"] if plan.kind != "histogram" else plan.ynames[0]
    sp = (f"(mkspec {ds} {nid[xname] if plan.kind != 'heatmap' else nid[case['x']]} "
          f"{core.zlist([nid[y] for y in plan.ynames]) if plan.kind != 'heatmap' else '[]'} "
          f"{'true' if plan.multi else 'false'} {oid(plan.z) if plan.kind != 'heatmap' else 'None'} "
          f"{oid(case.get('y_err')) if line_errs else 'None'} {oid(case.get('x_err')) if line_errs else 'None'} "
          f"{labels} {cm} {N} {canon} {oid(plan.row)} {oid(plan.col)} "
          f"{qstr(plan.row or '')} {qstr(plan.col or '')} {rowl} {coll})")
    if plan.kind in ("lineplot", "scatter"):
        return f"fig_lines_flow gen_plot_flow {sp}"
    if plan.kind == "histogram":
        # edges as read from the drawn polygons, on a common integer grid
        per_panel = {}
        den = 4
        grid = bool(plan.row or plan.col)
        for p in obs["panels"]:
            h = p["hist"]
            e = h["series"][0]["edges"] if ("series" in h and h["series"]) else []
            fr = [Fraction(x) for x in e]
            per_panel[tuple(p["pos"]) if grid else (0, 0)] = fr
            for f in fr:
                den = den * f.denominator // math.gcd(den, f.denominator)
        edges = []
        for i, j, _ in plan.panels():
            fr = per_panel.get((i, j), [])
            edges.append(core.zlist([int(f * den) for f in fr]))
        return f"fig_hist_flow gen_plot_flow {sp} [{'; '.join(edges)}] {den // 4}"
    lo = core.zopt(getattr(plan, "user_lo", None))
    hi = core.zopt(getattr(plan, "user_hi", None))
    wc = "true" if heat_colors_modelled(plan) else "false"
    return f"fig_heat_flow gen_plot_flow {sp} {nid[case['z']]} {nid[case['x']]} {nid[case['y']]} {lo} {hi} {wc}"


def canon_preamble():
    names, lines = {}, []
    for k, nm in enumerate(G.CMAPS + ["inferno"]):
        for rev in (False, True):
            _, canon, _ = cmap_of(nm, rev)
            ident = f"canon_{k}_{(nm or 'default')}{'_reversed' if rev else ''}"
            names[(nm, rev)] = ident
            lines.append(f"Definition {ident} : list Z := {core.zlist(canon)}.")
    return names, "\n".join(lines) + "\n"


# ------------------------------------------------------------------ the oracle (property statement)
def refused(case, obs):
    """colorbar=True while nothing is colour-mapped has no meaning; declining it with a ValueError that says
    so is not a deviation from the statement (an AttributeError from inside the drawing code is)"""
    return (G.colorbar_without_scale(case) and obs.get("error", "").startswith("ValueError")
            and "colorbar" in obs["error"])


def oracle(plan, obs):
    """[(key, message)]: where the drawn artists deviate from the statement of C17"""
    bad = []
    case, raw, o = plan.case, plan.raw, plan.case["opts"]

    def add(key, msg):
        bad.append((key, msg))
    if "error" in obs:
        if refused(case, obs):
            return bad          # a colour bar of nothing: declined with a clear ValueError, nothing is drawn
        cls = G.raise_class(case, obs["error"])
        if cls:
            add(cls, f"{KNOWN_RAISE_WHAT[cls]}: {obs['error']}")
        else:
            add("plot-call-raised", f"{obs['error']} at {obs.get('where')}")
        return bad
    if "read_error" in obs:
        add("artists-not-readable", f"the figure does not have the expected artists: {obs['read_error']}")
        return bad
    if not obs.get("pure", False):
        add("dataset-modified", "the dataset (or array) passed in is not identical to its deep copy after plotting")
    grid = bool(plan.row or plan.col)
    want = list(plan.panels())
    if len(obs["panels"]) != len(want):
        add("panel-count", f"{len(obs['panels'])} data panels drawn, {len(want)} (row, col) slices")
        return bad
    by_pos = {}
    for n, p in enumerate(obs["panels"]):
        by_pos[tuple(p["pos"]) if grid else (0, 0)] = (n, p)
    first_labels = []
    for idx, (i, j, sel) in enumerate(want):
        if (i, j) not in by_pos:
            add("panel-missing", f"no panel at grid position ({i}, {j})")
            continue
        n, p = by_pos[(i, j)]
        if grid:
            if n != i * plan.ncols + j:
                add("panel-order", f"panel ({i}, {j}) is axes number {n}, expected {i * plan.ncols + j}")
            t, r = plan.titles(i, j)
            got_t = p["title"] or None
            got_r = (p["ylabel"] or None) if p["ylabel_pos"] == "right" else None
            if got_t != t:
                add("panel-title", f"panel ({i}, {j}) has title {got_t!r}, its column coordinate gives {t!r}")
            if got_r != r:
                add("panel-row-title", f"panel ({i}, {j}) has row label {got_r!r}, its row coordinate gives {r!r}")
        where = f"panel ({i}, {j})" if grid else "plot"
        if o.get("xlog") and p["xscale"] != "log" or o.get("ylog") and p["yscale"] != "log":
            add("log-axis-not-applied", f"{where}: scales {p['xscale']}/{p['yscale']}")
        if plan.kind in ("lineplot", "scatter"):
            ser = p["series"]
            if len(ser) != plan.nser:
                add("series-count", f"{where}: {len(ser)} drawn series for {plan.nser} z values / variables")
            for k in range(min(len(ser), plan.nser)):
                e, s = plan.expected_series(sel, k), ser[k]
                if s["label"] != e["label"]:
                    add("series-label", f"{where}: series {k} is labelled {s['label']!r}, expected {e['label']!r}")
                got = [tuple(xy) for xy in s["xy"]]
                if got != e["xy"]:
                    nonfin = any(a is None or b is None for a, b in got)
                    key = "non-finite-point-drawn" if nonfin else "series-points"
                    add(key, f"{where}: series {k} ({e['label']!r}) draws {got[:6]}.. but the finite (x, y) pairs "
                             f"of the dataset are {e['xy'][:6]}..")
                for nm in ("ye", "xe"):
                    if e[nm] is not None and s.get(nm) != e[nm]:
                        add("error-bars", f"{where}: series {k} {nm} bars {s.get(nm)} expected {e[nm]}")
                ec = plan.expected_color(sel, k)
                if plan.mode == "cpoints":
                    if s.get("carr") != e["c"]:
                        add("scatter-c-values", f"{where}: series {k} colour values {s.get('carr')} expected {e['c']}")
                    elif e["c"] and not plan.degenerate:
                        import matplotlib.colors as mc
                        cm = cmap_of(plan.cmap_name, plan.reverse)[0]
                        nrm = plan.norm()
                        wantc = [hexkey(cm(float(nrm(c / P.SCALE)))) for c in e["c"]]
                        gotc = [hexkey(c) for c in s["colors"]]
                        if gotc != wantc:
                            add("scatter-c-colours-not-on-the-colour-bar-scale",
                                f"{where}: series {k}: colours follow the series' own range {s['norm']} instead of "
                                f"the scale of the colour bar / dataset ({plan.lo / 4}, {plan.hi / 4})")
                elif ec is not None:
                    gc = hexkey(s["color"]) if s.get("color") else None
                    if gc != ec:
                        add("series-colour", f"{where}: series {k} ({e['label']!r}) has colour {s.get('color')} which is "
                                             f"not the colour of its own z value / variable / position")
            labs = [s["label"] for s in ser if s["label"] is not None]
            if p["legend"] is not None and (labs or [t for t in p["legend"] if t not in ("", "None")]):
                wantl = labs[::-1] if o.get("legend_reverse") else labs
                if p["legend"] != wantl:
                    add("legend-entries", f"{where}: legend {p['legend']} but series labels {wantl}")
            if not first_labels:
                first_labels = labs
        elif plan.kind == "histogram":
            h = p["hist"]
            if "error" in h:
                add("histogram-artists", f"{where}: {h['error']}")
                continue
            ser = h["series"]
            if len(ser) != plan.nser:
                add("series-count", f"{where}: {len(ser)} histograms for {plan.nser} z values / variables")
            cnts = hist_counts(h, plan)
            for k in range(min(len(ser), plan.nser)):
                s = ser[k]
                vals = plan.expected_hist_values(sel, k)
                if s["label"] != plan.labels[k]:
                    add("series-label", f"{where}: histogram {k} labelled {s['label']!r}, expected {plan.labels[k]!r}")
                if s["fed"] != vals:
                    nonfin = any(not isinstance(v, int) for v in s["fed"])
                    add("histogram-fed-non-finite" if nonfin else "histogram-values",
                        f"{where}: histogram {k} was fed {s['fed'][:8]}.. but the finite values are {vals[:8]}..")
                edges = s["edges"]
                if any(b <= a for a, b in zip(edges[:-1], edges[1:])):
                    add("histogram-edges", f"{where}: edges not increasing {edges}")
                    continue
                wantc = [0] * (len(edges) - 1)
                for v in vals:
                    x = v / P.SCALE
                    for b in range(len(edges) - 1):
                        last = b == len(edges) - 2
                        if edges[b] <= x and (x < edges[b + 1] or (last and x <= edges[b + 1])):
                            wantc[b] += 1
                            break
                if cnts[k] != wantc:
                    add("histogram-counts", f"{where}: histogram {k} shows counts {cnts[k]} over edges {edges}, the "
                                            f"finite values give {wantc}")
                if isinstance(o.get("bins"), list) and edges != [float(b) for b in o["bins"]]:
                    add("histogram-edges", f"{where}: edges {edges} differ from the requested bins")
                ec = plan.expected_color(sel, k)
                if ec is not None and hexkey(s["edgecolor"]) != ec:
                    add("series-colour", f"{where}: histogram {k} has colour {s['edgecolor']}")
            if isinstance(o.get("bins"), int) and ser:
                allv = [v / P.SCALE for k in range(plan.nser) for v in plan.expected_hist_values(sel, k)]
                if allv and (ser[0]["edges"][0] != min(allv) or ser[0]["edges"][-1] != max(allv) or
                             len(ser[0]["edges"]) != o["bins"] + 1) and min(allv) != max(allv):
                    add("histogram-edges", f"{where}: {len(ser[0]['edges']) - 1} bins over "
                                           f"[{ser[0]['edges'][0]}, {ser[0]['edges'][-1]}], data range "
                                           f"[{min(allv)}, {max(allv)}], requested {o['bins']}")
        else:
            h = p["heat"]
            if "error" in h:
                add("heatmap-artists", f"{where}: {h['error']}")
                continue
            wantm = plan.expected_mesh(sel)
            if h["cells"] != wantm:
                tr = [list(r) for r in zip(*wantm)]
                add("heatmap-transposed" if h["cells"] == tr else "heatmap-cells",
                    f"{where}: mesh shows {h['cells']} but z on the (y, x) mesh is {wantm}")
            # the quads sit on the coordinates: left edge = coordinate - half the mean spacing
            for axis, edges, dim in (("x", h["xedges"], case["x"]), ("y", h["yedges"], case["y"])):
                co = [v / P.SCALE for v in raw["coords"][dim]["ids"]]
                if len(edges) != len(co) + 1:
                    add("heatmap-mesh-coordinates", f"{where}: {len(edges)} {axis} edges for {len(co)} coordinates")
                    continue
                # (ascending or descending coordinates: quad t lies around coordinate t, half the mean spacing to
                #  either side, and the quads follow each other in the coordinate's direction)
                half = (co[-1] - co[0]) / (len(co) - 1) / 2
                scale = max(1.0, max(abs(v) for v in co))
                if any(abs(edges[t] + half - co[t]) > 1e-9 * scale for t in range(len(co))) \
                        or abs(edges[-1] - half - co[-1]) > 1e-9 * scale:
                    add("heatmap-mesh-coordinates", f"{where}: {axis} edges {edges} do not sit on the coordinates {co}")
            # colours: the chosen map at the normalised value (finite range of the data or vmin/vmax)
            import matplotlib.colors as mc
            cm = cmap_of(plan.cmap_name, plan.reverse)[0]
            nrm = plan.norm()
            wantc = [[hexkey(cm(float(nrm(c / P.SCALE)))) if c is not None else None for c in row] for row in wantm]
            gotc = [[hexkey(c) if wantm[a][b] is not None else None for b, c in enumerate(row)]
                    for a, row in enumerate(h["colors"])] if h["cells"] == wantm else wantc
            if plan.lo == plan.hi:
                gotc = wantc        # degenerate scale: nothing to state
            if gotc != wantc:
                scale_ok = h["norm"] == (plan.lo / P.SCALE, plan.hi / P.SCALE)
                if plan.has_inf(case["z"]) and not scale_ok:
                    add("heatmap-infinite-value-breaks-colour-scale",
                        f"{where}: an infinite z value makes the colour scale {h['norm']} instead of the finite range "
                        f"({plan.lo / 4}, {plan.hi / 4}): cells no longer show their values")
                elif plan.reverse:
                    add("heatmap-ignores-colormap-reverse",
                        f"{where}: cells are coloured with '{h['cmap']}' although colormap_reverse=True (the colour "
                        f"bar is reversed)")
                else:
                    add("heatmap-colours", f"{where}: cell colours are not the colour map at the normalised z value "
                                           f"(scale {h['norm']}, expected ({plan.lo / 4}, {plan.hi / 4}))")
    if obs.get("fig_legend") is not None and plan.kind in ("lineplot", "scatter"):
        seen = []
        for _, p in sorted(by_pos.values(), key=lambda t: t[0]):
            for s in p["series"]:
                if s["label"] is not None and s["label"] not in seen:
                    seen.append(s["label"])
        wantl = seen[::-1] if o.get("legend_reverse") else seen
        if obs["fig_legend"] != wantl and (wantl or [t for t in obs["fig_legend"] if t not in ("", "None")]):
            add("legend-entries", f"figure legend {obs['fig_legend']} but series labels {wantl}")
    if o.get("legend") is True and plan.labels[0] is not None and plan.kind in ("lineplot", "scatter"):
        if obs.get("fig_legend") is None and all(p["legend"] is None for p in obs["panels"]):
            add("legend-missing", "legend=True but no legend was drawn")
    for cb in obs.get("colorbars", []):
        if plan.mode in ("cvar", "cpoints", "zmap-numeric", "heat") and cb["vmin"] is not None:
            if not plan.degenerate and (cb["vmin"] != plan.lo / P.SCALE or cb["vmax"] != plan.hi / P.SCALE):
                inf_case = plan.kind == "heatmap" and plan.has_inf(case["z"])
                add("heatmap-infinite-value-breaks-colour-scale" if inf_case else "colour-bar-scale",
                    f"colour bar spans ({cb['vmin']}, {cb['vmax']}), the quantity spans "
                                        f"({plan.lo / 4}, {plan.hi / 4})")
    return bad


# ------------------------------------------------------------------ book-keeping
def signature(case):
    raw = case["ds"]
    nf = sum(1 for v in raw["vars"].values() for c in v["cells"] if isinstance(c, str))
    return json.dumps([case["kind"], case["auto"], sorted(raw["dims"].items()),
                       {k: case.get(k) for k in ("x", "y", "z", "c", "y_err", "x_err", "row", "col")},
                       sorted((k, str(v)) for k, v in case["opts"].items()),
                       {v: var["dims"] for v, var in raw["vars"].items()}, nf], sort_keys=True, default=str)


def nontrivial(plan):
    raw = plan.raw
    masked = any(isinstance(c, str) for v in raw["vars"].values() for c in v["cells"])
    return masked or plan.nser > 1 or plan.nrows * plan.ncols > 1


def all_nan_series(plan):
    if plan.kind not in ("lineplot", "scatter"):
        return 0
    n = 0
    for i, j, sel in plan.panels():
        for k in range(plan.nser):
            if not plan.expected_series(sel, k)["xy"]:
                n += 1
    return n


def sample_of(case, obs):
    raw = case["ds"]
    s = {"kind": case["kind"], "auto": case["auto"], "dims": raw["dims"],
         "args": {k: case.get(k) for k in ("x", "y", "z", "c", "y_err", "x_err", "row", "col")},
         "opts": case["opts"], "vars": {v: {"dims": var["dims"], "cells": var["cells"][:12]} for v, var in raw["vars"].items()}}
    if "error" in obs:
        s["raised"] = obs["error"]
    elif obs.get("panels"):
        p = obs["panels"][0]
        if "series" in p:
            s["first_panel_series"] = [{"label": x["label"], "xy": x["xy"][:6]} for x in p["series"][:3]]
        elif "hist" in p and "series" in p["hist"]:
            s["first_panel_hist"] = [{"label": x["label"], "edges": x["edges"][:5], "heights": x["heights"][:5]}
                                     for x in p["hist"]["series"][:2]]
        elif "heat" in p and "cells" in p["heat"]:
            s["first_panel_mesh"] = p["heat"]["cells"]
    return s


def linspace_agreement(c):
    """the evenly spaced colour positions: numpy.linspace in binary64 against the exact rational index"""
    import numpy as np
    pairs = []
    for n in range(1, 65):
        ls = np.linspace(0, 1, n)
        seen = []
        for k in range(n):
            t = float(ls[k]) * 256
            seen.append(255 if t == 256 else int(t))
        pairs.append((f"vlist VZ (map (fun k => lut_index 256 0 ({n} - 1) (Z.of_nat k)) (seq 0 {n}))", seen))
    bad, _ = core.safe_run_cases(c, IMPORTS, pairs, what="linspace agreement")
    for i in bad:
        c.obligation_broken("colour index of evenly spaced series: numpy.linspace disagrees with the exact index",
                            {"n_series": i + 1})
    return len(pairs)


def run_stream(c, cases, canon_names, preamble):
    pairs, metas = [], []
    for case in cases:
        plan = Plan(case)
        obs = P.run_case(case)
        msgs = oracle(plan, obs)
        c.case(signature(case), nontrivial=nontrivial(plan), sample=sample_of(case, obs))
        c.count("kind", ("auto_" if case["auto"] else "") + case["kind"])
        c.count("dims", len([d for d, n in case["ds"]["dims"].items() if d != "s"]))
        c.count("grid", "row+col" if (plan.row and plan.col) else "row" if plan.row else "col" if plan.col else "single")
        c.count("series", "multi-variable" if plan.multi else ("z:" + case["ds"]["coords"][plan.z]["kind"]) if plan.z else "one")
        c.count("colour_mode", plan.mode)
        c.count("outcome", ("declined" if refused(case, obs) else "raised") if "error" in obs else "drawn")
        c.count("all_non_finite_series", min(all_nan_series(plan), 3))
        for k in ("y_err", "x_err", "c"):
            if case.get(k):
                c.count("extras", k)
        for k, v in case["opts"].items():
            c.count("option", k if not isinstance(v, bool) else f"{k}={v}")
        for key, msg in msgs:
            c.violation(key, msg, {"case": case, "replay_hint": "harness.props.c17.replay"})
        if plan.mode == "cpoints" and plan.degenerate:
            c.count("not_compared_with_model", "scatter c= over a degenerate colour scale")
        elif plan.log and plan.mode in ("cvar", "cpoints", "zmap-numeric", "heat"):
            c.count("not_compared_with_model", "logarithmic colour scale (oracle only: the model's colour index is linear)")
        elif "error" not in obs and "read_error" not in obs:
            try:
                pairs.append((model_expr(plan, obs, canon_names), observed_val(plan, obs)))
                metas.append((case, msgs))
            except Exception as e:      # noqa  (an observation the encoder cannot express: report, do not hide)
                if not msgs:
                    c.obligation_broken("correspondence: observation could not be encoded",
                                        {"case": case, "error": f"{type(e).__name__}: {e}"})
    bad, _ = core.safe_run_cases(c, IMPORTS, pairs, preamble=preamble, chunk=120)
    c.cov["correspondence_disagreements_on_cases_with_findings"] = sum(1 for i in bad if metas[i][1])
    for i in bad:
        case, msgs = metas[i]
        if c.pid == "C17x":
            print("BADCASE", [m[0] for m in msgs], json.dumps(pairs[i][1], default=str)[:600], pairs[i][0][:300])
        if not msgs:
            c.obligation_broken("correspondence Model/PlotSeries.v vs xyzpy.plot",
                                {"case": case, "model": pairs[i][0][:400], "observed": pairs[i][1]})
    return len(bad)


def run(tier, seed):
    c = core.Check("C17", tier, seed)
    gen_st = core.regen()
    b = core.build(PROP_FILE)
    c.cov["translator"] = gen_st.get("GenPlot")
    c.cov["build"] = {"ok": b["ok"], "failed_file": b["failed_file"], "wall_s": round(b.get("wall_s", 0), 1)}
    if not gen_st.get("GenPlot", {}).get("ok"):
        c.obligation_broken("translator GenPlot", gen_st.get("GenPlot", {}).get("detail", "unit missing"))
    if not b["ok"]:
        c.obligation_broken(f"Coq build of {b['failed_file']}", b["log_tail"][-1200:])
    if b["ok"] and tier == "thorough":
        # independent re-check of the compiled closure of Props/C17.vo
        import fcntl
        with open(core.LOCK, "w") as lk:
            fcntl.flock(lk, fcntl.LOCK_EX)
            rc, out = core.sh("timeout 600 coqchk -silent -o -R . XV XV.Props.C17", timeout=630, cwd=core.COQ)
        tail = [ln.strip() for ln in out.splitlines() if "relying on" in ln or "assumed" in ln or "Axioms" in ln]
        c.cov["coqchk"] = {"cmd": "coqchk -silent -o -R . XV XV.Props.C17", "ok": rc == 0, "summary": tail}
        if rc != 0:
            c.obligation_broken("coqchk of Props/C17.vo", out[-800:])
    n = 1200 if tier == "quick" else 9000
    if c.broken and tier == "quick":
        n *= 2
    canon_names, preamble = canon_preamble()
    cases = directed_cases() + [G.gen_case(c.rng, tier) for _ in range(n)]
    nbad = run_stream(c, cases, canon_names, preamble)
    c.cov["disagreements_checked"] = nbad
    c.cov["linspace_tables_checked"] = linspace_agreement(c)
    c.cov["differential_test"] = ("the comparison of matplotlib artists with the dataset is a differential TEST of "
                                  "xyzpy + matplotlib + numpy + xarray on the generated cases; only the statements "
                                  "about Model/PlotSeries.v are proved")
    c.notes.append("seven defects found by this check were repaired (fix: commits for scatter c= scale, heat-map "
                   "colormap_reverse, infinite values in the colour scale, colors=True without z, colorbar=True "
                   "without a colour scale, multi-variable y on a grid, legend=True on an unlabelled grid); model and "
                   "oracle describe the repaired behaviour, the old per-series scaling of scatter(c=) is kept as "
                   "point_colors_old (C17_scatter_c_scale_refuted_old); a regression re-appears under the same keys")
    c.notes.append("colorbar=True while nothing is colour-mapped (no z and no c, or an explicit colour list on a single "
                   "plot) is declined by the code with a ValueError naming the colour bar: counted as outcome "
                   "'declined', not a violation; colorbar=True with z and default colours colours the series by z")
    c.notes.append("not covered: xjitter / yjitter (random), non-finite values inside c / y_err / x_err "
                   "or coordinates, method='pcolor', scatter y_err / x_err (silently not drawn by the code), "
                   "padding (raises 'Axis limits cannot be NaN or Inf' as soon as the data holds an infinity)")
    c.assumptions = ["finite data values are distinct multiples of 1/4 of magnitude < 2^12, error values multiples of "
                     "1/4096 below 1/4, distinct within a variable (so value <-> id and y +- e are exact in binary64)",
                     "colour tables have N = 256 entries", "heat-map x and y coordinates are increasing"]
    return c.finish(b, PROP_FILE, TRUSTED, RULE)


def directed_cases():
    """small fixed cases that exercise each clause once (run first)"""
    def ds(dims, coords, vars_):
        return {"dims": dims, "coords": coords, "vars": vars_}
    base = {"auto": False, "c": None, "y_err": None, "x_err": None, "row": None, "col": None}
    x4 = {"kind": "float", "ids": [4, 8, 12, 16]}
    z4 = {"kind": "int", "ids": [40, 80, 160, 320]}
    y = {"dims": ["x", "z"], "scale": 4,
         "cells": [101, "nan", 103, 104, 105, "nan", "inf", 108, 109, "nan", 111, 112, "nan", "nan", 115, 116]}
    out = []
    for kind in ("lineplot", "scatter"):
        for colors in (None, True):
            o = {"legend": True}
            if colors:
                o.update(colors=True, colormap="viridis")
            out.append(dict(base, kind=kind, ds=ds({"x": 4, "z": 4}, {"x": x4, "z": z4}, {"a": y}), x="x", y="a", z="z",
                            opts=o))
    g = {"dims": ["k", "x", "r"], "scale": 4, "cells": [200 + i for i in range(24)]}
    out.append(dict(base, kind="lineplot", ds=ds({"x": 4, "r": 2, "k": 3},
                                                   {"x": x4, "r": {"kind": "str", "vals": ["u", "v"]},
                                                    "k": {"kind": "float", "ids": [2, 5, 9]}}, {"a": g}),
                    x="x", y="a", z=None, row="r", col="k", opts={}))
    h = {"dims": ["x", "y"], "scale": 4, "cells": [301, 302, 303, "nan", 305, 306, 307, 308]}
    out.append(dict(base, kind="heatmap", ds=ds({"x": 4, "y": 2}, {"x": x4, "y": {"kind": "int", "ids": [4, 12]}},
                                                  {"h": h}), x="x", y="y", z="h", opts={"colormap": "viridis"}))
    hv = {"dims": ["p", "z"], "scale": 4, "cells": [4, 8, "nan", 16, 20, "inf", 28, 32]}
    out.append(dict(base, kind="histogram",
                    ds=ds({"p": 4, "z": 2}, {"p": {"kind": "int", "ids": [400, 404, 408, 412]},
                                             "z": {"kind": "str", "vals": ["m", "n"]}}, {"a": hv}),
                    x="a", y=None, z="z", opts={"bins": [1.0, 4.0, 8.0]}))
    return out


def replay(path):
    r = json.load(open(path))
    if "replay" not in r or "case" not in r["replay"]:
        print(json.dumps(r, indent=1, default=str)[:3000])
        return 1
    case = r["replay"]["case"]
    plan = Plan(case)
    obs = P.run_case(case)
    print("case:", json.dumps({k: case[k] for k in case if k != "ds"}, default=str))
    print("dataset:", json.dumps(case["ds"], default=str)[:2000])
    if "error" in obs:
        print("raised:", obs["error"], obs.get("where"))
    msgs = oracle(plan, obs)
    known = {k["key"] for k in core.load_known() if k.get("property") == "C17" and k.get("status") == "known"}
    rc = 0
    for k, m in msgs:
        print("KNOWN:" if k in known else "FAILS:", k, "-", m)
        if k not in known:
            rc = 1
    return rc
