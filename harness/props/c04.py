"""C04 -- sow, grow, reap returns exactly what running directly would have."""
import json
import os
import shutil
import subprocess
import sys

from harness import core
from harness.impl import runner as R
from harness.impl import cropdriver as D

PROP_FILE = "Props/C04.v"
TRUSTED = [
    "Coq 8.16.1 kernel (coqc, full .vo build); vm_compute for Examples and case evaluation",
    "hand model Model/Crop.v + Runner.v (sow = choose + Sower over the run order; grow = map f over a batch; reap = "
    "Reaper chain + the un-shuffle/unflatten of combo_runner_core) tied to cropping.py by differential execution",
    "translated units: GenBatch (choose_batch_settings, Sower), GenStages.gen_wiring (which shuffle expression every "
    "sow / save / reap site uses) with bridge lemmas",
    "R2: random.seed(s); random.shuffle gives the same permutation for the same (s, n) in every process "
    "(the permutation is read from CPython per case; the fresh-process stream exercises it across processes)",
    "raw reaps are compared with the direct sweep of the combos in name-sorted order (the crop sorts combos by "
    "argument name, cropping.py sow_combos) -- equal label-wise to the sweep in the user's order",
    "pickle / cloudpickle round trips, glob, os.path.isfile",
]
RULE = ("random sweeps with 1..40 settings (grids, case lists, cases x sub-grid), batchsize in 1..n+1 or num_batches "
        "in 1..n+2 or neither, shuffle False/True/int given to sow_combos or to the Crop constructor (sow_cases), "
        "grow histories = random permutations / groupings / repetitions over Crop.grow, grow(), grow_missing, "
        "num_workers, with Crop objects re-created from disk (same process; fresh OS processes in the thorough tier) "
        "between steps; distinct = distinct (sweep, batching, shuffle, history); non-trivial = at least 2 batches")


def gen_history(rng, tier):
    # one history in five: sow_cases with two or more sub-combos (given in any argument order)
    want_sub = rng.random() < 0.2
    for _ in range(300):
        sw = R.Sweep(rng, with_cases=True if want_sub else rng.random() < 0.4, max_args=5 if want_sub else 3,
                     max_vals=3 if want_sub else 4,
                     kind=rng.choice([0, 0, 1, 2, 3, 4, 5, 6]), allow_consts=rng.random() < 0.3)
        if sw.n_settings() <= 40 and (not want_sub or len(sw.combo_args) >= 2):
            break
    n = sw.n_settings()
    shuffle = rng.choice([False, True, rng.randint(2, 999)])
    via = "cases" if (sw.cases and (want_sub or rng.random() < 0.45)) else "combos"
    ctor = None
    if via == "combos" and rng.random() < 0.15:
        # a Crop CONSTRUCTED with a shuffle setting, sown without repeating it in the call
        via, ctor = "combos-default", rng.choice([True, rng.randint(2, 999)])
    sown = D.SownSweep(sw, shuffle, via, ctor)
    r = rng.random()
    if r < 0.4:
        bs, nb = rng.randint(1, n + 1), None
    elif r < 0.85:
        bs, nb = None, rng.randint(1, n + 2)
    else:
        bs, nb = None, None
    B = -(-n // bs) if bs else (min(nb, n) if nb else n)
    ops = [("sow", sown, bs, nb)]
    ids = list(range(1, B + 1))
    rng.shuffle(ids)
    # partition into groups, with repetitions and reloads
    while ids:
        k = rng.randint(1, max(1, min(len(ids), 4)))
        grp, ids = ids[:k], ids[k:]
        if rng.random() < 0.25:
            ops.append(("reload",))
        r = rng.random()
        if r < 0.15 and not ids:
            ops.append(("grow_missing",))
        elif r < 0.3:
            ops.append(("grow", grp, "function"))
        elif r < 0.36 and tier == "thorough":
            ops.append(("grow", grp, "workers"))
        elif r < 0.40:
            ops.append(("grow", grp[:2], "function-workers"))
            ids = grp[2:] + ids
        else:
            ops.append(("grow", grp))
        if rng.random() < 0.2:
            ops.append(("grow", [rng.choice(grp)]))       # grown more than once
    if rng.random() < 0.3:
        ops.append(("grow_missing",))
    if rng.random() < 0.4:
        ops.append(("reload",))
    ops.append(("reap", False, rng.choice([None, None, True, False])))
    return sw, sown, ops, B


def direct_output(sown):
    """The direct in-process sweep (combos in name-sorted order), canonicalised like a reap."""
    import xyzpy
    sw = sown.sw
    fn = R.make_fn(sw, os.devnull)
    out = xyzpy.combo_runner(fn, dict(sown.sorted_combos) if sown.sorted_combos else None,
                             cases=sw.cases_dicts() if sw.cases else None,
                             constants=sw.consts or None, verbosity=0)
    return ["nest", R.canon_nest(out, sown.depth())]


SUBPROC = r'''
import json, sys, os
sys.path.insert(0, os.environ["XV_VERIF"])
import xyzpy
from xyzpy.gen.cropping import Crop, grow
name, parent, what = sys.argv[1], sys.argv[2], json.loads(sys.argv[3])
crop = Crop(name=name, parent_dir=parent)
if what[0] == "grow":
    crop.grow(tuple(what[1]), verbosity=0)
elif what[0] == "grow_missing":
    crop.grow_missing(verbosity=0)
elif what[0] == "reap":
    from harness.impl import runner as R
    out = crop.reap_combos(clean_up=what[2])
    print("OUT=" + json.dumps(["nest", R.canon_nest(out, what[3])]))
'''


def fresh_process_history(c, tmp, sw, sown, ops):
    """Every step after the sow is done by a new OS process that knows only name and directory."""
    run = D.CropRun(tmp, sw.kind, name="fp")
    run.do(ops[0])
    env = dict(os.environ, XV_VERIF=core.VERIF)
    out = None
    for op in ops[1:]:
        if op[0] in ("reload", "query"):
            continue
        arg = list(op[:2]) if op[0] == "grow" else list(op)
        if op[0] == "reap":
            arg = ["reap", op[1], op[2], sown.depth()]
        p = subprocess.run([sys.executable, "-W", "ignore", "-c", SUBPROC, "fp", run.parent, json.dumps(arg)],
                           env=env, capture_output=True, text=True, timeout=300)
        if p.returncode != 0:
            return {"error": p.stderr[-400:]}
        for line in p.stdout.splitlines():
            if line.startswith("OUT="):
                out = json.loads(line[4:])
    return {"out": out}


def run(tier, seed):
    c = core.Check("C04", tier, seed)
    gen_st = core.regen()
    b = core.build(PROP_FILE)
    c.cov["translator"] = {k: v for k, v in gen_st.items() if k in ("GenBatch", "GenStages")}
    c.cov["build"] = {"ok": b["ok"], "failed_file": b["failed_file"], "wall_s": round(b.get("wall_s", 0), 1)}
    for k in ("GenBatch", "GenStages"):
        if k in gen_st and not gen_st[k]["ok"]:
            c.obligation_broken(f"translator {k}", gen_st[k]["detail"])
    if not b["ok"]:
        c.obligation_broken(f"Coq build of {b['failed_file']}", b["log_tail"][-1200:])
    nhist = 150 if tier == "quick" else 1200
    nproc = 4 if tier == "quick" else 40
    if c.broken:
        nhist, nproc = 500, 12
    tmp = core.scratch_dir("xv-c04-")
    pairs, metas = [], []
    try:
        for h in range(nhist):
            sw, sown, ops, B = gen_history(c.rng, tier)
            style = c.rng.choice(["named"] * 6 + ["inferred-name", "fn-assigned"])
            run_ = D.CropRun(tmp, sw.kind, style=style)
            c.count("crop_construction", style)
            obs = [run_.do(op) for op in ops]
            desc = [D.describe_op(x) for x in ops]
            c.case(json.dumps(desc, sort_keys=True, default=str), nontrivial=B >= 2,
                   sample={"ops": desc, "final": obs[-1]} if sw.n_settings() <= 6 else None)
            c.count("batches", min(B, 20)); c.count("via", sown.via); c.count("sub_combos_of_sow_cases", len(sw.combo_args) if sown.via == "cases" else "-"); c.count("shuffle", type(sown.shuffle).__name__ + str(bool(sown.shuffle)))
            c.count("reload_steps", sum(1 for o in ops if o[0] == "reload"))
            c.count("request", "bs" if ops[0][2] else ("nb" if ops[0][3] else "none"))
            # ---- the property statement, directly
            final = obs[-1]
            want = direct_output(sown)
            rep = {"sweep": sw.describe(), "kind": sw.kind, "ops": desc}
            if final[0] != 0:
                c.violation("reap-of-fully-grown-crop-raised", getattr(run_, "last_error", "reap failed"),
                            {**rep, "observations": obs})
            elif final[-1] != want:
                c.violation("reaped-differs-from-direct-run",
                            "the reaped nest differs from the direct sweep (values in wrong slots / missing slots)",
                            {**rep, "reaped": final[-1], "direct": want})
            cu = ops[-1][2]
            gone = not os.path.exists(run_.location())
            if final[0] == 0 and gone != (cu is None or cu is True):
                c.violation("clean-up-not-honoured", f"clean_up={cu}: crop directory deleted={gone}", rep)
            pairs.append((f"run_crop {sw.kind} [" + "; ".join(D.coq_op(o) for o in ops) + "]", obs))
            metas.append((desc, obs))
        bad, _ = core.safe_run_cases(c, "Prelude Grid Perm Runner RunnerInst Batch Crop CropInst", pairs, chunk=50)
        for i in bad:
            desc, obs = metas[i]
            c.obligation_broken("correspondence Model/Crop.v vs cropping.py",
                                {"ops": desc, "observed": obs, "model_expr": pairs[i][0][:3000]})
        c.cov["disagreements_checked"] = len(bad)
        # ---- fresh OS processes
        nfp = 0
        for h in range(nproc):
            sw, sown, ops, B = gen_history(c.rng, "quick")
            res = fresh_process_history(c, tmp, sw, sown, ops)
            nfp += 1
            c.case("fresh-process:" + json.dumps([D.describe_op(x) for x in ops], default=str), nontrivial=B >= 2)
            c.count("stream", "fresh-process")
            want = direct_output(sown)
            if res.get("out") != want:
                c.violation("fresh-process-reap-differs", res.get("error", "reaped nest differs from the direct sweep"),
                            {"sweep": sw.describe(), "kind": sw.kind, "ops": [D.describe_op(x) for x in ops],
                             "reaped": res.get("out"), "direct": want})
        c.cov["fresh_process_histories"] = nfp
    finally:
        R.shutdown_loky()
        shutil.rmtree(tmp, ignore_errors=True)
    c.notes.append("sow_samples / farmer crops are exercised under C06 and C15")
    c.assumptions = ["the sown function is deterministic and total",
                     "no crash and no concurrent writer during the history (C10, C11)"]
    return c.finish(b, PROP_FILE, TRUSTED, RULE)


def replay(path):
    return core.generic_replay(run, path)
