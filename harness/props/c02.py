"""C02 -- sparse cases run only what was asked and leave every other slot missing."""
import json
import os
import shutil

from harness import core
from harness.impl import runner as R
from harness.props import sweepcheck as S

PROP_FILE = "Props/C02.v"
TRUSTED = [
    "Coq 8.16.1 kernel (coqc, full .vo build); vm_compute for the non-vacuity Examples and case evaluation",
    "hand model Model/Runner.v (cases branch of combo_runner_core, nan_like_result / infer_shape in RunnerInst.v), "
    "tied to the code by differential execution",
    "translator gen_runner.py: the prologue of combo_runner_core (argument names / per-case value tuples read by "
    "name in the key order of the first case; overlap guard before anything runs), _unflatten and the duplicate "
    "test are pinned to their transcriptions; run / results / info data flow regenerated (C02_code_tie)",
    "swept values are mapped to integers that preserve Python's sort order; unsortable mixtures (TypeError "
    "fallback to arbitrary set order) are outside the guard `sortable` and not generated",
    "xarray.full_like for dict/Dataset placeholders is library behaviour: modelled as 'all-NaN dataset' (test only)",
    "assumptions E1 (futures) and R1 (random.shuffle is a permutation) as for C01",
]
RULE = ("random case sets over 1-4 case arguments (dict spelling with shuffled key order, tuple spelling through "
        "case_runner), optional sub-grids, all result kinds (number/bool/str/tuple/array/nested list/mixed/dict), "
        "shuffle, flat/nested/split, plus an overlap stream (an argument in both cases and combos); "
        "distinct = distinct (case set, sub-grid, api, strategy, flags); non-trivial = at least 2 settings")


def gen(tier, rng):
    n = 260 if tier == "quick" else 2500
    sweeps = []
    for i in range(n):
        sw = R.Sweep(rng, with_cases=True)
        split = sw.kind in (3, 4, 6, 7) and rng.random() < 0.3
        if rng.random() < 0.3:
            sweeps.append((sw, "case_runner", rng.choice(R.CHEAP), split, True, "tuple"))
        else:
            sweeps.append((sw, "combo_runner", rng.choice(R.CHEAP), split, rng.random() < 0.2,
                           rng.choice(["dict", "dict-shuffled"])))
    for i in range(6 if tier == "quick" else 40):
        sw = R.Sweep(rng, with_cases=True, max_args=3, max_vals=3)
        sweeps.append((sw, "combo_runner" if i % 2 == 0 else "case_runner", R.STRATEGIES[7 + i % 5], False, False,
                       "dict-shuffled"))
    return sweeps


def overlap_stream(c, tmp, n):
    """An argument given both in the cases and in the combos must be rejected before any call."""
    import xyzpy
    pairs = []
    for _ in range(n):
        sw = R.Sweep(c.rng, with_cases=True, max_args=3)
        a = c.rng.choice(sw.case_args)
        combos = dict(sw.combos)
        combos[a] = list(sw.pools[a])
        log = os.path.join(tmp, "calls.log")
        if os.path.exists(log):
            os.remove(log)
        fn = R.make_fn(sw, log)
        try:
            xyzpy.combo_runner(fn, combos, cases=sw.cases_dicts(), verbosity=0)
            outcome = "accepted"
        except ValueError:
            outcome = "rejected"
        except Exception as e:
            outcome = type(e).__name__
        calls = R.read_log(log)
        c.case(("overlap", str(sw.describe()), a), nontrivial=True)
        c.count("stream", "overlap")
        if outcome != "rejected" or calls:
            c.violation("overlap-not-rejected-before-running",
                        f"argument {a} in both cases and combos: outcome {outcome}, {len(calls)} calls made",
                        {"sweep": sw.describe(), "duplicated_arg": a})
        # model: same input with the argument id added to the combo args
        inp = sw.coq_input(False, False, None)
        pairs.append((f"run_core 0 (mk_input true {core.zlist([sw.argid(x) for x in sw.case_args])} [] "
                      f"{core.zlist([sw.argid(x) for x in sw.combo_args] + [sw.argid(a)])} [] [] false false None)",
                      ["rejected" if outcome == "rejected" else outcome, calls]))
    bad, _ = core.safe_run_cases(c, "Prelude Grid Perm Runner RunnerInst", pairs)
    return len(bad)


MIXED = [1, 2, 7, "auto", "none"]


def mixed_fn(k, b, z=0):
    return 1000.0 * MIXED.index(k) + 10 * b + z


def mixed_values_stream(c, n):
    """Cases in which one argument takes values of different kinds (numbers and strings: Python cannot order them,
    the axis keeps whatever order the set gives): every requested setting is still called once, its result sits in
    the grid, every other slot is a placeholder (oracle only: the model's axes are sorted)."""
    import math
    import xyzpy
    for i in range(n):
        rng = c.rng
        ks = rng.sample(MIXED, rng.randint(2, 4))
        if all(isinstance(k, int) for k in ks) or all(isinstance(k, str) for k in ks):
            ks = [1, "auto"] + ks[:1]
        cases = []
        for _ in range(rng.randint(2, 5)):
            cs = {"k": rng.choice(ks), "b": rng.randint(0, 3)}
            if cs not in cases:
                cases.append(cs)
        sub = {"z": [0, 1]} if rng.random() < 0.4 else None
        calls = []

        def fn(**kw):
            calls.append(dict(kw))
            return mixed_fn(**kw)
        rep = {"stream": "mixed-kind-values", "cases": [[str(cs["k"]), cs["b"]] for cs in cases], "sub_grid": bool(sub)}
        try:
            out = xyzpy.combo_runner(fn, sub, cases=[dict(cs) for cs in cases], verbosity=0,
                                     shuffle=rng.choice([False, True]))
        except Exception as e:  # noqa
            c.case(json.dumps(rep, sort_keys=True), nontrivial=True)
            c.violation("raised", f"{type(e).__name__}: {str(e)[:150]}", rep)
            continue
        c.case(json.dumps(rep, sort_keys=True), nontrivial=True, sample=rep if i % 8 == 0 else None)
        c.count("stream", "mixed-kind-values")
        want = sorted(mixed_fn(**cs, **({"z": z} if sub else {})) for cs in cases for z in ([0, 1] if sub else [0]))
        leaves = []

        def walk(x, depth):
            if depth == 0:
                leaves.append(x)
            else:
                for y in x:
                    walk(y, depth - 1)
        walk(out, 3 if sub else 2)
        got = sorted(x for x in leaves if not (isinstance(x, float) and math.isnan(x)))
        nk, nb = len({cs["k"] for cs in cases}), len({cs["b"] for cs in cases})
        if len(calls) != len(want):
            c.violation("calls-not-exactly-once", f"{len(want)} settings requested, {len(calls)} calls", rep)
        elif len(leaves) != nk * nb * (2 if sub else 1):
            c.violation("grid-shape", f"{len(leaves)} slots for {nk} x {nb} values", rep)
        elif got != want:
            c.violation("wrong-slot", f"the grid holds the results {got}, the requested settings give {want} "
                                      f"(results missing from the grid or duplicated)", rep)


def run(tier, seed):
    c = core.Check("C02", tier, seed)
    gen_st = core.regen()
    b = core.build(PROP_FILE)
    c.cov["build"] = {"ok": b["ok"], "failed_file": b["failed_file"], "wall_s": round(b.get("wall_s", 0), 1)}
    c.cov["translator"] = {k: v for k, v in gen_st.items() if k in ("GenRunner",)}
    if "GenRunner" in gen_st and not gen_st["GenRunner"]["ok"]:
        c.obligation_broken("translator GenRunner", gen_st["GenRunner"]["detail"])
    if not b["ok"]:
        c.obligation_broken(f"Coq build of {b['failed_file']}", b["log_tail"][-1200:])
    tmp = core.scratch_dir("xv-c02-")
    try:
        nbad = S.run_stream(c, gen("thorough" if c.broken else tier, c.rng), tmp, "cases")
        nbad += overlap_stream(c, tmp, 30 if tier == "quick" else 200)
        mixed_values_stream(c, 20 if tier == "quick" and not c.broken else 150)
        c.cov["disagreements_checked"] = nbad
    finally:
        R.shutdown_loky()
        shutil.rmtree(tmp, ignore_errors=True)
    c.notes.append("not covered (outside the quantifier): cases with differing key sets (the code takes the keys "
                   "of the first case), unsortable value mixtures, empty nested results")
    c.assumptions = ["cases are distinct and all have the key set of the first case",
                     "values of one argument are mutually comparable (sorted() succeeds)"]
    return c.finish(b, PROP_FILE, TRUSTED, RULE)


def replay(path):
    return core.generic_replay(run, path)
