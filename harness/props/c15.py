"""C15 -- sampling only ever appends correct rows."""
import json
import os
import shutil

import numpy as np

from harness import core

PROP_FILE = "Props/C15.v"
TRUSTED = [
    "Coq 8.16.1 kernel (coqc, full .vo build); vm_compute for the Example and case evaluation",
    "hand model Model/Harvest.v (sampler part): the table as a list of rows, memory + file, synced appends, new "
    "sessions, a second long-lived sampler appending to the same file; C15_rows_correct re-uses the DataFrame row "
    "theorem of C03 over the data flow regenerated from combo_runner.py (GenRunner)",
    "translator gen_harvest.py: stage order of Sampler.add_df (load, concat [held; new], store), where save_full_df "
    "updates memory relative to the atomic write; bridged in Bridge/BridgeHarvest.v; the correspondence interprets "
    "the REGENERATED flow (Model/HarvestFlow.v)",
    "the random draws (numpy.random.choice / user generators) are INPUTS of the model: the harness records the rows a "
    "run produced and checks them against the allowed choices and the function",
    "pandas concat / to_pickle / read_pickle / to_csv / read_csv are library behaviour, validated by the correspondence",
]
RULE = ("random histories (1..8 runs) of sample_combos and sow_samples/grow/reap with varying n, combos overrides "
        "(lists and callables), constants, batch sizes, engines pickle and csv, fresh Sampler objects and a second "
        "long-lived Sampler on the same file, shuffle on/off; distinct = distinct histories; non-trivial = at least two "
        "runs")

CHOICES = {"a": [1, 2, 3, 4], "b": [10, 20, 30]}


def fn(a, b, k=0):
    return 1000 * k + 10 * a + b


def canon_df(df):
    """rows as [a, b, k, out]; k is -1 where the table has no value for it (column absent or empty cell)"""
    if df is None:
        return None
    out = []
    for _, r in df.iterrows():
        k = r["k"] if "k" in df.columns else None
        k = -1 if (k is None or (isinstance(k, float) and np.isnan(k))) else int(k)
        out.append([int(r["a"]), int(r["b"]), k, int(r["out"])])
    return out


def read_file(path, engine):
    import xyzpy
    if not os.path.exists(path):
        return None
    try:
        return canon_df(xyzpy.manage.load_df(path, engine=engine))
    except Exception as e:  # noqa  (a table file that its own engine cannot read: reported, not a harness crash)
        return [["unreadable", f"{type(e).__name__}: {str(e)[:80]}"]]


def run_history(c, tmp, idx):
    import xyzpy
    rng = c.rng
    engine = rng.choice(["pickle", "pickle", "csv"])
    d = os.path.join(tmp, f"h{idx}")
    os.makedirs(d)
    path = os.path.join(d, "samples." + ("pkl" if engine == "pickle" else "csv"))
    use_const = rng.random() < 0.3

    # the default choices in either key order, or for `b` only (every run then adds the choices for `a`):
    # the merged mapping's key order need not be the function's signature order
    defaults_kind = rng.choice(["ab", "ab", "ba", "b-only"])
    defaults = {"ab": dict(CHOICES), "ba": {"b": CHOICES["b"], "a": CHOICES["a"]},
                "b-only": {"b": CHOICES["b"]}}[defaults_kind]

    def new_sampler():
        r = xyzpy.Runner(fn, var_names="out", constants={"k": 2} if use_const else None)
        return xyzpy.Sampler(r, data_name=path, default_combos=dict(defaults), engine=engine)
    ss = [new_sampler(), new_sampler()]
    model_ops, obs = [], []
    steps = []
    for step in range(rng.randint(1, 8)):
        r = rng.random()
        who = 0 if rng.random() < 0.7 else 1
        before = read_file(path, engine)
        kind = "sample" if r < 0.5 else ("crop" if r < 0.72 else ("new_session" if r < 0.9 else "sample_fail"))
        if who != 0 and kind == "sample_fail":
            kind = "sample"
        n = rng.randint(1, 5)
        combos = None
        allowed = dict(CHOICES)
        if rng.random() < 0.3:
            combos = {"a": [7, 8]}
            allowed["a"] = [7, 8]
        elif rng.random() < 0.15:
            combos = {"b": lambda: 50}
            allowed["b"] = [50]
        if defaults_kind == "b-only" and (combos is None or "a" not in combos):
            combos = dict(combos or {})
            combos["a"] = list(CHOICES["a"])
        # a constant given for this run only (overrides the runner's own)
        run_k = 5 if rng.random() < 0.3 else (2 if use_const else 0)
        kc = {"constants": {"k": run_k}} if run_k == 5 else {}
        ke = {"engine": engine} if rng.random() < 0.3 else {}
        rep = {"engine": engine, "const": use_const, "steps": steps, "default_combos": defaults_kind}
        steps.append([kind, who, n, "override" if combos else "default"])
        try:
            if kind == "sample":
                np.random.seed(rng.randint(0, 10 ** 6))
                opts = {"shuffle": rng.choice([False, True, 3])} if rng.random() < 0.3 else {}
                last = ss[who].sample_combos(n, combos=combos, verbosity=0, **opts, **kc, **ke)
            elif kind == "sample_fail":
                # a run whose table write fails: before the temporary file exists (save_df raises) or at the
                # os.replace; the run raises, nothing is appended anywhere
                np.random.seed(rng.randint(0, 10 ** 6))
                import xyzpy.gen.farming as F
                real_save, real_os = F.save_df, F.os
                at_replace = rng.random() < 0.5

                class OsProxy:
                    def __getattr__(self, k):
                        return getattr(real_os, k)

                    @staticmethod
                    def replace(a, b):
                        raise OSError(28, "No space left on device (injected)")

                def bad_save(*a, **k):
                    raise OSError(28, "No space left on device (injected)")
                if at_replace:
                    F.os = OsProxy()
                else:
                    F.save_df = bad_save
                failed = None
                try:
                    ss[who].sample_combos(n, combos=combos, verbosity=0)
                except OSError as e:
                    failed = str(e)
                finally:
                    F.save_df, F.os = real_save, real_os
                after_f = read_file(path, engine)
                memf = canon_df(ss[who]._full_df)
                if failed is None:
                    c.violation("table-write-failure-swallowed", "the table write failed but sample_combos returned", rep)
                if after_f != before:
                    c.violation("failed-write-changed-table", "a run whose write failed changed the table on disk", rep)
                if memf != (before if before is not None else memf) and before is not None:
                    c.violation("memory-differs-from-disk", f"after a failed write full_df has {len(memf or [])} rows, "
                                f"the file {len(before)}", rep)
                model_ops.append("SAddFail []")
                obs.append([memf, after_f])
                continue
            elif kind == "crop":
                np.random.seed(rng.randint(0, 10 ** 6))
                crop = ss[who].Crop(name=f"c{step}", parent_dir=d, batchsize=rng.randint(1, 3))
                crop.sow_samples(n, combos=combos, verbosity=0, **kc)
                r2 = rng.random()
                if r2 < 0.15:
                    # only the first batch is grown before the crop is sown again: that result is stale too
                    steps[-1].append("resown-partly-grown")
                    crop.grow(1, verbosity=0)
                    crop.sow_samples(n, combos=combos, verbosity=0, **kc)
                    crop.grow_missing(verbosity=0)
                else:
                    crop.grow_missing(verbosity=0)
                    if r2 < 0.4:
                        # sown again before reaping: NEW samples are drawn, the rows reaped are theirs
                        steps[-1].append("resown")
                        crop.sow_samples(n, combos=combos, verbosity=0, **kc)
                        crop.grow_missing(verbosity=0)
                last = crop.reap()
            else:
                ss[who] = new_sampler()
                last = None
        except Exception as e:  # noqa
            c.violation("sampling-raised", f"{type(e).__name__}: {str(e)[:200]}", rep)
            break
        after = read_file(path, engine)
        if after and after[0][0] == "unreadable":
            c.violation("table-unreadable", f"the table file cannot be read with the sampler's engine ({engine}): {after[0][1]}", rep)
            break
        if kind != "new_session":
            rows = canon_df(last)
            # ---- the property statement
            if len(rows) != n:
                c.violation("wrong-number-of-rows", f"run of n={n} produced {len(rows)} rows", rep)
            if after != (before or []) + rows:
                c.violation("table-not-appended",
                            f"table on disk after the run is not the earlier table plus the new rows "
                            f"({len(before or [])} + {len(rows)} -> {len(after or [])})", rep)
            for row in rows:
                a, b = row[0], row[1]
                out = row[-1]
                if a not in allowed["a"] or b not in allowed["b"]:
                    c.violation("draw-outside-choices", f"row {row}", rep)
                if out != fn(a, b, run_k):
                    c.violation("row-output-wrong", f"row {row}: the function gives {fn(a, b, run_k)}", rep)
                if (use_const or run_k == 5) and row[2] != run_k:
                    c.violation("row-constant-wrong", f"row {row}: this run's constant k was {run_k}", rep)
            if canon_df(ss[who]._full_df) != after:
                c.violation("memory-differs-from-disk", "full_df differs from the table on disk after the run", rep)
            coq_rows = "[" + "; ".join(core.zlist(r) for r in rows) + "]"
            model_ops.append(f"SAdd {coq_rows} true" if who == 0 else f"SExtAdd {coq_rows}")
        else:
            if after != before:
                c.violation("new-session-changed-table", "constructing a Sampler changed the file", rep)
            if who == 0:
                model_ops.append("SNewSession")
            else:
                continue
        obs.append([canon_df(ss[0]._full_df), after])
    shutil.rmtree(d, ignore_errors=True)
    return {"engine": engine, "const": use_const, "steps": steps}, "run_sampler_flow gen_sadd_flow gen_ssave_flow [" + "; ".join(model_ops) + "]", obs


def run(tier, seed):
    c = core.Check("C15", tier, seed)
    gen_st = core.regen()
    b = core.build(PROP_FILE)
    c.cov["translator"] = {k: v for k, v in gen_st.items() if k in ("GenRunner", "GenHarvest", "GenLabel", "GenFarmer")}
    c.cov["build"] = {"ok": b["ok"], "failed_file": b["failed_file"], "wall_s": round(b.get("wall_s", 0), 1)}
    for u in ("GenRunner", "GenHarvest", "GenLabel", "GenFarmer"):
        if u in gen_st and not gen_st[u]["ok"]:
            c.obligation_broken(f"translator {u}", gen_st[u]["detail"])
    if not b["ok"]:
        c.obligation_broken(f"Coq build of {b['failed_file']}", b["log_tail"][-1200:])
    n = 80 if tier == "quick" else 700
    if c.broken:
        n = 250
    tmp = core.scratch_dir("xv-c15-")
    pairs, metas = [], []
    try:
        for i in range(n):
            rep, model, obs = run_history(c, tmp, i)
            c.case(json.dumps(rep, sort_keys=True), nontrivial=len(rep["steps"]) >= 2,
                   sample={**rep, "observations": obs} if len(rep["steps"]) <= 3 else None)
            for st in rep["steps"]:
                c.count("step", st[0]); c.count("combos", st[3])
            c.count("engine", rep["engine"]); c.count("len", len(rep["steps"]))
            pairs.append((model, obs))
            metas.append(rep)
        bad, _ = core.safe_run_cases(c, "Prelude Grid Names Harvest HarvestFlow HarvestInst GenHarvest", pairs, chunk=60)
        for i in bad:
            c.obligation_broken("correspondence Model/Harvest.v (sampler) vs Sampler",
                                {"case": metas[i], "model_expr": pairs[i][0][:2000], "observed": pairs[i][1]})
        c.cov["disagreements_checked"] = len(bad)
    finally:
        shutil.rmtree(tmp, ignore_errors=True)
    c.assumptions = ["every sampling run is synced (the default)", "one process at a time writes the table"]
    return c.finish(b, PROP_FILE, TRUSTED, RULE)


def replay(path):
    return core.generic_replay(run, path)
