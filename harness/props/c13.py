"""C13 -- missing-data discovery reports exactly the locations that have no data."""
import hashlib
import itertools
import json
import os
import shutil

from harness import core
from harness.impl import missing as M

PROP_FILE = "Props/C13.v"
IMPORTS = "Prelude Grid DsMap"
TRUSTED = [
    "Coq 8.16.1 kernel (coqc, full .vo build); vm_compute only for the non-vacuity Examples and case evaluation",
    "hand model Model/DsMap.v of a labelled dataset and of is_case_missing / find_missing_cases / parse_into_cases "
    "(xyzpy/gen/case_runner.py) and of harvesting cases as an update of the cell maps; tied to the code by "
    "differential execution",
    "translator harness/translator/gen_missing.py (Python ast, statement shapes, fail closed): the two reductions "
    "(.all()), the KeyError answer, the default criterion and the forwarding of `method` by find_missing_cases and "
    "parse_into_cases are read from the source into Gen/GenMissing.v; that fn_args = ds.dims minus ignore_dims, the "
    "iteration of ds[arg].data and the dict merge have the expected shape is checked by the translator (refused "
    "otherwise); bridge lemmas Bridge/BridgeMissing.v tie the regenerated functions (Model/Missing.v) to Model/DsMap.v",
    "modelled, not proved: xarray Dataset.sel (label look-up, KeyError on an absent label or unknown dimension, "
    "a dimension a variable lacks is ignored for it), isnull (NaN / None), numpy isfinite, all() per variable then "
    "to_array().all(), the iteration order of Dataset.dims and of ds[dim].data, merge(compat='no_conflicts') / "
    "combine_first and the h5netcdf round trip inside Harvester.harvest_cases",
    "canonicalisation in harness/impl/missing.py: labels -> integer ranks (order preserving per dimension), cells -> "
    "CVal / CNan / CInf, dict results -> association lists in dict order",
    "independent numpy oracle of the property statement in harness/impl/missing.py (View.expected_missing / "
    "expected_find: positional indexing, numpy isnan / isfinite only)",
]
RULE = ("random xarray Datasets: 1-4 parameter dimensions (int / float / str coordinates, not sorted, sizes 1-4, at "
        "most 36 locations), 0-2 internal dimensions (with or without coordinates), 1-3 variables (float with NaN and "
        "+-inf, object str with None / NaN objects, int) each over a random sub-arrangement of the dimensions in random "
        "order, base null density per variable plus directed whole-cell / inf-only / mixed / partial-cell / "
        "per-variable / data patterns; per dataset: find_missing_cases for both criteria and several ignore_dims "
        "spellings (incl. ignoring a parameter dimension or not ignoring an internal one), is_case_missing on partial "
        "and absent settings and on DataArrays, parse_into_cases with combos / cases / absent labels / ds=None, and "
        "the find -> harvest -> find loop on a real Harvester (h5netcdf file) for Harvester-shaped datasets; "
        "distinct = distinct (dataset, query) pairs; non-trivial = the dataset has at least 2 locations and both "
        "a missing and a non-missing location under some criterion")

DIM_NAMES = ["q", "b", "z", "a", "m", "tolerance", "drop", "method"]   # deliberately unsorted; the last three are also keyword options of Dataset.sel
INT_NAMES = ["t", "k", "time", "freq"]     # multi-character names too (ignore_dims may be a bare string)
VAR_NAMES = ["y", "x", "w"]
NAN_OBJ = M.NAN_OBJ                            # token of a float NaN object inside an object (str) variable


# ------------------------------------------------------------------ generation
def _labels(rng, ty, n, extra=2):
    """n labels for the dataset + `extra` absent ones, same type, all distinct, unsorted."""
    if ty == "int":
        pool = rng.sample(range(-6, 30), n + extra)
    elif ty == "float":
        pool = [x / 4 for x in rng.sample(range(-9, 50), n + extra)]
    else:
        pool = ["s" + chr(97 + i) * (1 + i % 2) for i in rng.sample(range(14), n + extra)]
    return pool[:n], pool[n:]


def _value(rng, dtype):
    if dtype == "float":
        return rng.choice([0.0, -1.5, 2.25, 1e300, -3.0, 7.0, 0.5])
    if dtype == "str":
        return rng.choice(["", "nan", "None", "abc", "inf", "x"])
    return rng.randint(-3, 9)


def _null(rng, dtype, inf=False):
    if dtype == "float":
        return rng.choice(["inf", "-inf"]) if inf else "nan"
    if dtype == "str":
        return NAN_OBJ if rng.random() < 0.2 else None
    raise ValueError


def gen_desc(rng, harvester_shaped):
    nparam = rng.choice([1, 2, 2, 3, 3, 4])
    pnames = rng.sample(DIM_NAMES, nparam)
    sizes = [rng.randint(1, 4) for _ in pnames]
    while _prod(sizes) > 36:
        i = sizes.index(max(sizes))
        sizes[i] -= 1
    dims, absent = [], {}
    for n, s in zip(pnames, sizes):
        ty = rng.choice(["int", "int", "float", "str", "str"])
        ls, ab = _labels(rng, ty, s)
        dims.append({"name": n, "labels": ls, "size": s, "internal": False, "type": ty})
        absent[n] = ab
    nint = rng.choice([0, 1, 1, 2])
    for n in rng.sample(INT_NAMES, nint):
        s = rng.randint(1, 3)
        if rng.random() < 0.5:
            ls, ab = _labels(rng, rng.choice(["int", "float", "str"]), s)
            dims.append({"name": n, "labels": ls, "size": s, "internal": True, "type": "coord"})
            absent[n] = ab
        else:
            dims.append({"name": n, "labels": None, "size": s, "internal": True, "type": "nocoord"})
            absent[n] = []
    inames = [d["name"] for d in dims if d["internal"]]
    sz = {d["name"]: d["size"] for d in dims}
    nvar = rng.randint(1, 3)
    vs = []
    for name in rng.sample(VAR_NAMES, nvar):
        if harvester_shaped:
            vd = list(pnames) + [d for d in inames if rng.random() < 0.6]
            dtype = "float"
        else:
            vd = list(pnames) if rng.random() < 0.55 else [d for d in pnames if rng.random() < 0.6]
            vd += [d for d in inames if rng.random() < 0.6]
            if rng.random() < 0.5:
                rng.shuffle(vd)
            dtype = rng.choice(["float", "float", "float", "str", "str", "int"] if rng.random() < 0.5 else ["float"])
        vs.append({"name": name, "dims": vd, "dtype": dtype})
    # internal dims nobody uses would not exist in the dataset unless they have a coordinate
    used = {d for v in vs for d in v["dims"]}
    dims = [d for d in dims if not (d["internal"] and d["labels"] is None and d["name"] not in used)]
    # cells
    import numpy as np
    for v in vs:
        shape = tuple(sz[d] for d in v["dims"])
        n = _prod(shape)
        p_null = 0.0 if v["dtype"] == "int" else rng.choice([0.0, 0.2, 0.6, 1.0])
        p_inf = rng.choice([0.0, 0.0, 0.25]) if v["dtype"] == "float" else 0.0
        cells = np.empty(n, dtype=object)
        for i in range(n):
            u = rng.random()
            cells[i] = (_null(rng, v["dtype"]) if u < p_null else
                        _null(rng, v["dtype"], inf=True) if u < p_null + p_inf else _value(rng, v["dtype"]))
        v["_arr"] = cells.reshape(shape) if shape else cells.reshape(())
    nloc = _prod(sizes)
    for _ in range(rng.randint(0, min(nloc, 8))):
        loc = {n: rng.randrange(s) for n, s in zip(pnames, sizes)}
        pat = rng.choice(["whole", "whole", "infonly", "infonly", "mixed", "partial", "pervar", "data"])
        regions = [(v, tuple(loc[d] if d in loc else slice(None) for d in v["dims"])) for v in vs]
        nullable = [(v, ix) for v, ix in regions if v["dtype"] != "int"]

        def fill(v, ix, f):
            sub = v["_arr"][ix]
            if isinstance(sub, np.ndarray):
                flat = sub.reshape(-1) if sub.ndim else sub.reshape(1)
                new = np.empty(flat.shape, dtype=object)
                for i in range(len(flat)):
                    new[i] = f(i)
                v["_arr"][ix] = new.reshape(sub.shape)
            else:
                v["_arr"][ix] = f(0)
        if pat == "data":
            for v, ix in regions:
                fill(v, ix, lambda i: _value(rng, v["dtype"]))
        elif pat == "whole":
            for v, ix in nullable:
                fill(v, ix, lambda i: _null(rng, v["dtype"]))
        elif pat == "infonly":
            for v, ix in nullable:
                fill(v, ix, lambda i: _null(rng, v["dtype"], inf=(v["dtype"] == "float")))
        elif pat == "mixed":
            for v, ix in nullable:
                fill(v, ix, lambda i: _null(rng, v["dtype"], inf=(v["dtype"] == "float" and (i == 0 or rng.random() < 0.5))))
        elif pat == "partial" and nullable:
            for v, ix in nullable:
                fill(v, ix, lambda i: _null(rng, v["dtype"]))
            v, ix = rng.choice(nullable)
            sub = v["_arr"][ix]
            size = sub.size if isinstance(sub, np.ndarray) else 1
            k = rng.randrange(size)
            fill(v, ix, lambda i: _value(rng, v["dtype"]) if i == k else _null(rng, v["dtype"]))
        elif pat == "pervar" and nullable:
            v0, _ = rng.choice(nullable)
            for v, ix in regions:
                if v is v0:
                    fill(v, ix, lambda i: _null(rng, v["dtype"]))
                else:
                    fill(v, ix, lambda i: _value(rng, v["dtype"]))
    for v in vs:
        v["cells"] = list(v.pop("_arr").reshape(-1))
    order = [d["name"] for d in dims]
    rng.shuffle(order)
    return {"dims": dims, "vars": vs, "coord_order": order, "absent": absent, "harvester_shaped": harvester_shaped}


def _prod(xs):
    p = 1
    for x in xs:
        p *= x
    return p


def gen_queries(rng, desc):
    """The questions asked about one dataset (all JSON-able)."""
    dims = desc["dims"]
    by = {d["name"]: d for d in dims}
    params = [d["name"] for d in dims if not d["internal"]]
    internal = [d["name"] for d in dims if d["internal"]]
    has_obj = any(v["dtype"] == "str" for v in desc["vars"])
    methods = ["isnull"] if has_obj else ["isnull", "isfinite"]

    def some_label(d, p_absent=0.15):
        dd = by.get(d)
        if dd is None:
            return 1
        if dd["labels"] is None:
            return rng.randrange(dd["size"])                  # coordinate-less: positions, in range only
        if desc["absent"][d] and rng.random() < p_absent:
            return rng.choice(desc["absent"][d])
        return rng.choice(dd["labels"])

    qs = []
    # --- find over the grid
    for m in methods:
        spell = rng.choice((["str"] if len(internal) == 1 else []) + ["set", "list", "tuple", "frozenset"]) \
            if internal else rng.choice(["none", "set", "list"])
        qs.append({"q": "find", "ignore": list(internal), "spell": spell, "method": m})
    if rng.random() < 0.5:
        ign = [d for d in internal if rng.random() < 0.6] + [d for d in params if rng.random() < 0.35]
        if rng.random() < 0.2:
            ign.append("zz")
        if _prod([by[d]["size"] for d in by if d not in ign]) <= 60:
            qs.append({"q": "find", "ignore": ign, "spell": rng.choice(["set", "list", "tuple"]) if ign else "none",
                       "method": rng.choice(methods)})
    # --- single questions
    alld = params + internal
    for _ in range(rng.randint(3, 6)):
        r = rng.random()
        if r < 0.5:
            ds_ = list(params)
        else:
            ds_ = [d for d in alld if rng.random() < 0.5]
        if rng.random() < 0.08:
            ds_.append("zz")
        rng.shuffle(ds_)
        qs.append({"q": "icm", "setting": [[d, some_label(d)] for d in ds_], "method": rng.choice(methods), "da": None})
    for _ in range(rng.randint(1, 2)):
        v = rng.choice(desc["vars"])
        m = rng.choice(["isnull"] if v["dtype"] == "str" else ["isnull", "isfinite"])
        if rng.random() < 0.75:
            ds_ = [d for d in v["dims"] if rng.random() < 0.7]
        else:
            ds_ = [d for d in alld if rng.random() < 0.6]      # may name a dimension the DataArray lacks
        qs.append({"q": "icm", "setting": [[d, some_label(d)] for d in ds_], "method": m, "da": v["name"]})
    # --- requested combos and cases
    for _ in range(2):
        for m in methods:
            pool = [d for d in params if rng.random() < 0.85] or list(params)
            if internal and rng.random() < 0.15:
                pool.append(rng.choice(internal))
            rng.shuffle(pool)
            ncase = rng.randint(0, len(pool))
            cdims, gdims = pool[:ncase], pool[ncase:]
            if cdims and gdims and rng.random() < 0.1:
                gdims = gdims + [cdims[0]]                      # same key in cases and combos: combos win
            combos = []
            for d in gdims:
                dd = by[d]
                if dd["labels"] is None:
                    ls = list(range(dd["size"]))
                else:
                    ls = list(dd["labels"]) if rng.random() < 0.7 else [l for l in dd["labels"] if rng.random() < 0.6]
                    ls += [a for a in desc["absent"][d] if rng.random() < 0.3]
                rng.shuffle(ls)
                combos.append([d, ls])
            cases = None
            if cdims:
                if rng.random() < 0.5 and _prod([by[d]["size"] for d in cdims]) <= 12:
                    tuples = [list(t) for t in itertools.product(*[
                        by[d]["labels"] if by[d]["labels"] is not None else range(by[d]["size"]) for d in cdims])]
                    rng.shuffle(tuples)
                else:
                    tuples = [[some_label(d, 0.2) for d in cdims] for _ in range(rng.randint(1, 5))]
                cases = [[[d, l] for d, l in zip(cdims, t)] for t in tuples]
            n_req = (len(cases) if cases else 1) * _prod([len(ls) for _, ls in combos])
            if n_req > 80:
                continue
            qs.append({"q": "parse", "combos": combos if (combos or rng.random() < 0.5) else None, "cases": cases,
                       "with_ds": rng.random() < 0.92, "method": m})
    # --- the loop
    if desc["harvester_shaped"]:
        for m in methods:
            qs.append({"q": "loop", "ignore": list(internal), "method": m})
    return qs


def jsonable(desc):
    return json.loads(json.dumps(desc))


def gen_case(rng):
    desc = gen_desc(rng, harvester_shaped=rng.random() < 0.4)
    return {"desc": jsonable(desc), "queries": gen_queries(rng, desc)}


# ------------------------------------------------------------------ one case on the real code
def run_case(case, tmp):
    """Returns (results, fails, stats).  results[i] = (model expression, observed canonical value) or
    None for query i; fails = [(query index, key, message)] from the oracle."""
    desc, qs = case["desc"], case["queries"]
    ds = M.build_ds(desc)
    view = M.View(ds)
    # universe of labels per dimension for the integer images
    universe = {d: list(ls) for d, ls in view.labels.items()}
    for q in qs:
        if q["q"] == "icm":
            for d, l in q["setting"]:
                universe.setdefault(d, []).append(l)
        elif q["q"] == "parse":
            for d, ls in q["combos"] or []:
                universe.setdefault(d, []).extend(ls)
            for c in q["cases"] or []:
                for d, l in c:
                    universe.setdefault(d, []).append(l)
    for d in desc["dims"]:
        universe.setdefault(d["name"], [])
    rk = M.Ranks(set(universe) | {"zz"}, [n for n, _, _ in view.vars], universe)
    D = M.gallina_ds(view, rk)
    results, fails = [], []
    stats = {"locs": _prod([len(view.labels[d]) for d in view.dims if not _internal(desc, d)]),
             "missing": {}, "dims_order": list(view.dims)}

    def fail(i, key, msg):
        fails.append((i, key, msg))

    for i, q in enumerate(qs):
        m = q["method"]
        mid = M.METHOD_ID[m]
        try:
            if q["q"] == "find":
                exp_args, exp = view.expected_find(set(q["ignore"]), m)
                got_args, got = M.real_find(ds, q["ignore"], q["spell"], m)
                if got_args != exp_args:
                    fail(i, "find:wrong-dimensions", f"fn_args {got_args}, expected {exp_args}")
                elif got != exp:
                    fail(i, _classify(got, exp), f"reported {got}, expected {exp}")
                if set(q["ignore"]) == {d["name"] for d in desc["dims"] if d["internal"]}:
                    stats["missing"][m] = len(exp)
                obs = [[rk.dim_id[d] for d in got_args],
                       [[_rank(rk, d, l) for d, l in zip(got_args, c)] for c in got]]
                ign = core.zlist([rk.dim_id[d] for d in q["ignore"]])
                results.append((f"enc_find D {ign} {mid}", obs))
            elif q["q"] == "icm":
                setting = {d: l for d, l in q["setting"]}
                v = view if q["da"] is None else M.View(ds, only_var=q["da"])
                exp = v.expected_missing(setting, m)
                got = M.real_icm(ds, setting, m, q["da"])
                if got != exp:
                    fail(i, "is_case_missing:" + ("reports-data-as-missing" if got else "misses-empty-location"),
                         f"is_case_missing({setting}, {m}, da={q['da']}) = {got}, expected {exp}")
                target = "D" if q["da"] is None else f"(data_array D {rk.var_id[q['da']]})"
                results.append((f"vbool (is_case_missing {target} {M.gallina_setting(rk.setting(setting))} {mid})", got))
            elif q["q"] == "parse":
                combos = None if q["combos"] is None else {d: list(ls) for d, ls in q["combos"]}
                cases = None if q["cases"] is None else [{d: l for d, l in c} for c in q["cases"]]
                exp = []
                for c in (cases if cases is not None else [{}]):
                    for vals in itertools.product(*(combos or {}).values()):
                        s = {**c, **dict(zip(combos or {}, vals))}
                        if not q["with_ds"] or view.expected_missing(s, m):
                            exp.append(s)
                got = M.real_parse(ds if q["with_ds"] else None, combos, cases, m)
                if got != exp:
                    extra = [s for s in got if s not in exp]
                    lost = [s for s in exp if s not in got]
                    key = ("parse:keeps-location-with-data" if extra else
                           "parse:drops-missing-location" if lost else "parse:order-or-duplicates")
                    fail(i, key, f"parse_into_cases({combos}, {cases}, method={m}) kept {got}, expected {exp}")
                obs = [rk.setting(s) for s in got]
                gc = "[" + "; ".join(f"({rk.dim_id[d]}, {core.zlist([rk.r(d, l) for l in ls])})"
                                     for d, ls in (combos or {}).items()) + "]"
                gs = "[" + "; ".join(M.gallina_setting(rk.setting(c)) for c in (cases if cases is not None else [{}])) + "]"
                results.append((f"enc_parse {gc} {gs} {'(Some D)' if q['with_ds'] else 'None'} {mid}", obs))
            elif q["q"] == "loop":
                ds0, fa0, miss0, ds1, fa1, miss1 = M.real_loop(ds, desc, q["ignore"], m, os.path.join(tmp, "full.h5"))
                v0 = M.View(ds0)
                exp_args, exp0 = v0.expected_find(set(q["ignore"]), m)
                if fa0 != exp_args:
                    fail(i, "loop:find:wrong-dimensions", f"fn_args {fa0}, expected {exp_args}")
                elif miss0 != exp0:
                    fail(i, "loop:" + _classify(miss0, exp0), f"first find reported {miss0}, expected {exp0}")
                if miss1:
                    fail(i, "loop:still-missing-after-harvesting-reported-cases",
                         f"after harvesting exactly {miss0}, find_missing_cases still reports {miss1}")
                v1 = M.View(ds1)
                _, exp1 = v1.expected_find(set(q["ignore"]), m)
                if exp1 and not miss1:
                    fail(i, "loop:misses-empty-location", f"locations {exp1} hold no data after the harvest but none is reported")
                # data that was there is still there
                pat0 = M.observed_pattern(v0, ds0, m)
                pat1 = M.observed_pattern(v0, ds1, m)
                if any(b and not a for fa, fb in zip(pat0, pat1) for a, b in zip(fa, fb)):
                    fail(i, "loop:harvest-removed-data", "a cell that held data before the harvest is null afterwards")
                rk0 = rk
                D0 = M.gallina_ds(v0, rk0)
                ign = core.zlist([rk.dim_id[d] for d in q["ignore"]])
                obs = [[[rk.dim_id[d] for d in fa0], [[_rank(rk, d, l) for d, l in zip(fa0, c)] for c in miss0]],
                       [[_rank(rk, d, l) for d, l in zip(fa1, c)] for c in miss1],
                       pat1]
                # dimension order of the reloaded dataset is read from it (View of ds0); ds1 may be re-ordered by
                # the merge, so the second find is compared as a set of locations in ds0's argument order
                expr = (f"(let D0 := {D0} in let H := harvest_missing (fun _ _ => 1) D0 {ign} {mid} in "
                        f"VL [enc_find D0 {ign} {mid}; enc_locs (find_missing H {ign} {mid}); enc_pattern H {mid}])")
                if fa1 != fa0:
                    perm = [fa1.index(d) for d in fa0]
                    obs[1] = [[c[j] for j in perm] for c in obs[1]]
                results.append((expr, obs))
        except Exception as e:     # noqa -- the real code raised
            fail(i, f"{q['q']}:raised", f"{type(e).__name__}: {str(e)[:300]}")
            results.append(None)
    return D, results, fails, stats


def _internal(desc, name):
    return any(d["name"] == name and d["internal"] for d in desc["dims"])


def _rank(rk, d, l):
    try:
        return rk.r(d, l)
    except KeyError:
        return -1


def _classify(got, exp):
    if any(g not in exp for g in got):
        return "find:reports-location-with-data"
    if any(e not in got for e in exp):
        return "find:misses-empty-location"
    return "find:order-or-duplicates"


def model_pair(D, results):
    items = [r for r in results if r is not None]
    expr = f"(let D := {D} in VL [" + "; ".join(e for e, _ in items) + "])"
    return expr, [o for _, o in items]


# ------------------------------------------------------------------ the check
def run_stream(c, cases, tmp):
    pairs, metas = [], []
    for case in cases:
        D, results, fails, stats = run_case(case, tmp)
        desc = case["desc"]
        mm = stats["missing"]
        nontrivial = stats["locs"] >= 2 and any(0 < n < stats["locs"] for n in mm.values())
        for i, q in enumerate(case["queries"]):
            c.case(hashlib.sha1(json.dumps([desc["dims"], desc["vars"], q], sort_keys=True, default=str).encode())
                   .hexdigest(), nontrivial=nontrivial)
            c.count("query", q["q"]); c.count("method", q["method"])
            if q["q"] == "find":
                c.count("ignore_spelling", q["spell"])
            if q["q"] == "icm":
                c.count("input", "DataArray" if q["da"] else "Dataset")
        if len(c.samples) < 400 and stats["locs"] <= 6:
            c.samples.append({"dims": [{k: d[k] for k in ("name", "labels", "internal")} for d in desc["dims"]],
                              "dims_order": stats["dims_order"],
                              "vars": [{k: v[k] for k in ("name", "dims", "dtype", "cells")} for v in desc["vars"]],
                              "queries": case["queries"][:4],
                              "observed": [r[1] for r in results[:4] if r is not None]})
        c.count("n_param_dims", sum(1 for d in desc["dims"] if not d["internal"]))
        c.count("n_internal_dims", sum(1 for d in desc["dims"] if d["internal"]))
        c.count("n_vars", len(desc["vars"]))
        c.count("harvester_shaped", desc["harvester_shaped"])
        c.count("dims_order_sorted", stats["dims_order"] == sorted(stats["dims_order"]))
        for v in desc["vars"]:
            c.count("var_dtype", v["dtype"])
            c.count("var_spans_all_param_dims",
                    all(d["name"] in v["dims"] for d in desc["dims"] if not d["internal"]))
        for d in desc["dims"]:
            c.count("coord_type", d["type"])
        for m, n in mm.items():
            c.count("missing_fraction_" + m, "none" if n == 0 else "all" if n == stats["locs"] else "some")
        if "isnull" in mm and "isfinite" in mm:
            c.count("inf_only_locations", mm["isfinite"] > mm["isnull"])
        for i, key, msg in fails:
            c.violation(key, msg, {"case": {"desc": desc, "queries": [case["queries"][i]]}, "query": case["queries"][i]})
        pairs.append(model_pair(D, results))
        metas.append((case, D, results, fails))
    bad, _ = core.safe_run_cases(c, IMPORTS, pairs, chunk=40)
    for k, bi in enumerate(bad):
        case, D, results, fails = metas[bi]
        if fails:
            continue
        detail = {"dataset": case["desc"], "model": pairs[bi][0][:1500], "observed": pairs[bi][1]}
        if k < 3:      # which question differs
            qi = [i for i, r in enumerate(results) if r is not None]
            sub = [(f"(let D := {D} in {results[i][0]})", results[i][1]) for i in qi]
            bad2, _ = core.safe_run_cases(c, IMPORTS, sub)
            detail["differing_queries"] = [{"query": case["queries"][qi[j]], "model": results[qi[j]][0][:600],
                                            "observed": results[qi[j]][1]} for j in bad2]
        c.obligation_broken("correspondence Model/DsMap.v vs case_runner.py / Harvester.harvest_cases", detail)
    return len(bad)


def directed_cases():
    """Hand-written corner cases that always run first (inf-only cells, absent labels, unsorted coords)."""
    desc = {"dims": [{"name": "b", "labels": [3, 1, 2], "size": 3, "internal": False, "type": "int"},
                     {"name": "a", "labels": ["q", "p"], "size": 2, "internal": False, "type": "str"},
                     {"name": "t", "labels": None, "size": 2, "internal": True, "type": "nocoord"}],
            "vars": [{"name": "x", "dims": ["b", "a", "t"], "dtype": "float",
                      "cells": [1.0, 2.0, "nan", "nan", "inf", "-inf", "inf", "nan", "nan", "nan", "nan", 5.0]},
                     {"name": "y", "dims": ["b", "a"], "dtype": "float", "cells": [1.0, "nan", "inf", "nan", "nan", "nan"]}],
            "coord_order": ["a", "b"], "absent": {"a": ["zz"], "b": [9], "t": []}, "harvester_shaped": True}
    qs = []
    for m in ("isnull", "isfinite"):
        qs += [{"q": "find", "ignore": ["t"], "spell": "str", "method": m},
               {"q": "parse", "combos": [["b", [1, 2, 3, 9]], ["a", ["p", "q"]]], "cases": None, "with_ds": True, "method": m},
               {"q": "parse", "combos": [["a", ["q", "zz", "p"]]], "cases": [[["b", 2]], [["b", 9]], [["b", 1]]],
                "with_ds": True, "method": m},
               {"q": "icm", "setting": [["b", 1], ["a", "q"]], "method": m, "da": None},
               {"q": "icm", "setting": [["b", 1]], "method": m, "da": "y"},
               {"q": "loop", "ignore": ["t"], "method": m}]
    return [{"desc": desc, "queries": qs}]


def wiring_diff():
    """What the translator read from the source vs what the model assumes (evaluated in Coq)."""
    try:
        return core.eval_model("Prelude Grid DsMap Missing GenMissing", ["enc_wiring gen_wiring", "enc_wiring model_wiring"])
    except RuntimeError as e:
        return ["(evaluation failed) " + str(e)[-300:]]


def run(tier, seed):
    c = core.Check("C13", tier, seed)
    gen = core.regen()
    b = core.build(PROP_FILE)
    g = gen.get("GenMissing", {"ok": False, "detail": "unit GenMissing is not registered"})
    c.cov["translator"] = g
    c.cov["build"] = {"ok": b["ok"], "failed_file": b["failed_file"], "wall_s": round(b.get("wall_s", 0), 1)}
    if not g["ok"]:
        c.obligation_broken("translator GenMissing", g["detail"])
    if not b["ok"]:
        c.obligation_broken(f"Coq build of {b['failed_file']}", b["log_tail"][-1200:])
        if g["ok"]:
            c.cov["gen_vs_model_wiring"] = wiring_diff()
    if b["ok"] and tier == "thorough":
        # independent re-check of the compiled closure of Props/C13.vo
        import fcntl
        with open(core.LOCK, "w") as lk:
            fcntl.flock(lk, fcntl.LOCK_EX)
            rc, out = core.sh("timeout 600 coqchk -silent -o -R . XV XV.Props.C13", timeout=630, cwd=core.COQ)
        tail = [ln.strip() for ln in out.splitlines() if "relying on" in ln or "assumed" in ln or "Axioms" in ln]
        c.cov["coqchk"] = {"cmd": "coqchk -silent -o -R . XV XV.Props.C13", "ok": rc == 0, "summary": tail}
        if rc != 0:
            c.obligation_broken("coqchk of Props/C13.vo", out[-800:])
    # a broken obligation widens the search to the thorough stream
    n = 2200 if tier == "thorough" else 600 if c.broken else 330
    tmp = core.scratch_dir("xv-c13-")
    try:
        cases = directed_cases() + [gen_case(c.rng) for _ in range(n)]
        nbad = run_stream(c, cases, tmp)
        c.cov["disagreements_checked"] = nbad
        c.cov["datasets"] = len(cases)
    finally:
        shutil.rmtree(tmp, ignore_errors=True)
    c.notes.append("outside the quantifier (not generated): zero-length dimensions, datasets without variables, duplicate "
                   "coordinate labels, method='isfinite' on object data (numpy raises TypeError), positions beyond the "
                   "size of a coordinate-less dimension (xarray raises IndexError, not KeyError)")
    c.notes.append("the loop uses overwrite=True for method='isfinite' (an all-inf location conflicts with new data under "
                   "the default no_conflicts merge) and float variables only (None cannot be stored by h5netcdf)")
    c.assumptions = ["coordinate labels of a dimension are duplicate-free and mutually comparable",
                     "every parameter dimension has a coordinate; at least one variable has no zero-length dimension",
                     "the harvested function returns non-null values for every variable"]
    return c.finish(b, PROP_FILE, TRUSTED, RULE)


def replay(path):
    r = json.load(open(path))
    if "replay" not in r:
        print(json.dumps(r, indent=1)[:3000])
        return 1
    case = r["replay"]["case"]
    tmp = core.scratch_dir("xv-c13-")
    try:
        D, results, fails, stats = run_case(case, tmp)
        print("dataset:", json.dumps(case["desc"])[:2000])
        print("query:", case["queries"])
        print("observed:", [x[1] for x in results if x is not None])
        for i, key, msg in fails:
            print("FAILS:", key, msg)
        return 1 if fails else 0
    finally:
        shutil.rmtree(tmp, ignore_errors=True)
