"""Crash injection for C10: run one crop operation in a process that really dies at a chosen
file-operation boundary.

    python -m harness.fsx.crashrun spec.json      one job in a brand-new interpreter
    python -m harness.fsx.crashrun --serve        fork server: one JSON spec per stdin line, every job
                                                  runs in a freshly forked child of a process that has
                                                  only imported the libraries (never touched a crop)

The interposers are installed before xyzpy is used (in the one-shot form: before it is even
imported).  Counted events (= crash points) on paths under the watched root:
    open (for writing: create/truncate), write (each call), close, rename (os.replace / os.rename),
    unlink (os.remove / os.unlink, also the dir_fd form of shutil.rmtree), rmdir, mkdir,
    extsave (an opaque library write of a data file, e.g. HDF5 through h5py)
At the K-th counted event the process calls os._exit(137) BEFORE performing it; for a write it can
first put a strict prefix of the bytes straight onto the file descriptor (a torn write).  No Python
clean-up runs (no except / finally / with-exit / atexit / buffer flush): for the file system this is
SIGKILL at that boundary.  Reads are logged but not counted.  With "perm_seed" os.scandir returns
the entries of watched directories in a seeded random order (the deletion order of shutil.rmtree and
the order of glob results are arbitrary in reality)."""
import builtins
import io
import json
import os
import random
import sys
import traceback

_REAL = {"open": builtins.open, "replace": os.replace, "rename": os.rename, "remove": os.remove,
         "unlink": os.unlink, "rmdir": os.rmdir, "mkdir": os.mkdir, "scandir": os.scandir}


class WFile:
    """A file opened for writing under the watched root: write and close are crash points."""

    def __init__(self, ip, f, rel):
        object.__setattr__(self, "_ip", ip)
        object.__setattr__(self, "_f", f)
        object.__setattr__(self, "_rel", rel)
        object.__setattr__(self, "_closed", False)

    def write(self, data):
        ip = self._ip
        n = len(data) if not isinstance(data, memoryview) else data.nbytes
        if ip.hit("write", self._rel, nbytes=n):
            if ip.torn and n > 1:
                raw = bytes(data) if not isinstance(data, str) else data.encode()
                k = {"1": 1, "half": max(1, n // 2), "len-1": n - 1}[ip.torn]
                try:
                    self._f.flush()
                    os.write(self._f.fileno(), raw[:k])
                except Exception:
                    pass
                ip.die("write", self._rel, nbytes=n, torn=k)
            ip.die("write", self._rel, nbytes=n)
        return self._f.write(data)

    def close(self):
        if not self._closed:
            object.__setattr__(self, "_closed", True)
            if self._ip.hit("close", self._rel):
                self._ip.die("close", self._rel)
        return self._f.close()

    def __enter__(self):
        return self

    def __exit__(self, *exc):
        self.close()
        return False

    def __iter__(self):
        return iter(self._f)

    def __getattr__(self, name):
        return getattr(self._f, name)

    def __setattr__(self, name, value):
        setattr(self._f, name, value)


class _Scan:
    def __init__(self, entries):
        self._l = entries

    def __iter__(self):
        return iter(self._l)

    def __next__(self):
        raise StopIteration

    def __enter__(self):
        return self

    def __exit__(self, *exc):
        return False

    def close(self):
        pass


class Interposer:
    def __init__(self, root, out, crash_at=None, torn=None, perm_seed=None):
        self.root = os.path.abspath(os.path.realpath(root))
        self.out = out
        self.crash_at, self.torn, self.perm_seed = crash_at, torn, perm_seed
        self.armed = False
        self.events = []
        self.n = 0

    # ---------------------------------------------------------------- bookkeeping
    def rel(self, path, dir_fd=None):
        if isinstance(path, int):
            return None
        try:
            p = os.fspath(path)
        except TypeError:
            return None
        if isinstance(p, bytes):
            p = p.decode(errors="replace")
        if dir_fd is not None:
            try:
                p = os.path.join(os.readlink(f"/proc/self/fd/{dir_fd}"), p)
            except OSError:
                return None
        p = os.path.abspath(p)
        if p == self.root:
            return "."
        if p.startswith(self.root + os.sep):
            return p[len(self.root) + 1:]
        return None

    def note(self, kind, rel, **extra):
        if self.armed:
            self.events.append({"k": kind, "p": rel, **extra})

    def hit(self, kind, rel, **extra):
        """Record a counted event; True = this is the crash point (the caller must call die)."""
        if not self.armed:
            return False
        if self.crash_at is not None and self.n == self.crash_at:
            return True
        self.events.append({"i": self.n, "k": kind, "p": rel, **extra})
        self.n += 1
        return False

    def dump(self, **more):
        self.armed = False
        d = {"events": self.events, "n": self.n}
        d.update(more)
        tmp = self.out + ".part"
        with _REAL["open"](tmp, "w") as f:
            json.dump(d, f, default=str)
        _REAL["replace"](tmp, self.out)

    def die(self, kind, rel, **extra):
        self.dump(crashed={"i": self.n, "k": kind, "p": rel, **extra}, completed=False)
        os._exit(137)

    # ---------------------------------------------------------------- the interposers
    def install(self):
        ip = self
        real = _REAL

        def _open(file, mode="r", *a, **kw):
            r = ip.rel(file) if ip.armed else None
            if r is None:
                return real["open"](file, mode, *a, **kw)
            if not any(c in mode for c in "wax+"):
                ip.note("read", r)
                return real["open"](file, mode, *a, **kw)
            if ip.hit("open", r, mode=mode):
                ip.die("open", r, mode=mode)
            return WFile(ip, real["open"](file, mode, *a, **kw), r)

        def _replace(src, dst, *, src_dir_fd=None, dst_dir_fd=None):
            r = (ip.rel(src, src_dir_fd), ip.rel(dst, dst_dir_fd)) if ip.armed else (None, None)
            if r[0] is not None or r[1] is not None:
                if ip.hit("rename", r[1], src=r[0]):
                    ip.die("rename", r[1], src=r[0])
            return real["replace"](src, dst, src_dir_fd=src_dir_fd, dst_dir_fd=dst_dir_fd)

        def _rename(src, dst, *, src_dir_fd=None, dst_dir_fd=None):
            r = (ip.rel(src, src_dir_fd), ip.rel(dst, dst_dir_fd)) if ip.armed else (None, None)
            if r[0] is not None or r[1] is not None:
                if ip.hit("rename", r[1], src=r[0]):
                    ip.die("rename", r[1], src=r[0])
            return real["rename"](src, dst, src_dir_fd=src_dir_fd, dst_dir_fd=dst_dir_fd)

        def _unlink(path, *, dir_fd=None):
            r = ip.rel(path, dir_fd) if ip.armed else None
            if r is not None and ip.hit("unlink", r):
                ip.die("unlink", r)
            return real["unlink"](path, dir_fd=dir_fd)

        def _rmdir(path, *, dir_fd=None):
            r = ip.rel(path, dir_fd) if ip.armed else None
            if r is not None and ip.hit("rmdir", r):
                ip.die("rmdir", r)
            return real["rmdir"](path, dir_fd=dir_fd)

        def _mkdir(path, mode=0o777, *, dir_fd=None):
            r = ip.rel(path, dir_fd) if ip.armed else None
            if r is not None and ip.hit("mkdir", r):
                ip.die("mkdir", r)
            return real["mkdir"](path, mode, dir_fd=dir_fd)

        def _scandir(path="."):
            it = real["scandir"](path)
            if not ip.armed or ip.perm_seed is None:
                return it
            if isinstance(path, int):
                try:
                    where = os.readlink(f"/proc/self/fd/{path}")
                except OSError:
                    return it
            else:
                where = path
            r = ip.rel(where)
            if r is None:
                return it
            entries = sorted(it, key=lambda e: e.name)
            try:
                it.close()
            except Exception:
                pass
            random.Random(f"{ip.perm_seed}:{r}").shuffle(entries)
            return _Scan(entries)

        builtins.open = _open
        io.open = _open
        os.replace, os.rename = _replace, _rename
        os.remove = os.unlink = _unlink
        os.rmdir, os.mkdir = _rmdir, _mkdir
        os.scandir = _scandir
        # they must pass for the originals where a library asks what the platform supports
        for s in (os.supports_dir_fd, os.supports_fd, os.supports_follow_symlinks):
            for name, fnew in (("unlink", _unlink), ("rmdir", _rmdir), ("mkdir", _mkdir), ("scandir", _scandir),
                               ("rename", _rename), ("replace", _replace)):
                if real[name] in s:
                    s.add(fnew)

    def wrap_opaque_saves(self):
        """Library writers that bypass Python file objects (HDF5): one counted event before them."""
        ip = self
        try:
            import xyzpy.gen.farming as F
        except Exception:
            return
        real_save = F.save_ds

        def save_ds(ds, file_name, engine="h5netcdf", **kw):
            if engine not in ("joblib",):
                r = ip.rel(file_name) if ip.armed else None
                if r is not None and ip.hit("extsave", r):
                    ip.die("extsave", r)
            return real_save(ds, file_name, engine=engine, **kw)
        F.save_ds = save_ds


def run_job(spec):
    ip = Interposer(spec["watch"], spec["out"], spec.get("crash_at"), spec.get("torn"), spec.get("perm_seed"))
    ip.install()
    try:
        from harness.fsx import crashops
        ip.wrap_opaque_saves()
        if spec.get("wait_stdin"):
            # strace path: tell the parent we are ready (imports done), wait until it has attached
            sys.stdout.write(f"ready {os.getpid()}\n")
            sys.stdout.flush()
            sys.stdin.readline()
        res = crashops.run(spec, ip)
        ip.dump(completed=True, result=res)
    except BaseException as e:  # noqa
        ip.dump(completed=False, harness_error=f"{type(e).__name__}: {e}", trace=traceback.format_exc()[-3000:])
        raise


def serve():
    import warnings
    warnings.simplefilter("ignore")
    from harness.fsx import crashops
    crashops.preload()
    out = sys.stdout
    for line in sys.stdin:
        line = line.strip()
        if not line:
            continue
        spec = json.loads(line)
        pid = os.fork()
        if pid == 0:
            code = 0
            try:
                fd = os.open(os.devnull, os.O_RDONLY)
                os.dup2(fd, 0)
                run_job(spec)
            except BaseException:  # noqa
                code = 3
            os._exit(code)
        _, status = os.waitpid(pid, 0)
        out.write(json.dumps({"id": spec.get("id"), "status": os.waitstatus_to_exitcode(status)}) + "\n")
        out.flush()


def main():
    if len(sys.argv) == 2 and sys.argv[1] == "--serve":
        serve()
        return 0
    spec = json.load(open(sys.argv[1]))
    try:
        run_job(spec)
    except BaseException:  # noqa
        return 3
    return 0


if __name__ == "__main__":
    sys.exit(main())
