"""Deterministic scheduler for the REAL crop code (C11).

Every actor (a grower, the waiting reaper, the progress poller) runs the real xyzpy code in its
own daemon thread.  The names `open`, `os`, `glob`, `time` and `pickle` *as seen by the module
xyzpy.gen.cropping* are replaced (and restored afterwards) by thin proxies, so that every
operation that touches the shared `results/` directory of the crop is a SCHEDULING POINT: the
thread announces the operation and blocks until the scheduler grants it, performs it, and runs
on to its next scheduling point (or its end) while the scheduler waits.  Exactly one thread runs
at any time.  Operations on any other file run through untouched.

Visible operations (`kind`):
  create   open(path, 'wb')                       (O_CREAT|O_TRUNC)
  write1   first chunk of a write reaches the file (flushed: the file is torn)
  write2   last chunk of a write reaches the file  (flushed)
  close    the writer closes the file
  rename   os.replace(src, dst)
  remove   os.remove / os.unlink
  exists   os.path.exists(path)         isfile   os.path.isfile(path)
  open     open(path, 'rb')             read     first read of that file (reads its own inode)
  list     glob.glob(pattern)
`pickle.dump(obj, file)` onto an interposed writer becomes one `write` of `pickle.dumps(obj)`,
which the writer splits into two chunks.  `time.sleep` in an actor thread returns at once (the
next poll is a scheduling point anyway).

A schedule is the list of actor numbers granted, one per visible operation.
"""
import builtins
import fnmatch
import glob as _glob
import io
import os
import pickle as _pickle
import re
import threading
import time as _time

KINDS = ["create", "write1", "write2", "close", "rename", "exists", "isfile", "open", "read", "list", "remove"]
KIND_CODE = {k: i for i, k in enumerate(KINDS)}
RESULT_RE = re.compile(r"^xyz-result-(\d+)\.jbdmp$")
ANY_RE = re.compile(r"xyz-result-(\d+)")


class SchedAbort(BaseException):
    """Raised inside an actor thread to make it unwind when a run is abandoned."""


def role_of(path):
    """('res', i) for a result name, ('tmp', i) for any other file of the results directory."""
    b = os.path.basename(path)
    m = RESULT_RE.match(b)
    if m:
        return ("res", int(m.group(1)))
    m = ANY_RE.search(b)
    return ("tmp", int(m.group(1)) if m else 0)


class Op:
    __slots__ = ("kind", "paths", "pattern", "blocked")

    def __init__(self, kind, paths=(), pattern=None):
        self.kind, self.paths, self.pattern, self.blocked = kind, tuple(paths), pattern, False

    def sig(self):
        return (self.kind, tuple(role_of(p) for p in self.paths))

    def describe(self):
        if self.kind == "list":
            return "list(" + os.path.basename(self.pattern or "") + ")"
        return self.kind + "(" + ", ".join(os.path.basename(p) for p in self.paths) + ")"


def dependent(a, b):
    """May the two pending operations (of different actors) not commute?  Computed from the real
    paths: they touch a common name and one of them changes it; a listing depends on every change
    of a name that matches its pattern."""
    def fp(o):
        if o.kind in ("create", "write1", "write2", "close", "remove", "rename"):
            return set(o.paths), set()
        if o.kind == "list":
            return set(), set()
        return set(), set(o.paths)
    wa, ra = fp(a)
    wb, rb = fp(b)
    if wa & (wb | rb) or wb & ra:
        return True
    for l, w in ((a, wb), (b, wa)):
        if l.kind == "list" and l.pattern is not None:
            pat = os.path.basename(l.pattern)
            if any(fnmatch.fnmatchcase(os.path.basename(p), pat) for p in w):
                return True
    return False


class Event:
    __slots__ = ("actor", "kind", "paths", "result", "raw")

    def __init__(self, actor, kind, paths, result, raw=None):
        self.actor, self.kind, self.paths, self.result, self.raw = actor, kind, tuple(paths), result, raw

    def canon(self):
        """[actor, kind code, role (0 result / 1 temporary / 2 directory), batch, result]"""
        if self.kind == "list":
            role, b = 2, 0
        else:
            r, b = role_of(self.paths[-1] if self.kind == "rename" else self.paths[0])
            role = 0 if r == "res" else 1
        return [self.actor, KIND_CODE[self.kind], role, b, int(self.result)]

    def describe(self):
        nm = ", ".join(os.path.basename(p) for p in self.paths)
        return f"{self.actor}:{self.kind}({nm})={self.result}"


class Actor:
    def __init__(self, idx, name, fn):
        self.idx, self.name, self.fn = idx, name, fn
        self.pending = None
        self.finished = False
        self.outcome = "running"      # running | done | exception | aborted | hang
        self.result = None
        self.exc = None
        self.thread = None


class _Proxy:
    """Module stand-in: everything is delegated except the overridden names."""

    def __init__(self, real, **over):
        self.__dict__["_real"] = real
        self.__dict__.update(over)

    def __getattr__(self, n):
        return getattr(self._real, n)


class SchedWriter:
    """A buffered binary writer as Python's is: the first half of the data reaches the file at once, the rest
    stays in the user-space buffer until flush() / close() (a BufferedWriter keeps anything below its buffer size
    until then).  The name the operations are attributed to follows a rename of the open file."""

    def __init__(self, ip, real, path):
        self._ip, self._real, self._path, self._closed = ip, real, path, False
        self._pending = b""
        ip.open_writers.append(self)

    def write(self, data):
        data = bytes(data)
        h = len(data) // 2
        self._ip.point("write1", (self._path,))
        self._real.write(self._pending + data[:h])
        self._pending = b""
        self._real.flush()
        self._ip.record("write1", (self._path,), 0)
        self._ip.point("write2", (self._path,))
        self._pending = data[h:]
        self._ip.record("write2", (self._path,), 0)
        return len(data)

    def flush(self):
        self._real.write(self._pending)
        self._pending = b""
        self._real.flush()

    def close(self):
        if self._closed:
            return
        self._closed = True
        try:
            self._ip.point("close", (self._path,))
        finally:
            try:
                self._real.write(self._pending)
                self._pending = b""
            finally:
                self._real.close()
                if self in self._ip.open_writers:
                    self._ip.open_writers.remove(self)
        self._ip.record("close", (self._path,), 0)

    def __enter__(self):
        return self

    def __exit__(self, *a):
        self.close()
        return False

    def __getattr__(self, n):
        return getattr(self._real, n)


class SchedReader:
    """The first read is the scheduling point; it reads the whole (already opened) file."""

    def __init__(self, ip, real, path):
        self._ip, self._real, self._path, self._buf = ip, real, path, None

    def _fill(self):
        if self._buf is None:
            self._ip.point("read", (self._path,))
            data = self._real.read()
            try:
                _pickle.loads(data)
                whole = 1
            except Exception:  # noqa
                whole = 0
            self._buf = io.BytesIO(data)
            self._ip.record("read", (self._path,), whole, raw=data)
        return self._buf

    def read(self, *a):
        return self._fill().read(*a)

    def readline(self, *a):
        return self._fill().readline(*a)

    def readinto(self, b):
        return self._fill().readinto(b)

    def close(self):
        self._real.close()

    def __enter__(self):
        return self

    def __exit__(self, *a):
        self.close()
        return False


class Interposer:
    """Installs / removes the proxies on xyzpy.gen.cropping.  `active` is the scheduler whose
    actor threads are being controlled (None: everything runs through)."""
    NAMES = ("open", "os", "glob", "time", "pickle")

    def __init__(self):
        import xyzpy.gen.cropping as M
        self.M = M
        self.active = None
        self.saved = None
        self.open_writers = []

    # ---- which calls are scheduling points
    def _sched(self, *paths):
        s = self.active
        if s is None or s.aborting:
            return None
        a = getattr(threading.current_thread(), "_xv_actor", None)
        if a is None or a.sched is not s:
            return None
        for p in paths:
            try:
                if os.path.dirname(os.path.abspath(os.fspath(p))) == s.results_dir:
                    return s
            except TypeError:
                pass
        return None

    def point(self, kind, paths, pattern=None):
        s = self.active
        if s is not None:
            s.point(Op(kind, paths, pattern))

    def record(self, kind, paths, result, raw=None):
        s = self.active
        if s is not None:
            s.record(kind, paths, result, raw)

    # ---- the replacements
    def x_open(self, path, mode="r", *a, **k):
        s = self._sched(path) if isinstance(path, (str, bytes, os.PathLike)) else None
        if s is None:
            return builtins.open(path, mode, *a, **k)
        path = os.path.abspath(os.fspath(path))
        if any(c in mode for c in "wax+"):
            s.point(Op("create", (path,)))
            try:
                real = builtins.open(path, mode, *a, **k)
            except BaseException:
                s.record("create", (path,), 1)
                raise
            s.record("create", (path,), 0)
            return SchedWriter(self, real, path)
        s.point(Op("open", (path,)))
        try:
            real = builtins.open(path, mode, *a, **k)
        except BaseException:
            s.record("open", (path,), 0)
            raise
        s.record("open", (path,), 1)
        return SchedReader(self, real, path)

    def x_replace(self, src, dst, **k):
        s = self._sched(src, dst)
        if s is None:
            return os.replace(src, dst, **k)
        src, dst = os.path.abspath(os.fspath(src)), os.path.abspath(os.fspath(dst))
        s.point(Op("rename", (src, dst)))
        try:
            os.replace(src, dst, **k)
        except BaseException:
            s.record("rename", (src, dst), 1)
            raise
        for w in list(self.open_writers):          # a file renamed while still open keeps being written to
            if w._path == src:
                w._path = dst
        s.record("rename", (src, dst), 0)

    def x_remove(self, path, **k):
        s = self._sched(path)
        if s is None:
            return os.remove(path, **k)
        path = os.path.abspath(os.fspath(path))
        s.point(Op("remove", (path,)))
        try:
            os.remove(path, **k)
        except BaseException:
            s.record("remove", (path,), 1)
            raise
        s.record("remove", (path,), 0)

    def _stat(self, kind, real):
        def f(path):
            s = self._sched(path)
            if s is None:
                return real(path)
            p = os.path.abspath(os.fspath(path))
            s.point(Op(kind, (p,)))
            r = real(path)
            s.record(kind, (p,), 1 if r else 0)
            return r
        return f

    def x_glob(self, pattern, *a, **k):
        s = self._sched(pattern) if isinstance(pattern, (str, os.PathLike)) else None
        if s is None:
            return _glob.glob(pattern, *a, **k)
        s.point(Op("list", (), pattern=os.path.abspath(os.fspath(pattern))))
        names = _glob.glob(pattern, *a, **k)
        s.record("list", (), len(names), raw=list(names))
        return names

    def x_listdir(self, path="."):
        """os.listdir of the results directory: a listing of every name in it."""
        try:
            d = os.path.abspath(os.fspath(path))
        except TypeError:
            return os.listdir(path)
        s = self.active
        a = getattr(threading.current_thread(), "_xv_actor", None)
        if s is None or s.aborting or a is None or a.sched is not s or d != s.results_dir:
            return os.listdir(path)
        s.point(Op("list", (), pattern=os.path.join(d, "*")))
        names = os.listdir(path)
        s.record("list", (), len(names), raw=[os.path.join(d, n) for n in names])
        return names

    def x_sleep(self, t):
        if getattr(threading.current_thread(), "_xv_actor", None) is not None:
            return None
        return _time.sleep(t)

    def x_dump(self, obj, file, *a, **k):
        if isinstance(file, SchedWriter):
            file.write(_pickle.dumps(obj, *a, **k))
            return None
        return _pickle.dump(obj, file, *a, **k)

    def install(self):
        M = self.M
        self.saved = {n: (hasattr(M, n) and n in M.__dict__, M.__dict__.get(n)) for n in self.NAMES}
        path_proxy = _Proxy(os.path, exists=self._stat("exists", os.path.exists),
                            isfile=self._stat("isfile", os.path.isfile))
        M.open = self.x_open
        M.os = _Proxy(os, replace=self.x_replace, rename=self.x_replace, remove=self.x_remove,
                      unlink=self.x_remove, path=path_proxy, listdir=self.x_listdir)
        M.glob = _Proxy(_glob, glob=self.x_glob)
        M.time = _Proxy(_time, sleep=self.x_sleep)
        M.pickle = _Proxy(_pickle, dump=self.x_dump)

    def uninstall(self):
        if self.saved is None:
            return
        for n, (had, v) in self.saved.items():
            if had:
                setattr(self.M, n, v)
            elif n in self.M.__dict__:
                delattr(self.M, n)
        self.saved = None
        self.active = None

    def __enter__(self):
        self.install()
        return self

    def __exit__(self, *a):
        self.uninstall()
        return False


class Scheduler:
    """One controlled execution.  actors: list of (name, callable).  `chooser(step, pending, self)`
    returns the number of the actor to grant next (it must be a key of `pending`) or None to stop.
    `on_event(event, self)` is called in the granted thread right after each operation (still
    exclusive), for ghost state / oracles."""

    def __init__(self, ip, results_dir, actors, on_event=None, step_timeout=20.0):
        self.ip = ip
        self.results_dir = os.path.abspath(results_dir)
        self.actors = [Actor(i, n, f) for i, (n, f) in enumerate(actors)]
        for a in self.actors:
            a.sched = self
        self.cv = threading.Condition()
        self.running = None
        self.aborting = False
        self.trace = []
        self.schedule = []
        self.on_event = on_event
        self.step_timeout = step_timeout
        self.status = "complete"      # complete | stopped | deadlock | timeout
        self.hook_errors = []
        self.probed = {}              # actor -> operation it was granted although it looked blocked
        self.forced = 0               # number of such probe steps (not chosen by the chooser)
        self.deadlocked = []          # actors still waiting when the run ended in a deadlock
        self.finished_before_abort = []

    # ---- called from actor threads
    def point(self, op):
        a = threading.current_thread()._xv_actor
        with self.cv:
            if self.aborting:
                raise SchedAbort()
            a.pending = op
            self.running = None
            self.cv.notify_all()
            while self.running != a.idx and not self.aborting:
                self.cv.wait()
            if self.aborting:
                raise SchedAbort()
            a.pending = None

    def record(self, kind, paths, result, raw=None):
        a = getattr(threading.current_thread(), "_xv_actor", None)
        if a is None or self.aborting:
            return
        ev = Event(a.idx, kind, paths, result, raw)
        self.trace.append(ev)
        if self.on_event is not None:
            try:
                self.on_event(ev, self)
            except Exception as e:  # noqa  (a bug in the oracle must not wedge the run)
                self.hook_errors.append(f"{type(e).__name__}: {e}")

    def _body(self, a):
        try:
            with self.cv:
                while self.running != a.idx and not self.aborting:
                    self.cv.wait()
                if self.aborting:
                    raise SchedAbort()
            a.result = a.fn()
            a.outcome = "done"
        except SchedAbort:
            a.outcome = "aborted"
        except BaseException as e:  # noqa
            a.outcome = "exception"
            a.exc = e
        finally:
            with self.cv:
                a.finished = True
                a.pending = None
                if self.running == a.idx:
                    self.running = None
                self.cv.notify_all()

    # ---- called from the controlling thread
    def _grant(self, a):
        """Let actor a run until its next scheduling point or its end."""
        with self.cv:
            self.running = a.idx
            self.cv.notify_all()
            t_end = _time.time() + self.step_timeout
            while self.running is not None:
                left = t_end - _time.time()
                if left <= 0:
                    return False
                self.cv.wait(left)
        return True

    def pending(self):
        out = {}
        for a in self.actors:
            if not a.finished and a.pending is not None:
                op = a.pending
                op.blocked = op.kind == "exists" and not os.path.exists(op.paths[0])
                out[a.idx] = op
        return out

    def run(self, chooser, max_steps=400):
        self.ip.active = self
        try:
            for a in self.actors:
                a.thread = threading.Thread(target=self._body, args=(a,), daemon=True, name=f"xv-{a.name}")
                a.thread._xv_actor = a
                a.thread.start()
            ok = True
            for a in self.actors:                 # private preludes, one at a time
                ok = self._grant(a)
                if not ok:
                    a.outcome = "hang"
                    break
            step = 0
            while ok:
                pend = self.pending()
                if not pend:
                    break
                if step >= max_steps:
                    self.status = "stopped"
                    break
                k = chooser(step, pend, self)
                if k is None:
                    if not all(o.blocked for o in pend.values()):
                        self.status = "stopped"
                        break
                    # Everybody left looks blocked (an exists() on a missing file).  Whether that is
                    # a wait loop is not known yet: grant each such operation once; an actor that
                    # comes back with the same poll is waiting, anything else goes on.
                    for kk in sorted(pend):
                        what = (pend[kk].kind, pend[kk].paths)
                        if self.probed.get(kk) != what:
                            self.probed[kk] = what
                            k = kk
                            break
                    if k is None:
                        self.status = "deadlock"
                        self.deadlocked = sorted(pend)
                        break
                    self.forced += 1
                self.schedule.append(k)
                step += 1
                ok = self._grant(self.actors[k])
                if not ok:
                    self.actors[k].outcome = "hang"
            if not ok:
                self.status = "timeout"
        finally:
            self.finished_before_abort = [a.finished for a in self.actors]
            with self.cv:
                self.aborting = True
                self.cv.notify_all()
            for a in self.actors:
                if a.thread is not None:
                    a.thread.join(2.0 if self.status != "timeout" else 0.2)
                    if a.thread.is_alive() and a.outcome == "running":
                        a.outcome = "hang"
            self.ip.active = None
        return self


# ---------------------------------------------------------------------------- choosers
def default_pick(pend):
    """lowest-numbered actor that is not blocked in its wait loop"""
    for k in sorted(pend):
        if not pend[k].blocked:
            return k
    return None


def prefix_chooser(prefix):
    """Follow `prefix` (entries whose actor is finished or blocked are skipped), then the default
    order."""
    pos = [0]

    def choose(step, pend, sched):
        while pos[0] < len(prefix):
            k = prefix[pos[0]]
            pos[0] += 1
            if k in pend and not pend[k].blocked:
                return k
        return default_pick(pend)
    return choose


def exact_chooser(schedule):
    """Replay a recorded schedule exactly (stop when it ends or cannot be followed)."""
    def choose(step, pend, sched):
        if step < len(schedule) and schedule[step] in pend:
            return schedule[step]
        return None
    return choose


def random_chooser(rng, poll_budget=6, pct_depth=None, n_actors=0, horizon=60):
    """Uniformly random among the pending actors (a blocked poll may be granted a few times), or --
    with pct_depth -- priority based with `pct_depth` random priority change points."""
    polls = [poll_budget]
    prio = list(range(n_actors))
    rng.shuffle(prio)
    change = sorted(rng.randrange(horizon) for _ in range(pct_depth or 0))

    def choose(step, pend, sched):
        free = [k for k in sorted(pend) if not pend[k].blocked]
        blocked = [k for k in sorted(pend) if pend[k].blocked]
        if not free:
            return None                      # only actors stuck in their wait loop are left
        if blocked and polls[0] > 0 and rng.random() < 0.12:
            polls[0] -= 1                    # a poll that finds nothing (the loop sleeps and polls again)
            return rng.choice(blocked)
        if pct_depth is None:
            return rng.choice(free)
        k = max(free, key=lambda a: prio[a] if a < len(prio) else -1)
        while change and change[0] <= step:
            change.pop(0)
            if k < len(prio):
                prio[k] = min(prio) - 1
        return k
    return choose


class DFS:
    """Stateless depth-first exploration with sleep sets (one execution per maximal schedule).
    `execute(chooser)` must run one controlled execution from the initial state and return the
    Scheduler.  Operations of different actors that are not `dependent` commute; a schedule that
    differs from an explored one only by commuting such neighbours is not run again."""

    def __init__(self, execute, order=None):
        self.execute = execute
        self.stack = []           # frames: dict(pend, sigs, enabled, sleep, done, chosen)
        self.order = order or (lambda ks: sorted(ks))
        self.leaves = 0
        self.nodes = 0            # distinct schedule prefixes at which a choice was recorded
        self.pruned = 0
        self.nondeterminism = 0
        self.exhausted = False

    def _chooser(self):
        stack = self.stack

        def choose(step, pend, sched):
            sigs = {k: o.sig() for k, o in pend.items()}
            if sched.forced:
                return default_pick(pend)      # past a probe step: finish the run, no new branches
            if step < len(stack):
                fr = stack[step]
                if fr["sigs"] != sigs:
                    self.nondeterminism += 1
                    return None
                return fr["chosen"]
            if stack:
                par = stack[-1]
                c = par["chosen"]
                sleep = {b for b in (par["sleep"] | par["done"]) if b in pend and b != c
                         and b in par["pend"] and not dependent(par["pend"][b], par["pend"][c])}
            else:
                sleep = set()
            enabled = [k for k in self.order(pend) if not pend[k].blocked]
            cand = [k for k in enabled if k not in sleep]
            if not cand:
                if enabled:
                    self.pruned_run = True
                return None
            self.nodes += 1
            stack.append({"pend": dict(pend), "sigs": sigs, "enabled": enabled, "sleep": sleep,
                          "done": set(), "chosen": cand[0]})
            return cand[0]
        return choose

    def next_run(self):
        """Run the next unexplored schedule; returns (Scheduler, pruned: bool) or None when the
        space is exhausted."""
        if self.exhausted:
            return None
        self.pruned_run = False
        s = self.execute(self._chooser())
        if self.pruned_run:
            self.pruned += 1
        else:
            self.leaves += 1
        # a run may stop early (timeout / step bound): drop frames beyond what was executed
        del self.stack[len(s.schedule):]
        # backtrack
        while self.stack:
            fr = self.stack[-1]
            fr["done"].add(fr["chosen"])
            cand = [k for k in fr["enabled"] if k not in fr["sleep"] and k not in fr["done"]]
            if cand:
                fr["chosen"] = cand[0]
                break
            self.stack.pop()
        if not self.stack:
            self.exhausted = True
        return s, self.pruned_run
