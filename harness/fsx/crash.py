"""Parent side of the C10 crash enumeration: fork servers, scenarios (with the expected data computed
independently of xyzpy), enumeration of crash points, translation of event logs to model steps."""
import json
import math
import os
import queue
import re
import shutil
import subprocess
import sys
import threading
import time

VERIF = os.path.dirname(os.path.dirname(os.path.dirname(os.path.abspath(__file__))))
PY = sys.executable
F_COQ = "(fun c => 7 * c + 3)"


def child_env():
    env = dict(os.environ)
    env["PYTHONPATH"] = os.environ.get("PYTHONPATH", "/repo:/verif")
    env.setdefault("PYTHONHASHSEED", "0")
    env["TQDM_DISABLE"] = "1"
    env["OMP_NUM_THREADS"] = env["OPENBLAS_NUM_THREADS"] = env["MKL_NUM_THREADS"] = "1"
    env["PYTHONWARNINGS"] = "ignore"
    return env


def code(a, b):
    return 100 * a + b


def value(c):
    return 7 * c + 3


# ------------------------------------------------------------------ fork servers
class Server:
    def __init__(self, logdir, n):
        self.err = open(os.path.join(logdir, f"server-{n}.err"), "w")
        self.p = subprocess.Popen([PY, "-W", "ignore", "-m", "harness.fsx.crashrun", "--serve"],
                                  stdin=subprocess.PIPE, stdout=subprocess.PIPE, stderr=self.err, text=True,
                                  cwd=VERIF, env=child_env())

    def job(self, spec):
        try:
            os.remove(spec["out"])
        except FileNotFoundError:
            pass
        self.p.stdin.write(json.dumps(spec) + "\n")
        self.p.stdin.flush()
        line = self.p.stdout.readline()
        if not line:
            raise RuntimeError("crash server died")
        rep = json.loads(line)
        try:
            with open(spec["out"]) as f:
                out = json.load(f)
        except (FileNotFoundError, json.JSONDecodeError):
            out = {"events": [], "n": 0, "completed": False, "no_output": True}
        out["status"] = rep["status"]
        return out

    def close(self):
        try:
            self.p.stdin.close()
            self.p.wait(timeout=10)
        except Exception:  # noqa
            self.p.kill()
        self.err.close()


class Pool:
    """n fork servers; run(tasks) calls task(server) for every task, n at a time, results in order."""

    def __init__(self, n, logdir):
        self.servers = [Server(logdir, i) for i in range(n)]
        self.errors = []

    def run(self, tasks):
        q = queue.Queue()
        for i, t in enumerate(tasks):
            q.put((i, t))
        res = [None] * len(tasks)
        errs = []

        def worker(srv):
            while True:
                try:
                    i, t = q.get_nowait()
                except queue.Empty:
                    return
                try:
                    res[i] = t(srv)
                except Exception as e:  # noqa
                    import traceback
                    errs.append(f"{type(e).__name__}: {e}\n{traceback.format_exc()[-1500:]}")
                    res[i] = {"harness_error": f"{type(e).__name__}: {e}"}
        ths = [threading.Thread(target=worker, args=(s,)) for s in self.servers]
        for t in ths:
            t.start()
        for t in ths:
            t.join()
        self.errors = errs
        return res

    def close(self):
        for s in self.servers:
            s.close()


def one_shot(spec, spec_path, timeout=180):
    """Run one job in a brand-new interpreter (python -m harness.fsx.crashrun spec.json)."""
    with open(spec_path, "w") as f:
        json.dump(spec, f)
    try:
        os.remove(spec["out"])
    except FileNotFoundError:
        pass
    p = subprocess.run([PY, "-W", "ignore", "-m", "harness.fsx.crashrun", spec_path], cwd=VERIF, env=child_env(),
                       stdout=subprocess.PIPE, stderr=subprocess.PIPE, text=True, timeout=timeout)
    try:
        out = json.load(open(spec["out"]))
    except (FileNotFoundError, json.JSONDecodeError):
        out = {"events": [], "n": 0, "completed": False, "no_output": True, "stderr": p.stderr[-800:]}
    out["status"] = p.returncode
    return out


# ------------------------------------------------------------------ scenarios
class Scenario:
    """One crop: kind of farmer, the sweep split into exactly `nb` batches, what the harvester's file /
    the sampler's table held before.  Everything the oracle needs is computed here, from the definition
    of the sweep, never read back from xyzpy."""

    def __init__(self, kind, nb, rng, engine="joblib"):
        self.kind, self.nb, self.engine = kind, nb, engine
        while True:
            m = rng.choice([1, 2, 2, 3])
            na = rng.randint(max(1, math.ceil(nb / m)), 4 if m > 1 else 6)
            if rng.random() < 0.15 and nb <= 8:
                m, na = 1, nb            # as many batches as settings (where a larger batch count can be asked for)
            n = na * m
            if n < nb or n > 12:
                continue
            if rng.random() < 0.5:
                cands = [bs for bs in range(1, n + 1) if math.ceil(n / bs) == nb]
                if not cands:
                    continue
                self.batchsize, self.num_batches = rng.choice(cands), None
            else:
                self.batchsize, self.num_batches = None, nb
                if n == nb and rng.random() < 0.5:
                    # a batch count asked for that EXCEEDS the number of settings (capped to it when sown); every
                    # recovery re-creates the crop with the same request
                    self.num_batches = nb + rng.randint(1, 2)
            break
        self.A = sorted(rng.sample(range(1, 9), na))
        self.Bv = list(range(m))
        self.seed = rng.randint(1, 10 ** 6)
        self.n = n
        if kind == "Sampler":
            self.settings = self.sample_cases(self.seed, n)
        else:
            self.settings = [(a, b) for a in self.A for b in self.Bv]
        # batch sizes: batchsize given -> full batches then the rest; num_batches given -> divmod, the
        # remainder spread over the first batches
        if self.batchsize is not None:
            sizes = [self.batchsize] * (n // self.batchsize) + ([n % self.batchsize] if n % self.batchsize else [])
        else:
            q, r = divmod(n, nb)
            sizes = [q + (1 if i < r else 0) for i in range(nb)]
        assert len(sizes) == nb and sum(sizes) == n, (sizes, nb, n)
        self.batches, i = [], 0
        for s in sizes:
            self.batches.append([code(a, b) for a, b in self.settings[i:i + s]])
            i += s
        self.direct = [value(code(a, b)) for a, b in self.settings]
        # earlier data
        self.old_op, self.old_data, self.old_rows = None, None, None
        if kind == "Harvester":
            style = rng.choice(["disjoint", "overlap", "none"])
            if style != "none":
                oa = sorted(rng.sample(range(20, 29), 2)) + ([self.A[0]] if style == "overlap" else [])
                ob = self.Bv + ([len(self.Bv)] if rng.random() < 0.5 else [])
                self.old_op = {"name": "harvest_old", "A": sorted(oa), "Bv": ob}
                self.old_data = sorted([code(a, b), value(code(a, b))] for a in oa for b in ob)
        if kind == "Sampler":
            if rng.random() < 0.75:
                no, so = rng.randint(1, 3), rng.randint(1, 10 ** 6)
                self.old_op = {"name": "harvest_old", "seed": so, "n": no}
                self.old_rows = [[code(a, b), value(code(a, b))] for a, b in self.sample_cases(so, no)]

    def sample_cases(self, seed, n):
        """what Sampler.gen_cases_fnargs draws after np.random.seed(seed)"""
        import numpy as np
        st = np.random.get_state()
        try:
            np.random.seed(seed)
            return [tuple(int(np.random.choice(v)) for v in (self.A, self.Bv)) for _ in range(n)]
        finally:
            np.random.set_state(st)

    def spec(self):
        return {"kind": self.kind, "engine": self.engine, "A": self.A, "Bv": self.Bv, "batchsize": self.batchsize,
                "num_batches": self.num_batches, "seed": self.seed, "n": self.n}

    def describe(self):
        d = self.spec()
        d.update(batches=self.batches, old_data=self.old_data, old_rows=self.old_rows)
        return d

    # ---- expected sink contents
    def new_entries(self):
        return [[c, value(c)] for c in (code(a, b) for a, b in self.settings)]

    def expected_data(self):
        d = {c: v for c, v in (self.old_data or [])}
        for c, v in self.new_entries():
            d[c] = v
        return sorted([c, v] for c, v in d.items())

    def expected_table(self, times=1):
        return (self.old_rows or []) + self.new_entries() * times

    # ---- Coq
    def coq_sweep(self):
        return "[" + "; ".join("[" + "; ".join(str(c) for c in b) + "]" for b in self.batches) + "]"

    def coq_kind(self):
        return {"none": "KRaw", "Runner": "KRunner", "Harvester": "KHarvester", "Sampler": "KSampler"}[self.kind]

    @staticmethod
    def coq_pdata(rows):
        if rows is None:
            return "None"
        return "(Some [" + "; ".join(f"({c}, {v})" for c, v in rows) + "])"

    def coq_base(self):
        return f"(base_state {self.coq_pdata(self.old_data)} {self.coq_pdata(self.old_rows)})"


# ------------------------------------------------------------------ events -> model steps
_CROP = "parent/.xyz-c/"
_PATS = [
    (re.compile(r"^xyz-settings\.jbdmp(\.tmp-.*)?$"), "BInfo"),
    (re.compile(r"^xyz-function\.clpkl(\.tmp-.*)?$"), "BFn"),
    (re.compile(r"^batches/xyz-batch-(\d+)\.jbdmp(\.tmp-.*)?$"), "BBatch"),
    (re.compile(r"^results/xyz-result-(\d+)\.jbdmp(\.tmp-.*)?$"), "BResult"),
]
ROLE = {"BInfo": 0, "BFn": 1, "BBatch": 2, "BResult": 3, "BData": 4, "BTable": 5}
DIRS = {"parent/.xyz-c": ("DTop", 0), "parent/.xyz-c/batches": ("DBat", 1), "parent/.xyz-c/results": ("DRes", 2)}


def name_of(rel):
    """event path -> (base constructor, index, is_tmp) or None"""
    if rel is None:
        return None
    if rel.startswith(_CROP):
        rest = rel[len(_CROP):]
        for pat, b in _PATS:
            m = pat.match(rest)
            if m:
                g = m.groups()
                if b in ("BBatch", "BResult"):
                    return b, int(g[0]), g[1] is not None
                return b, 0, g[0] is not None
        return None
    m = re.match(r"^data/h\.(dmp|h5)(\.tmp)?$", rel)
    if m:
        return "BData", 0, m.group(2) is not None
    m = re.match(r"^data/s\.pkl(\.tmp)?$", rel)
    if m:
        return "BTable", 0, m.group(1) is not None
    return None


def coq_name(nm, pid):
    b, i, tmp = nm
    base = f"({b} {i})" if b in ("BBatch", "BResult") else b
    if tmp:
        return f"(Tmp {base} {0 if b in ('BData', 'BTable') else pid})"
    return f"(Fin {base})"


def val_name(nm):
    b, i, tmp = nm
    return [ROLE[b], i, 1 if tmp else 0]


def translate(events):
    """Counted events -> (model steps as canonical values, index map).  before[j] = number of model
    steps completed when the process is killed BEFORE counted event j; runs of writes to one open file
    are one AppendTmp step; an opaque library save stands for create + append + complete."""
    steps, before, unknown = [], {}, []
    wrote = {}
    for e in events:
        if "i" not in e:
            continue
        before[e["i"]] = len(steps)
        k, p = e["k"], e["p"]
        if k in ("mkdir", "rmdir"):
            d = DIRS.get(p)
            if d is None:
                unknown.append(e)
                continue
            steps.append([0 if k == "mkdir" else 1, d[1]])
            continue
        nm = name_of(p)
        if nm is None:
            unknown.append(e)
            continue
        if k == "open":
            wrote[p] = False
            steps.append([2, val_name(nm)])
        elif k == "write":
            if not wrote.get(p):
                wrote[p] = True
                steps.append([3, val_name(nm)])
        elif k == "close":
            if not wrote.get(p):
                steps.append([3, val_name(nm)])
            steps.append([4, val_name(nm)])
        elif k == "extsave":
            steps += [[2, val_name(nm)], [3, val_name(nm)], [4, val_name(nm)]]
        elif k == "rename":
            src = name_of(e.get("src"))
            if src is None:
                unknown.append(e)
                continue
            steps.append([5, val_name(src), val_name(nm)])
        elif k == "unlink":
            steps.append([6, val_name(nm)])
        else:
            unknown.append(e)
    before[len([e for e in events if "i" in e])] = len(steps)
    return steps, before, unknown


def deletion_schedule(events, pid=0):
    """the unlink / rmdir events of a reap, as the Coq list handed to del_of"""
    out = []
    for e in events:
        if "i" not in e:
            continue
        if e["k"] == "unlink":
            nm = name_of(e["p"])
            if nm is not None and nm[0] not in ("BData", "BTable"):
                out.append(f"inl {coq_name(nm, pid)}")
        elif e["k"] == "rmdir" and e["p"] in DIRS:
            out.append(f"inr {DIRS[e['p']][0]}")
    return "(del_of [" + "; ".join(out) + "])"


def select_points(events, full_writes=False):
    """Crash points to enumerate: every counted event, except that a long run of writes to one file
    (a multi-part pickle) is sampled at its first, second, middle and last write."""
    counted = [e for e in events if "i" in e]
    keep, run = [], []

    def flush():
        if len(run) <= 4 or full_writes:
            keep.extend(run)
        else:
            keep.extend(sorted({run[0], run[1], run[len(run) // 2], run[-1]}))
        run.clear()
    last = None
    for e in counted:
        if e["k"] == "write" and (last is None or last == e["p"]):
            run.append(e["i"])
            last = e["p"]
        else:
            flush()
            last = None
            if e["k"] == "write":
                run.append(e["i"])
                last = e["p"]
            else:
                keep.append(e["i"])
    flush()
    return sorted(set(keep))


def state_val(state):
    """classification from crashops.classify -> the value enc_state produces"""
    return [state["dirs"], state["entries"]]


class Template:
    """pre-states built once and copied for every crash point"""

    def __init__(self, scratch):
        self.scratch = scratch
        self.cache = {}
        self.n = 0
        self.lock = threading.Lock()

    def get(self, srv, scen, ops):
        key = json.dumps([scen.spec(), ops], sort_keys=True)
        with self.lock:
            if key in self.cache:
                return self.cache[key]
            self.n += 1
            d = os.path.join(self.scratch, f"tpl-{self.n}")
        os.makedirs(d)
        w = os.path.join(d, "w")
        os.makedirs(w)
        r = srv.job({"job": "build", "scen": scen.spec(), "ops": ops, "w": w, "watch": w,
                     "out": os.path.join(d, "build.json")})
        if not r.get("completed"):
            raise RuntimeError(f"cannot build the pre-state {ops}: {r.get('harness_error')} {r.get('trace', '')[-600:]}")
        with self.lock:
            self.cache[key] = (w, r["result"]["state"])
        return self.cache[key]


def copy_state(src, dst):
    shutil.copytree(src, dst, symlinks=True)
