"""The crop operations C10 crashes, the documented recovery, and the canonical observation of a
(crashed) crop directory.  Runs inside the child processes of harness.fsx.crashrun; xyzpy comes
from PYTHONPATH (so a scratch copy of the repository can be put under test)."""
import contextlib
import io
import os
import pickle
import re

CROP = "c"


def preload():
    import numpy, pandas, xarray, joblib, h5netcdf  # noqa: F401,E401
    import xyzpy  # noqa: F401
    import xyzpy.gen.cropping  # noqa: F401
    from harness.fsx import crashfn  # noqa: F401
    try:
        import functools
        import xyzpy.utils as U
        import xyzpy.gen.combo_runner as A
        import xyzpy.gen.cropping as B
        import xyzpy.gen.case_runner as C
        real = U.progbar

        @functools.wraps(real)
        def progbar(*a, **kw):
            kw["disable"] = True
            return real(*a, **kw)
        for m in (U, A, B, C):
            if hasattr(m, "progbar"):
                m.progbar = progbar
    except Exception:
        pass


# ------------------------------------------------------------------ the scenario
def data_path(scen, w):
    if scen["kind"] == "Harvester":
        return os.path.join(w, "data", "h" + {"joblib": ".dmp", "h5netcdf": ".h5"}[scen["engine"]])
    if scen["kind"] == "Sampler":
        return os.path.join(w, "data", "s.pkl")
    return None


def crop_dir(w):
    return os.path.join(w, "parent", ".xyz-" + CROP)


def make_farmer(scen, w):
    import xyzpy
    from harness.fsx import crashfn
    kind = scen["kind"]
    if kind == "none":
        return None
    r = xyzpy.Runner(crashfn.fn, var_names="out")
    if kind == "Runner":
        return r
    if kind == "Harvester":
        return xyzpy.Harvester(r, data_name=data_path(scen, w), engine=scen["engine"])
    if kind == "Sampler":
        return xyzpy.Sampler(r, data_name=data_path(scen, w), default_combos={"a": scen["A"], "b": scen["Bv"]})
    raise ValueError(kind)


def make_crop(scen, w, hints=True):
    import xyzpy
    from harness.fsx import crashfn
    f = make_farmer(scen, w)
    kw = dict(name=CROP, parent_dir=os.path.join(w, "parent"))
    if hints:
        kw.update(batchsize=scen.get("batchsize"), num_batches=scen.get("num_batches"))
    if f is None:
        return xyzpy.Crop(fn=crashfn.fn, **kw)
    return f.Crop(**kw)


def do_sow(c, scen):
    if scen["kind"] == "Sampler":
        import numpy as np
        np.random.seed(scen["seed"])
        c.sow_samples(scen["n"], verbosity=0)
    else:
        c.sow_combos({"a": scen["A"], "b": scen["Bv"]}, verbosity=0)


def do_check_bad(c):
    with contextlib.redirect_stdout(io.StringIO()):
        return sorted(int(b) for b in c.check_bad())


def canon_data(scen, data):
    """What a reap returned, as a flat list (sow order) of int / None (missing)."""
    import math
    kind = scen["kind"]

    def cell(x):
        try:
            xf = float(x)
        except Exception:
            return "?" + repr(x)[:30]
        if math.isnan(xf):
            return None
        return int(xf) if xf == int(xf) else "?" + repr(x)[:30]
    if kind == "none":
        out = []

        def walk(t):
            if isinstance(t, (tuple, list)):
                for y in t:
                    walk(y)
            else:
                out.append(cell(t))
        walk(data)
        return out
    if kind == "Sampler":
        return [cell(v) for v in data["out"].tolist()]
    return [cell(data["out"].sel(a=a, b=b).item()) for a in scen["A"] for b in scen["Bv"]]


def canon_ds(ds):
    """A harvested dataset as sorted [code, value] of its non-null entries."""
    import math
    from harness.fsx import crashfn
    out = []
    arr = ds["out"]
    for a in arr["a"].values.tolist():
        for b in arr["b"].values.tolist():
            v = float(arr.sel(a=a, b=b).item())
            if not math.isnan(v):
                out.append([crashfn.code(int(a), int(b)), int(v)])
    return sorted(out)


def canon_df(df):
    import math
    from harness.fsx import crashfn
    rows = []
    for r in df.itertuples():
        v = float(r.out)
        rows.append([crashfn.code(int(r.a), int(r.b)), None if math.isnan(v) else int(v)])
    return rows


def load_data_file(scen, path):
    """-> ("whole", canonical content) | ("torn", error)"""
    try:
        if scen["kind"] == "Harvester":
            import xyzpy
            ds = xyzpy.load_ds(path, engine=scen["engine"])
            try:
                return "whole", canon_ds(ds)
            finally:
                ds.close()
        import pandas as pd
        return "whole", canon_df(pd.read_pickle(path))
    except Exception as e:  # noqa
        return "torn", f"{type(e).__name__}: {str(e)[:80]}"


# ------------------------------------------------------------------ observation of a directory
ROLE = {"info": 0, "fn": 1, "batch": 2, "result": 3, "data": 4, "table": 5}
_PATS = [
    (re.compile(r"^xyz-settings\.jbdmp(\.tmp-.*)?$"), "info"),
    (re.compile(r"^xyz-function\.clpkl(\.tmp-.*)?$"), "fn"),
    (re.compile(r"^batches/xyz-batch-(\d+)\.jbdmp(\.tmp-.*)?$"), "batch"),
    (re.compile(r"^results/xyz-result-(\d+)\.jbdmp(\.tmp-.*)?$"), "result"),
]


def role_of(rel):
    """relative path inside the crop directory -> (role, index, is_tmp) or None"""
    for pat, role in _PATS:
        m = pat.match(rel)
        if m:
            g = m.groups()
            if role in ("batch", "result"):
                return role, int(g[0]), g[1] is not None
            return role, 0, g[0] is not None
    return None


def classify(scen, w):
    """dirs = which of crop/, batches/, results/ exist; entries sorted [role, index, tmp, class, content]:
    class 1 whole (content canonical), 2 torn (does not load), 3 temporary file (any content)."""
    from harness.fsx import crashfn
    loc = crop_dir(w)
    dirs = [int(os.path.isdir(p)) for p in (loc, os.path.join(loc, "batches"), os.path.join(loc, "results"))]
    ents, other = [], []
    for root, _, fs in os.walk(loc):
        for f in fs:
            p = os.path.join(root, f)
            rel = os.path.relpath(p, loc)
            ro = role_of(rel)
            if ro is None:
                other.append(rel)
                continue
            role, idx, tmp = ro
            if tmp:
                ents.append([ROLE[role], idx, 1, 3, []])
                continue
            try:
                with open(p, "rb") as fh:
                    obj = pickle.load(fh)
                if role == "info":
                    content = [int(obj["num_batches"])]
                elif role == "fn":
                    content = []
                elif role == "batch":
                    content = [crashfn.code(int(kw["a"]), int(kw["b"])) for kw in obj]
                else:
                    content = [int(x) for x in obj]
                ents.append([ROLE[role], idx, 0, 1, content])
            except Exception:  # noqa
                ents.append([ROLE[role], idx, 0, 2, []])
    dp = data_path(scen, w)
    if dp is not None:
        role = "data" if scen["kind"] == "Harvester" else "table"
        if os.path.exists(dp):
            cls, content = load_data_file(scen, dp)
            ents.append([ROLE[role], 0, 0, 1 if cls == "whole" else 2, content if cls == "whole" else []])
        if os.path.exists(dp + ".tmp"):
            ents.append([ROLE[role], 0, 1, 3, []])
        for f in os.listdir(os.path.dirname(dp)):
            if os.path.join(os.path.dirname(dp), f) not in (dp, dp + ".tmp"):
                other.append("data/" + f)
    return {"dirs": dirs, "entries": sorted(ents), "other": sorted(other)}


def progress(scen, w):
    """[num_sown_batches, num_results, missing_results | None (it raises), is_ready_to_reap] as a new
    Crop object (no batch hints) reports them; None altogether if the object cannot be made."""
    try:
        c = make_crop(scen, w, hints=False)
        out = [int(c.num_sown_batches), int(c.num_results)]
    except Exception:  # noqa
        return None
    try:
        out.append([int(i) for i in c.missing_results()])
    except Exception:  # noqa
        out.append(None)
    try:
        out.append(bool(c.is_ready_to_reap()))
    except Exception:  # noqa
        out.append(None)
    return out


def outcome(fn):
    """run fn() -> ["value", data] | ["refused", msg] (XYZError) | ["error", msg]"""
    try:
        return ["value", fn()]
    except Exception as e:  # noqa
        kind = "refused" if type(e).__name__ == "XYZError" else "error"
        return [kind, f"{type(e).__name__}: {str(e)[:120]}"]


def sown_complete(c):
    """Is everything a sow creates (the three directories, settings, function, every batch) there and
    readable?  (A reap killed while deleting can leave the sown files but no results/ directory, in
    which grow cannot write: only a sow re-creates it.)"""
    from xyzpy.gen import cropping as K
    try:
        for d in (c.location, os.path.join(c.location, "batches"), os.path.join(c.location, "results")):
            if not os.path.isdir(d):
                return False
        info = c.load_info()
        K.read_from_disk(os.path.join(c.location, K.FNCT_NM))
        for i in range(1, int(info["num_batches"]) + 1):
            K.read_from_disk(os.path.join(c.location, "batches", K.BTCH_NM.format(i)))
        return True
    except Exception:  # noqa
        return False


def recover(scen, w, log):
    """The documented recovery: re-sow if the sown files are incomplete, discard bad results,
    grow the missing batches, reap."""
    c = make_crop(scen, w)
    if not sown_complete(c):
        log.append("resow")
        do_sow(c, scen)
    bad = do_check_bad(c)
    if bad:
        log.append(["discarded", bad])
    missing = [int(i) for i in c.missing_results()]
    log.append(["grow", missing])
    c.grow_missing(verbosity=0)
    return canon_data(scen, c.reap())


# ------------------------------------------------------------------ jobs
def run_op(scen, w, op):
    name = op["name"]
    if name == "sow":
        do_sow(make_crop(scen, w), scen)
        return None
    if name == "grow_fn":
        from xyzpy.gen.cropping import grow
        c = make_crop(scen, w)
        for i in op["ids"]:
            grow(i, crop=c, verbosity=0)
        return None
    if name == "crop_grow":
        ids = op["ids"]
        make_crop(scen, w).grow(tuple(ids) if len(ids) != 1 else ids[0], verbosity=0)
        return None
    if name == "grow_missing":
        make_crop(scen, w).grow_missing(verbosity=0)
        return None
    if name == "check_bad":
        return do_check_bad(make_crop(scen, w))
    if name == "reap":
        c = make_crop(scen, w)
        return canon_data(scen, c.reap(allow_incomplete=bool(op.get("allow", False))))
    if name == "harvest_old":
        # data merged into the harvester's file / the sampler's table BEFORE the crop exists
        f = make_farmer(scen, w)
        if scen["kind"] == "Harvester":
            f.harvest_combos({"a": op["A"], "b": op["Bv"]}, verbosity=0)
        else:
            import numpy as np
            np.random.seed(op["seed"])
            f.sample_combos(op["n"], verbosity=0)
        return None
    if name == "delete_result":
        os.remove(os.path.join(crop_dir(w), "results", f"xyz-result-{op['id']}.jbdmp"))
        return None
    raise ValueError(name)


def run(spec, ip):
    preload()
    scen, w = spec["scen"], spec["w"]
    job = spec["job"]
    if job == "build":
        # un-armed: construct a pre-state
        os.makedirs(os.path.join(w, "parent"), exist_ok=True)
        os.makedirs(os.path.join(w, "data"), exist_ok=True)
        for op in spec["ops"]:
            run_op(scen, w, op)
        return {"state": classify(scen, w)}
    if job == "op":
        ip.armed = True
        res = outcome(lambda: run_op(scen, w, spec["op"]))
        ip.armed = False
        return {"outcome": res}
    if job == "inspect":
        return {"state": classify(scen, w), "progress": progress(scen, w)}
    if job == "reap":
        res = outcome(lambda: run_op(scen, w, {"name": "reap", "allow": spec.get("allow", False)}))
        return {"outcome": res, "state": classify(scen, w)}
    if job == "recover":
        log = []
        ip.armed = True
        res = outcome(lambda: recover(scen, w, log))
        ip.armed = False
        return {"outcome": res, "log": log, "state": classify(scen, w)}
    raise ValueError(job)
