"""The function swept by the C10 crops.  It lives in an importable module of its own so that
cloudpickle stores it by reference and a grower in any process can load it."""


def code(a, b):
    return 100 * a + b


def value_of_code(c):
    return 7 * c + 3


def fn(a, b):
    return value_of_code(code(int(a), int(b)))
