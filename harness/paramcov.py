"""Parameter-coverage audit (a development aid, not part of any check): with XV_PARAMCOV=<file> set, the public
entry points of xyzpy are wrapped so that every call records which parameters were passed and a coarse class
of each value.  tools/param_report.py lists the parameters of each entry point that no check ever passed (or
passed with one value class only)."""
import functools
import inspect
import json
import os

TARGETS = {
    "xyzpy.gen.combo_runner": ["combo_runner", "combo_runner_to_ds", "combo_runner_to_df"],
    "xyzpy.gen.case_runner": ["case_runner", "case_runner_to_ds", "case_runner_to_df", "find_missing_cases",
                              "parse_into_cases", "is_case_missing"],
    "xyzpy.gen.farming": ["label", "Runner.__init__", "Runner.run_combos", "Runner.run_cases", "Runner.Crop",
                          "Harvester.__init__", "Harvester.harvest_combos", "Harvester.harvest_cases",
                          "Harvester.add_ds", "Harvester.load_full_ds", "Harvester.save_full_ds",
                          "Harvester.delete_ds", "Harvester.expand_dims", "Harvester.drop_sel", "Harvester.Crop",
                          "Sampler.__init__", "Sampler.sample_combos", "Sampler.add_df", "Sampler.Crop",
                          "Sampler.delete_df"],
    "xyzpy.gen.cropping": ["Crop.__init__", "Crop.sow_combos", "Crop.sow_cases", "Crop.sow_samples", "Crop.grow",
                           "Crop.grow_missing", "Crop.reap", "Crop.reap_combos", "Crop.reap_combos_to_ds",
                           "Crop.reap_runner", "Crop.reap_harvest", "Crop.reap_samples", "Crop.check_bad",
                           "Crop.delete_all", "Crop.gen_cluster_script", "Crop.grow_cluster", "grow",
                           "gen_cluster_script"],
    "xyzpy.manage": ["save_ds", "load_ds", "save_merge_ds", "save_df", "load_df", "merge_sync_conflict_datasets",
                     "auto_add_extension", "trimna", "sort_dims", "check_runs", "auto_xyz_ds"],
    "xyzpy.utils": ["estimate_from_repeats", "format_number_with_error", "RunningStatistics.update",
                    "RunningStatistics.update_from_it", "RunningCovarianceMatrix.__init__"],
    "xyzpy.plot.plotter_matplotlib": ["lineplot", "scatter", "histogram", "heatmap", "auto_lineplot",
                                      "auto_scatter", "auto_histogram", "auto_heatmap"],
    "xyzpy.plot.infiniplot": ["infiniplot"],
}
SEEN = {}


def klass(v):
    if v is None or isinstance(v, bool):
        return repr(v)
    if isinstance(v, int):
        return "int:0" if v == 0 else ("int:1" if v == 1 else "int")
    if isinstance(v, float):
        return "float"
    if isinstance(v, str):
        return "str"
    if isinstance(v, dict):
        return "dict:empty" if not v else "dict"
    if isinstance(v, (list, tuple)):
        return type(v).__name__ + (":empty" if not v else "")
    if callable(v):
        return "callable"
    return type(v).__name__


def wrap(qual, f):
    try:
        sig = inspect.signature(f)
    except (TypeError, ValueError):
        return f

    @functools.wraps(f)
    def w(*a, **k):
        try:
            b = sig.bind_partial(*a, **k)
            rec = SEEN.setdefault(qual, {})
            for name, val in b.arguments.items():
                if name == "self":
                    continue
                p = sig.parameters[name]
                if p.kind == p.VAR_KEYWORD:
                    for kk, vv in val.items():
                        rec.setdefault("**" + kk, set()).add(klass(vv))
                elif p.kind == p.VAR_POSITIONAL:
                    rec.setdefault("*" + name, set()).add(str(len(val)))
                else:
                    rec.setdefault(name, set()).add(klass(val))
            rec.setdefault("#calls", set())
        except Exception:  # noqa
            pass
        return f(*a, **k)
    w.__signature__ = sig
    return w


def install():
    import importlib
    for mod, names in TARGETS.items():
        try:
            m = importlib.import_module(mod)
        except Exception:  # noqa
            continue
        for q in names:
            try:
                if "." in q:
                    cls, meth = q.split(".")
                    c = getattr(m, cls)
                    setattr(c, meth, wrap(f"{mod}.{q}", c.__dict__[meth]))
                else:
                    f = getattr(m, q)
                    wf = wrap(f"{mod}.{q}", f)
                    setattr(m, q, wf)
                    import xyzpy
                    if getattr(xyzpy, q, None) is f:
                        setattr(xyzpy, q, wf)
            except Exception:  # noqa
                continue


def dump():
    path = os.environ.get("XV_PARAMCOV")
    if not path:
        return
    old = {}
    if os.path.exists(path):
        try:
            old = json.load(open(path))
        except Exception:  # noqa
            old = {}
    for q, rec in SEEN.items():
        o = old.setdefault(q, {})
        for k, v in rec.items():
            o[k] = sorted(set(o.get(k, [])) | set(v))
    json.dump(old, open(path, "w"), indent=1, sort_keys=True)
