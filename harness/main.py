import argparse
import importlib
import os
import sys


def quiet_progress_bars():
    """xyzpy draws tqdm bars on stderr for every sweep; force them off (display only)."""
    try:
        import functools
        import xyzpy.utils as U
        import xyzpy.gen.combo_runner as A
        import xyzpy.gen.cropping as B
        import xyzpy.gen.case_runner as C
        real = U.progbar

        @functools.wraps(real)
        def progbar(*a, **kw):
            kw["disable"] = True
            return real(*a, **kw)
        for m in (U, A, B, C):
            if hasattr(m, "progbar"):
                m.progbar = progbar
    except Exception:
        pass


def main():
    quiet_progress_bars()
    ap = argparse.ArgumentParser()
    ap.add_argument("prop")
    ap.add_argument("--tier", default=os.environ.get("VERIF_TIER", "quick"), choices=["quick", "thorough"])
    ap.add_argument("--replay", default=None)
    ap.add_argument("--seed", type=int, default=int(os.environ.get("VERIF_SEED", "0") or 0))
    a = ap.parse_args()
    os.environ["XV_TIER"] = a.tier
    mod = importlib.import_module(f"harness.props.{a.prop.lower()}")
    if a.replay:
        sys.exit(mod.replay(a.replay))
    sys.exit(mod.run(a.tier, a.seed))


if __name__ == "__main__":
    main()
