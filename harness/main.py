import argparse
import importlib
import os
import sys


def main():
    ap = argparse.ArgumentParser()
    ap.add_argument("prop")
    ap.add_argument("--tier", default=os.environ.get("VERIF_TIER", "quick"), choices=["quick", "thorough"])
    ap.add_argument("--replay", default=None)
    ap.add_argument("--seed", type=int, default=int(os.environ.get("VERIF_SEED", "0") or 0))
    a = ap.parse_args()
    mod = importlib.import_module(f"harness.props.{a.prop.lower()}")
    if a.replay:
        sys.exit(mod.replay(a.replay))
    sys.exit(mod.run(a.tier, a.seed))


if __name__ == "__main__":
    main()
