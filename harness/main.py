import argparse
import importlib
import os
import sys


def quiet_progress_bars():
    """xyzpy draws tqdm bars on stderr for every sweep; force them off (display only)."""
    try:
        import functools
        import xyzpy.utils as U
        import xyzpy.gen.combo_runner as A
        import xyzpy.gen.cropping as B
        import xyzpy.gen.case_runner as C
        real = U.progbar

        @functools.wraps(real)
        def progbar(*a, **kw):
            kw["disable"] = True
            return real(*a, **kw)
        for m in (U, A, B, C):
            if hasattr(m, "progbar"):
                m.progbar = progbar
    except Exception:
        pass


def main():
    quiet_progress_bars()
    if os.environ.get("XV_PARAMCOV"):
        import atexit
        from harness import paramcov
        paramcov.install()
        atexit.register(paramcov.dump)
    ap = argparse.ArgumentParser()
    ap.add_argument("prop")
    ap.add_argument("--tier", default=os.environ.get("VERIF_TIER", "quick"), choices=["quick", "thorough"])
    ap.add_argument("--replay", default=None)
    ap.add_argument("--seed", type=int, default=int(os.environ.get("VERIF_SEED", "0") or 0))
    a = ap.parse_args()
    os.environ["XV_TIER"] = a.tier
    mod = importlib.import_module(f"harness.props.{a.prop.lower()}")
    if a.replay:
        sys.exit(mod.replay(a.replay))
    try:
        rc = mod.run(a.tier, a.seed)
    except Exception:  # noqa -- the harness itself fell over on this tree: the property is not shown to hold
        import json
        import traceback
        tb = traceback.format_exc()
        d = os.path.join(os.path.dirname(os.path.dirname(os.path.abspath(__file__))), "evidence", "replay")
        os.makedirs(d, exist_ok=True)
        path = os.path.join(d, f"{a.prop.upper()}-harness-crash.json")
        with open(path, "w") as f:
            json.dump({"property": a.prop.upper(), "tier": a.tier, "seed": a.seed,
                       "broken_obligation": "the check's harness runs to completion against this tree "
                                            "(an exception escaped while driving xyzpy or evaluating the model)",
                       "traceback": tb[-6000:]}, f, indent=1)
        sys.stderr.write(tb)
        print(f"VIOLATION property={a.prop.upper()} replay={path} no-failing-input-found")
        rc = 1
    sys.exit(rc)


if __name__ == "__main__":
    main()
