"""GenRunner.v: the data flow of combo_runner_core (xyzpy/gen/combo_runner.py) as provenance
terms: which list is run, what the results are after the optional un-shuffle, and which list
is handed out as info["settings"].  A tiny abstract interpreter over the statement shapes
the function actually uses; anything else is refused."""
import ast
from .pyz import Refused, find_function

SRC = "xyzpy/gen/combo_runner.py"

BUILD_LOOP = '''for case_params in case_values:
    for arg, v in zip(case_args, case_params):
        case_coords[arg].add(v)
    for combo_params in itertools.product(*combo_values):
        loc = case_params + combo_params
        kws = dict(zip(fn_args, loc))
        kws.update(constants)
        locs.append(loc)
        settings.append(kws)'''

UNFLATTEN = '''def _unflatten(store, all_combo_values, all_nan=None):
    while all_combo_values:
        *all_combo_values, last = all_combo_values
        for p in itertools.product(*all_combo_values):
            store[p] = tuple((store.pop(p + (v,), all_nan) for v in last))
    return store.pop(())'''


PROLOGUE = '''
if combos:
    combo_args, combo_values = zip(*combos)
else:
    combo_args, combo_values = (), ()

if cases:
    cases = tuple(cases)
    case_args = tuple(cases[0].keys())
    case_values = tuple(tuple(c[a] for a in case_args) for c in cases)
    case_coords = {arg: set() for arg in case_args}
else:
    cases = ()
    case_args = ()
    case_values = ((),)
    case_coords = {}

if not set(case_args).isdisjoint(combo_args):
    raise ValueError(f"Variables can't appear in both ``cases`` and ``combos``, currently found combo variables {combo_args} and case variables{case_args}.")

fn_args = case_args + combo_args
'''

EXECUTORS = '''
def _submit(executor, fn, *args, **kwds):
    if isinstance(executor, multiprocessing.pool.Pool):
        return executor.apply_async(fn, args, kwds)
    elif hasattr(executor, "submit"):
        return executor.submit(fn, *args, **kwds)
    elif hasattr(executor, "apply_async"):
        return executor.apply_async(fn, *args, **kwds)
    else:
        raise TypeError("The executor supplied, {}, does not have a ``submit`` or ``apply_async`` method.".format(executor))


def _get_result(future):
    if hasattr(future, "result"):
        return future.result()
    if hasattr(future, "get"):
        return future.get()
    raise TypeError("Future does not have a `result` or `get` method.")


def _run_linear_executor(executor, fn, settings, verbosity=1):
    with progbar(total=len(settings), disable=verbosity <= 0) as pbar:
        if verbosity >= 2:
            pbar.set_description("Submitting to executor...")
        futures = [_submit(executor, fn, **kws) for kws in settings]
        results_linear = []
        for kws, future in zip(settings, futures):
            if verbosity >= 2:
                pbar.set_description(str(kws))
            results_linear.append(_get_result(future))
            pbar.update()
        return results_linear


def _run_linear_sequential(fn, settings, verbosity=1):
    results_linear = []
    with progbar(total=len(settings), disable=verbosity <= 0) as pbar:
        for kws in settings:
            if verbosity >= 2:
                pbar.set_description(str(kws))
            results_linear.append(fn(**kws))
            pbar.update()
        return results_linear
'''

DUPCHECK = '''
def check_for_duplicates(arg, values):
    if values is Ellipsis:
        return
    seen = set()
    for val in values:
        if val in seen:
            raise XYZError(f"Duplicate combo value for '{arg}': {val}")
        seen.add(val)
'''


def ptree_aliases(repo):
    t = ast.parse(open(f"{repo}/xyzpy/gen/prepare.py").read())
    return [x for x in t.body if isinstance(x, ast.Assign)]


def norm(node):
    """unparse with comments/docstrings gone"""
    return ast.unparse(node)


def generate(repo):
    tree = ast.parse(open(f"{repo}/{SRC}").read())
    fn = find_function(tree, "combo_runner_core")
    val = {}          # variable -> provenance term (string)
    info = {}
    run_arg = {}      # shuffled? -> provenance of the list that is run
    seen_build = False

    unfl = find_function(tree, "_unflatten")
    if norm(unfl) != norm(ast.parse(UNFLATTEN).body[0]):
        raise Refused(unfl, "_unflatten differs from the transcribed algorithm")

    def walk(stmts, shuffled):
        nonlocal seen_build
        for s in stmts:
            txt = norm(s)
            if isinstance(s, ast.Assign) and len(s.targets) == 1:
                tgt = norm(s.targets[0]).strip("()")
                rhs = norm(s.value)
                if tgt == "settings" and rhs == "[]":
                    val["settings"] = "PEmpty"
                    continue
                if tgt == "run_settings" and rhs in val:
                    val["run_settings"] = val[rhs]
                    continue
                if tgt == "enum_settings" and rhs == "list(enumerate(settings))":
                    val["enum_settings"] = ("enum", val["settings"])
                    continue
                if tgt.startswith("enum, ") and rhs == "zip(*enum_settings)":
                    name = tgt.split(", ")[1]
                    es = val.get("enum_settings")
                    if not (isinstance(es, tuple) and es[0] == "shuffled-enum"):
                        raise Refused(s, "enum_settings is not the shuffled enumeration here")
                    val[name] = f"(PShuffled {es[1]})"
                    val["enum"] = "perm"
                    continue
                if tgt == "run_linear_opts" and isinstance(s.value, ast.Dict):
                    for k, v in zip(s.value.keys, s.value.values):
                        if isinstance(k, ast.Constant) and k.value == "settings":
                            nm = norm(v)
                            if nm not in val:
                                raise Refused(s, "unknown settings variable passed to the runner")
                            val["#run"] = val[nm]
                    if "#run" not in val:
                        raise Refused(s, "run_linear_opts has no settings entry")
                    continue
                if tgt == "results_linear" and rhs.startswith(("_run_linear_executor(", "_run_linear_sequential(")) \
                        and "**run_linear_opts" in rhs:
                    val["results_linear"] = f"(PResults {val['#run']})"
                    continue
                if tgt == "enum_results" and rhs == "sorted(zip(enum, results_linear), key=lambda x: x[0])":
                    if val.get("enum") != "perm":
                        raise Refused(s, "un-shuffle without a permutation")
                    val["enum_results"] = f"(PUnshuffled {val['results_linear']})"
                    continue
                if tgt == "_, results_linear" and rhs == "zip(*enum_results)":
                    val["results_linear"] = val["enum_results"]
                    continue
                if tgt.startswith("info["):
                    key = s.targets[0].slice.value
                    nm = rhs
                    if key == "settings":
                        if nm not in val:
                            raise Refused(s, "info settings from unknown variable")
                        info["settings"] = val[nm]
                    else:
                        info[key] = nm
                    continue
            if txt == "random.seed(int(shuffle))":
                continue
            if txt == "random.shuffle(enum_settings)":
                es = val.get("enum_settings")
                if not (isinstance(es, tuple) and es[0] == "enum"):
                    raise Refused(s, "shuffle of something that is not the enumeration")
                val["enum_settings"] = ("shuffled-enum", es[1])
                continue
            if isinstance(s, ast.For) and txt == norm(ast.parse(BUILD_LOOP).body[0]):
                if val.get("settings") != "PEmpty":
                    raise Refused(s, "settings not initialised empty")
                val["settings"] = "PSettings"
                seen_build = True
                continue
            if isinstance(s, ast.If):
                t = norm(s.test)
                if t == "shuffle":
                    if not shuffled:
                        continue          # this path is the unshuffled one: block not executed
                    walk(s.body, shuffled)
                    continue
                if t in ("executor is not None", "parallel or num_workers") or t.startswith("executor =="):
                    # every branch must run the same list
                    for branch in (s.body, s.orelse):
                        walk(branch, shuffled)
                    continue
                if t == "info is not None":
                    walk(s.body, shuffled)
                    continue
                if t == "flat" and all(isinstance(b, ast.Assign) and norm(b.targets[0]).startswith("info[")
                                       for b in s.body + s.orelse):
                    walk(s.body, shuffled)
                    walk(s.orelse, shuffled)
                    continue
            # statements that do not touch the tracked variables
            names = {n.id for n in ast.walk(s) if isinstance(n, ast.Name)}
            tracked = {"settings", "run_settings", "enum", "enum_settings", "results_linear", "enum_results",
                       "run_linear_opts"}
            writes = {norm(t) for a in ast.walk(s) if isinstance(a, (ast.Assign, ast.AugAssign))
                      for t in (a.targets if isinstance(a, ast.Assign) else [a.target])}
            if writes & tracked or (isinstance(s, ast.Expr) and names & {"settings", "results_linear", "enum"}
                                    and not txt.startswith('"""')):
                raise Refused(s, "unrecognised statement touching the tracked data flow")

    out = ["(* GENERATED by harness/translator/gen_runner.py from xyzpy/gen/combo_runner.py -- do not edit *)",
           "From XV Require Import Prelude Flow.", ""]
    res = {}
    for shuffled in (False, True):
        val.clear(); info.clear(); seen_build = False
        walk(fn.body, shuffled)
        if not seen_build or "results_linear" not in val or "settings" not in info:
            raise Refused(fn, "data flow incomplete")
        res[shuffled] = (val["#run"], val["results_linear"], info["settings"], info.get("fn_args"),
                         info.get("all_combo_values"))
    for shuffled, tag in ((False, "plain"), (True, "shuffled")):
        run, results, infos, fa, acv = res[shuffled]
        out += [f"Definition gen_run_{tag} : prov := {run}.",
                f"Definition gen_results_{tag} : prov := {results}.",
                f"Definition gen_info_settings_{tag} : prov := {infos}.", ""]
    if res[True][3] != "fn_args" or res[True][4] != "all_combo_values":
        raise Refused(fn, "info fn_args / all_combo_values")
    # the final return: process_results(results_linear), or one per component when split
    rets = [s for s in fn.body if isinstance(s, (ast.Return, ast.If)) and "process_results" in norm(s)]
    want = ["if split:\n    return tuple((process_results(r) for r in zip(*results_linear)))",
            "return process_results(results_linear)"]
    if [norm(r) for r in rets] != want:
        raise Refused(fn, "final return shape")
    out += ["Definition gen_unflatten_is_transcribed : bool := true.",
            "Definition gen_return_uses_results_linear : bool := true.", ""]
    # the prologue: how argument names and per-case value tuples are read off combos / dict cases (by NAME, in
    # the key order of the first case) and the overlap guard BEFORE anything is enumerated or run
    want_pro = ast.parse(PROLOGUE).body
    body = [x for x in fn.body if not (isinstance(x, ast.Expr) and isinstance(x.value, ast.Constant))]
    got = [norm(x) for x in body[:len(want_pro)]]
    if got != [norm(x) for x in want_pro]:
        k = next(i for i, (a, b) in enumerate(zip(got, [norm(x) for x in want_pro])) if a != b)
        raise Refused(body[k], "prologue of combo_runner_core differs from the transcription")
    out += ["Definition gen_prologue_is_transcribed : bool := true.", ""]
    # the two ways a list of settings is run: every setting is submitted / called once with ITS kwargs, and the
    # results are collected in the order of the settings (futures zipped with the settings they were made for)
    def strip_doc(f):
        f = ast.parse(ast.unparse(f)).body[0]
        if f.body and isinstance(f.body[0], ast.Expr) and isinstance(f.body[0].value, ast.Constant):
            f.body = f.body[1:]
        return norm(f)
    for wf in ast.parse(EXECUTORS).body:
        got = find_function(tree, wf.name)
        if strip_doc(got) != strip_doc(wf):
            raise Refused(got, f"{wf.name} differs from the transcription")
    out += ["Definition gen_linear_runners_are_transcribed : bool := true.", ""]
    # prepare.py: how spellings of fn_args / combos / cases / var_names / var_dims are normalised
    from . import pins
    n_pinned = pins.check(repo, "xyzpy/gen/prepare.py")
    aliases = {ast.unparse(x) for x in ptree_aliases(repo)}
    for al in ("parse_var_coords = dictify", "parse_constants = dictify", "parse_resources = dictify",
               "parse_attrs = dictify"):
        if al not in aliases:
            raise Refused(tree, f"prepare.py: {al} missing")
    out += [f"Definition gen_prepare_is_pinned : bool := true.   (* {n_pinned} functions *)", ""]
    # the all-missing placeholder derived from a finished result (modelled in RunnerInst.v; pinned as well)
    pins.check(repo, SRC, ["nan_like_result", "infer_shape"])
    out += ["Definition gen_placeholder_is_pinned : bool := true.", ""]

    # ---- prepare.py: a value that EQUALS an earlier value of the same argument is refused (the results are
    #      keyed by value, so equal values would share one slot), for every argument of the grid
    ptree = ast.parse(open(f"{repo}/xyzpy/gen/prepare.py").read())
    chk = find_function(ptree, "check_for_duplicates")
    want_chk = ast.parse(DUPCHECK).body[0]
    if norm(chk) != norm(want_chk):
        raise Refused(chk, "check_for_duplicates differs from the transcribed test (membership by equality)")
    pc = find_function(ptree, "parse_combos")
    loops = [norm(x) for x in pc.body if isinstance(x, ast.For)]
    if loops != ["for arg, values in combos:\n    check_for_duplicates(arg, values)"] \
            or norm(pc.body[-1]) != "return combos":
        raise Refused(pc, "parse_combos does not check every argument's values before returning")
    callers = sum(1 for n in ast.walk(fn) if isinstance(n, ast.Call) and norm(n.func) == "parse_combos")
    out += ["Definition gen_duplicates_rejected_by_equality : bool := true.", ""]
    return "\n".join(out)
