"""GenStages.v: for each reap entry point of Crop (reap_combos, reap_combos_to_ds, reap_runner,
reap_harvest, reap_samples, reap) the ORDERED list of effect stages with the clean_up
expression each passes down, plus (GenShuffle part) which shuffle expression every sowing /
reaping call site hands to the core runner.  Statements are classified by shape; anything that
is not recognised is refused (fail closed)."""
import ast
from .pyz import Refused, find_function

SRC = "xyzpy/gen/cropping.py"


def cu_of(node):
    """clean_up expression at a call site -> Gallina constructor."""
    if node is None:
        return "CuDefault"          # keyword not passed: callee default (None)
    if isinstance(node, ast.Constant):
        if node.value is False:
            return "CuFalse"
        if node.value is True:
            return "CuTrue"
        if node.value is None:
            return "CuNone"
    if isinstance(node, ast.Name) and node.id == "clean_up":
        return "CuVar"
    raise Refused(node, "clean_up expression")


def kw(call, name):
    for k in call.keywords:
        if k.arg == name:
            return k.value
    return None


def classify(stmts, fname):
    """-> list of Gallina stage terms for a statement list."""
    out = []
    for s in stmts:
        if isinstance(s, ast.Expr) and isinstance(s.value, ast.Constant) and isinstance(s.value.value, str):
            continue
        txt = ast.unparse(s)
        if txt == "check_ready_to_reap(self, allow_incomplete, wait)":
            out.append("SCheckReady")
        elif txt == "clean_up, default_result = calc_clean_up_default_res(self, clean_up, allow_incomplete)":
            out.append("SDecide")
        elif txt in ("settings = self.load_info()", "sown_constants = self.load_info().get('constants') or {}"):
            out.append("SLoadInfo")
        elif isinstance(s, ast.If) and ast.unparse(s.test) == "parse" and not s.orelse and all(
                isinstance(b, ast.Assign) and ast.unparse(b.value).startswith(("parse_constants(", "parse_attrs("))
                for b in s.body):
            out.append("SPure")
        elif isinstance(s, ast.With):
            if len(s.items) != 1 or not ast.unparse(s.items[0].context_expr).startswith("Reaper(self, "):
                raise Refused(s, "with-statement is not a Reaper")
            out.append("SReaperEnter")
            for b in s.body:
                bt = ast.unparse(b)
                if isinstance(b, ast.Assign) and isinstance(b.value, ast.Call):
                    callee = ast.unparse(b.value.func)
                    if callee == "combo_runner_core":
                        out.append("SReapRaw")
                        continue
                    if callee == "combo_runner_to_ds":
                        out.append("SReapDs")
                        continue
                out += classify([b], fname)
            out.append("SReaperExit")
        elif isinstance(s, ast.If) and ast.unparse(s.test) == "clean_up" and not s.orelse \
                and [ast.unparse(b) for b in s.body] == ["self.delete_all()"]:
            out.append("SDeleteIf")
        elif txt == "self.delete_all()":
            out.append("SDeleteAlways")
        elif isinstance(s, ast.If) and ast.unparse(s.test) == "clean_up is None" and not s.orelse \
                and [ast.unparse(b) for b in s.body] == ["clean_up = not allow_incomplete"]:
            out.append("SDefault")
        elif isinstance(s, ast.Return):
            out.append("SReturn")
        elif isinstance(s, ast.Assign) and isinstance(s.value, ast.Call) \
                and ast.unparse(s.value.func) in ("self.reap_combos_to_ds", "self.reap_runner"):
            callee = {"self.reap_combos_to_ds": "EToDs", "self.reap_runner": "ERunner"}[ast.unparse(s.value.func)]
            out.append(f"(SCall {callee} {cu_of(kw(s.value, 'clean_up'))})")
        elif isinstance(s, ast.If) and ast.unparse(s.test) == "to_df" and all(
                isinstance(b, ast.Assign) and ast.unparse(b.targets[0]).startswith("runner._last_")
                for b in s.body + s.orelse):
            out.append("SRecordLast")
        elif isinstance(s, ast.If) and ast.unparse(s.test) in ("harvester is None", "sampler is None") \
                and len(s.body) == 1 and isinstance(s.body[0], ast.Raise) and not s.orelse:
            out.append("SGuard")
        elif isinstance(s, ast.If) and ast.unparse(s.test) == "sync" and not s.orelse:
            inner = [ast.unparse(b) for b in s.body]
            if inner == ["harvester.add_ds(ds, sync=sync, overwrite=overwrite)"]:
                out.append("SSync")
            elif inner == ["sampler._last_df = df", "sampler.add_df(df, sync=sync)"]:
                out.append("SSync")
            else:
                raise Refused(s, "sync block")
        else:
            raise Refused(s, f"unrecognised statement in {fname}")
    return out


def shuffle_src(call):
    v = kw(call, "shuffle")
    if v is None:
        return "SrcNone"
    t = ast.unparse(v)
    return {"shuffle": "SrcArg", "self.shuffle": "SrcSelf",
            "settings.get('shuffle', False)": "SrcSaved"}.get(t) or (_ for _ in ()).throw(Refused(v, "shuffle source"))


def find_call(fn, callee):
    hits = [n for n in ast.walk(fn) if isinstance(n, ast.Call) and ast.unparse(n.func) == callee]
    if len(hits) != 1:
        raise Refused(fn, f"expected exactly one call of {callee}, found {len(hits)}")
    return hits[0]


def generate(repo):
    tree = ast.parse(open(f"{repo}/{SRC}").read())
    out = ["(* GENERATED by harness/translator/gen_stages.py from xyzpy/gen/cropping.py -- do not edit *)",
           "From XV Require Import Prelude Stages.", ""]
    for name, fn_name in [("gen_prog_raw", "Crop.reap_combos"), ("gen_prog_to_ds", "Crop.reap_combos_to_ds"),
                          ("gen_prog_runner", "Crop.reap_runner"), ("gen_prog_harvest", "Crop.reap_harvest"),
                          ("gen_prog_samples", "Crop.reap_samples")]:
        fn = find_function(tree, fn_name)
        stages = classify(fn.body, fn_name)
        out += [f"Definition {name} : list stage :=", "  [" + "; ".join(stages) + "].", ""]

    # Crop.reap: the dispatch on the farmer kind
    fn = find_function(tree, "Crop.reap")
    disp = {}
    for s in fn.body:
        if isinstance(s, ast.If) and ast.unparse(s.test).startswith("isinstance(self.farmer, "):
            kind = ast.unparse(s.test)[len("isinstance(self.farmer, "):-1]
            ret = [b for b in s.body if isinstance(b, ast.Return)]
            if len(ret) != 1 or not isinstance(ret[0].value, ast.Call):
                raise Refused(s, "dispatch branch")
            disp[kind] = ast.unparse(ret[0].value.func)
        elif isinstance(s, ast.Return) and isinstance(s.value, ast.Call):
            disp["none"] = ast.unparse(s.value.func)
    want = {"Runner": "self.reap_runner", "Harvester": "self.reap_harvest", "Sampler": "self.reap_samples",
            "none": "self.reap_combos"}
    ent = {"self.reap_runner": "ERunner", "self.reap_harvest": "EHarvest", "self.reap_samples": "ESamples",
           "self.reap_combos": "ERaw"}
    for k in want:
        if k not in disp or disp[k] not in ent:
            raise Refused(fn, f"dispatch for farmer kind {k}")
    opts = [s for s in fn.body if isinstance(s, ast.Assign) and ast.unparse(s.targets[0]) == "opts"]
    if len(opts) != 1 or ast.unparse(opts[0].value) != "dict(clean_up=clean_up, wait=wait, allow_incomplete=allow_incomplete)":
        raise Refused(fn, "opts passed on by Crop.reap")
    out += ["Definition gen_prog (e : entry) : list stage :=",
            "  match e with",
            "  | ERaw => gen_prog_raw | EToDs => gen_prog_to_ds | ERunner => gen_prog_runner",
            "  | EHarvest => gen_prog_harvest | ESamples => gen_prog_samples",
            "  end.", ""]
    out += ["Definition gen_dispatch (k : farmer_kind) : entry :=",
            "  match k with",
            f"  | FRunner => {ent[disp['Runner']]} | FHarvester => {ent[disp['Harvester']]}",
            f"  | FSampler => {ent[disp['Sampler']]} | FNone => {ent[disp['none']]}",
            "  end.", ""]

    # ---- GenShuffle: which shuffle expression reaches the core runner / the saved settings
    sow_combos = find_function(tree, "Crop.sow_combos")
    sets_self = any(isinstance(s, ast.If) and ast.unparse(s.test) == "shuffle is not None"
                    and [ast.unparse(b) for b in s.body] == ["self.shuffle = shuffle"] for s in sow_combos.body)
    sow_cases = find_function(tree, "Crop.sow_cases")
    cases_sets_self = any("self.shuffle =" in ast.unparse(s) for s in sow_cases.body)
    save_info = find_function(tree, "Crop.save_info")
    saved = None
    for n in ast.walk(save_info):
        if isinstance(n, ast.Dict):
            for k, v in zip(n.keys, n.values):
                if isinstance(k, ast.Constant) and k.value == "shuffle":
                    saved = {"self.shuffle": "SrcSelf", "shuffle": "SrcArg"}.get(ast.unparse(v))
    if saved is None:
        raise Refused(save_info, "shuffle entry of the saved settings")
    sync = find_function(tree, "Crop._sync_info_from_disk")
    sync_restores = any("self.shuffle" in ast.unparse(s) for s in sync.body)
    # the order inside sow_combos: prepare() (which saves the info) must come after self.shuffle is set
    a = sow_combos.args
    pos = a.posonlyargs + a.args
    dmap = dict(zip([x.arg for x in pos][len(pos) - len(a.defaults):], a.defaults))
    dmap.update({x.arg: d for x, d in zip(a.kwonlyargs, a.kw_defaults) if d is not None})
    if "shuffle" not in dmap or not isinstance(dmap["shuffle"], ast.Constant) or dmap["shuffle"].value not in (None, False):
        raise Refused(sow_combos, "default of sow_combos' shuffle parameter")
    if "shuffle" in [x.arg for x in sow_cases.args.args + sow_cases.args.kwonlyargs]:
        raise Refused(sow_cases, "sow_cases has a shuffle parameter")
    sc_default = "None" if dmap["shuffle"].value is None else "(Some 0%Z)"
    out += ["Definition gen_wiring : wiring :=",
            "  {| w_sow_combos_default := " + sc_default + ";",
            "     w_sow_combos_sets_self := " + ("true" if sets_self else "false") + ";",
            "     w_sow_combos_run := " + shuffle_src(find_call(sow_combos, "combo_runner_core")) + ";",
            "     w_sow_cases_sets_self := " + ("true" if cases_sets_self else "false") + ";",
            "     w_sow_cases_run := " + shuffle_src(find_call(sow_cases, "case_runner")) + ";",
            "     w_saved := " + saved + ";",
            "     w_sync_restores := " + ("true" if sync_restores else "false") + ";",
            "     w_reap_raw := " + shuffle_src(find_call(find_function(tree, "Crop.reap_combos"), "combo_runner_core")) + ";",
            "     w_reap_ds := " + shuffle_src(find_call(find_function(tree, "Crop.reap_combos_to_ds"), "combo_runner_to_ds")) + " |}.",
            ""]
    # ---- the saved description is read from disk every time it is needed (no copy is kept on the object: a
    #      re-sow replaces the file, and the reap must see the new description)
    li = find_function(tree, "Crop.load_info")
    lb = [ast.unparse(x) for x in li.body if not (isinstance(x, ast.Expr) and isinstance(x.value, ast.Constant))]
    if lb != ["sfile = os.path.join(self.location, INFO_NM)",
              "if not os.path.isfile(sfile):\n    raise XYZError(\"Settings can't be found at {}.\".format(sfile))\n"
              "else:\n    return read_from_disk(sfile)"]:
        raise Refused(li, "Crop.load_info does not simply read the settings file")
    out += ["Definition gen_info_read_from_disk_each_time : bool := true.", ""]
    # ---- description wiring: the term for combos / cases at the batch planner, the saved settings, the runner
    prepare = find_function(tree, "Crop.prepare")
    pc = find_call(prepare, "self.save_info")
    if {k.arg: ast.unparse(k.value) for k in pc.keywords} != {"combos": "combos", "cases": "cases", "fn_args": "fn_args",
                                                            "constants": "constants"} \
            or any(isinstance(n, ast.Assign) and ast.unparse(n.targets[0]) in ("combos", "cases") for n in ast.walk(prepare)):
        raise Refused(prepare, "prepare does not hand combos / cases / fn_args to save_info unchanged")
    for name, fn, runner in (("gen_sow_combos_sites", sow_combos, "combo_runner_core"),
                             ("gen_sow_cases_sites", sow_cases, "case_runner")):
        sites = descr_sites(fn, runner, save_info)
        out += [f"Definition {name} : descr_sites :=",
                "  mk_descr_sites " + " ".join(sites[k] for k in ("batch_combos", "batch_cases", "saved_combos",
                                                                 "saved_cases", "run_combos", "run_cases")) + ".", ""]
    return "\n".join(out)


def dterm_step(env, stmt):
    """Update the symbolic value of `combos` / `cases` for one statement (None if it does not touch them)."""
    if not (isinstance(stmt, ast.Assign) and len(stmt.targets) == 1 and isinstance(stmt.targets[0], ast.Name)
            and stmt.targets[0].id in ("combos", "cases")):
        for n in ast.walk(stmt):
            if isinstance(n, (ast.Assign, ast.AugAssign, ast.NamedExpr)):
                tg = n.targets if isinstance(n, ast.Assign) else [n.target]
                if any(isinstance(t, ast.Name) and t.id in ("combos", "cases") for t in tg):
                    raise Refused(stmt, "combos / cases rebound inside a compound statement")
        return False
    var, v = stmt.targets[0].id, stmt.value
    t = ast.unparse(v)
    if t in (f"parse_{var}({var})", f"parse_{var}({var}, fn_args)"):
        env[var] = f"(DParse {env[var]})"
    elif var == "combos" and t == "sorted(combos, key=lambda x: x[0])":
        env[var] = f"(DSortByName {env[var]})"
    else:
        raise Refused(stmt, f"unrecognised rewrite of {var}")
    return True


def descr_sites(fn, runner, save_info):
    env = {"combos": "DArg", "cases": "DArg"}
    sites = {}

    def arg_terms(call, e):
        kw = {k.arg: k.value for k in call.keywords}
        res = {}
        for var in ("combos", "cases"):
            if var not in kw:
                res[var] = "DAbsent"
            elif isinstance(kw[var], ast.Name) and kw[var].id == var:
                res[var] = e[var]
            else:
                raise Refused(call, f"{var} argument is not the local variable")
        return res, kw
    for s in fn.body:
        if dterm_step(env, s):
            continue
        calls = [n for n in ast.walk(s) if isinstance(n, ast.Call)]
        for cl in calls:
            f = ast.unparse(cl.func)
            if f == "self.choose_batch_settings":
                r, _ = arg_terms(cl, env)
                sites["batch_combos"], sites["batch_cases"] = r["combos"], r["cases"]
            elif f == "self.prepare":
                r, _ = arg_terms(cl, env)
                # through save_info: its own rewrites of combos / cases, then the saved dict
                e2 = dict(r)
                for st in save_info.body:
                    dterm_step(e2, st)
                saved = {}
                for n in ast.walk(save_info):
                    if isinstance(n, ast.Dict):
                        for k, v in zip(n.keys, n.values):
                            if isinstance(k, ast.Constant) and k.value in ("combos", "cases"):
                                if not (isinstance(v, ast.Name) and v.id == k.value):
                                    raise Refused(v, "saved description entry")
                                saved[k.value] = e2[k.value]
                if set(saved) != {"combos", "cases"}:
                    raise Refused(save_info, "saved settings lack combos / cases")
                sites["saved_combos"], sites["saved_cases"] = saved["combos"], saved["cases"]
            elif f == runner:
                r, kw = arg_terms(cl, env)
                if runner == "case_runner" and ("parse" not in kw or ast.unparse(kw["parse"]) != "False"):
                    r = {k: f"(DParse {v})" for k, v in r.items()}
                sites["run_combos"], sites["run_cases"] = r["combos"], r["cases"]
    missing = [k for k in ("batch_combos", "batch_cases", "saved_combos", "saved_cases", "run_combos", "run_cases")
               if k not in sites]
    if missing:
        raise Refused(fn, f"sites not found: {missing}")
    return sites
