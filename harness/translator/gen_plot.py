"""GenPlot.v: the data path of the classic plots (xyzpy/plot/core.py) as data for Model/PlotFlow.v:
which arrays decide the finite-mask of a drawn series (gen_xy), which arrays that mask is applied to, what the
histogram feeds, the orientation the heat-map mesh is transposed to.  The statements around them (where each
array comes from, the joint broadcast, the selection of one z value) are checked for their shape.  Fail closed."""
import ast
from .pyz import Refused, find_function

SRC = "xyzpy/plot/core.py"
KEY = {"x": "KX", "y": "KY", "c": "KC", "ye": "KYE", "xe": "KXE"}
ATTR = {"x": "x_coo", "y": "y_coo", "c": "c_coo", "ye": "y_err", "xe": "x_err"}


def body_of(fn):
    b = list(fn.body)
    if b and isinstance(b[0], ast.Expr) and isinstance(b[0].value, ast.Constant) and isinstance(b[0].value.value, str):
        b = b[1:]
    return b


def inner_generator(fn, name):
    b = body_of(fn)
    if len(b) != 2 or not isinstance(b[0], ast.FunctionDef) or b[0].name != name \
            or ast.unparse(b[1]) != f"self._gen_xy = {name}":
        raise Refused(fn, f"{fn.name}: expected `def {name}(): ...` followed by `self._gen_xy = {name}`")
    g = b[0]
    if len(g.body) != 1 or not isinstance(g.body[0], ast.For) or g.body[0].orelse:
        raise Refused(g, f"{name}: expected a single loop over the z values")
    return g.body[0]


def data_key(node):
    """data['k'] -> k"""
    if isinstance(node, ast.Subscript) and ast.unparse(node.value) == "data" and isinstance(node.slice, ast.Constant) \
            and node.slice.value in KEY:
        return node.slice.value
    return None


def das_sources(stmts, src, where, z_is_var=False):
    """the das[...] assignments of one branch: each array is read from `src` by the plot's own name for it"""
    got = {}
    for s in stmts:
        for n in ast.walk(s):
            if isinstance(n, ast.Assign) and len(n.targets) == 1 and isinstance(n.targets[0], ast.Subscript) \
                    and ast.unparse(n.targets[0].value) == "das":
                k = n.targets[0].slice.value
                want = f"{src}[self.{ATTR[k]}]"
                if z_is_var:
                    want = "self._ds[self.x_coo]" if k == "x" else "self._ds[z]"
                if ast.unparse(n.value) != want:
                    raise Refused(n, f"gen_xy ({where}): das[{k!r}] is {ast.unparse(n.value)}, expected {want}")
                got[k] = True
    return got


def xy_flow(fn):
    loop = inner_generator(fn, "gen_xy")
    if ast.unparse(loop.target) != "(i, z)" or ast.unparse(loop.iter) != "enumerate(self._z_vals)":
        raise Refused(loop, "gen_xy: the loop is not `for i, z in enumerate(self._z_vals)`")
    stmts = list(loop.body)
    if [ast.unparse(s) for s in stmts[:2]] != ["das = {}", "data = {}"] or ast.unparse(stmts[-1]) != "yield data":
        raise Refused(loop, "gen_xy: frame of the loop body")
    br = stmts[2]
    if not (isinstance(br, ast.If) and ast.unparse(br.test) == "self._multi_var" and len(br.orelse) == 1
            and isinstance(br.orelse[0], ast.If) and ast.unparse(br.orelse[0].test) == "z is not None"
            and br.orelse[0].orelse):
        raise Refused(br, "gen_xy: the three-way choice multi-variable / z value / nothing")
    multi, zb, none = br.body, br.orelse[0].body, br.orelse[0].orelse
    m = das_sources(multi, None, "multi-variable", z_is_var=True)
    if set(m) != {"x", "y"}:
        raise Refused(br, "gen_xy (multi-variable): x and y expected")
    # the selection of one z value: by position (the index of the loop), label selection as the fallback
    sel = zb[0]
    if not (isinstance(sel, ast.Try) and [ast.unparse(x) for x in sel.body] == ["sub_ds = self._ds[{self.z_coo: i}]"]
            and len(sel.handlers) == 1 and ast.unparse(sel.handlers[0].type) == "ValueError"
            and [ast.unparse(x) for x in sel.handlers[0].body] == ["sub_ds = self._ds.loc[{self.z_coo: z}]"]
            and not sel.orelse and not sel.finalbody):
        raise Refused(sel, "gen_xy: selection of the z value (positional, label fallback)")
    zs = das_sources(zb[1:], "sub_ds", "z value")
    ns = das_sources(none, "self._ds", "no z")
    if set(zs) != set(KEY) or set(ns) != set(KEY):
        raise Refused(br, f"gen_xy: arrays read per branch: {sorted(zs)} / {sorted(ns)}")
    rest = stmts[3:-1]
    if not rest or ast.unparse(rest[0]) != "for k, da in zip(das, xr.broadcast(*das.values())):\n    data[k] = da.values.flatten()":
        raise Refused(rest[0] if rest else loop, "gen_xy: the arrays are not broadcast together and flattened")
    terms, masked, mask_done = [], [], False
    for s in rest[1:]:
        t = ast.unparse(s)
        # not_null = np.isfinite(data['x'])  /  not_null &= np.isfinite(data['y'])
        if isinstance(s, (ast.Assign, ast.AugAssign)) and ast.unparse(s.targets[0] if isinstance(s, ast.Assign) else s.target) == "not_null":
            v = s.value
            k = data_key(v.args[0]) if (isinstance(v, ast.Call) and ast.unparse(v.func) == "np.isfinite" and len(v.args) == 1
                                        and not v.keywords) else None
            if k is None or masked:
                raise Refused(s, "gen_xy: mask term")
            if isinstance(s, ast.Assign):
                if terms:
                    raise Refused(s, "gen_xy: the mask is re-initialised")
            elif not (isinstance(s.op, ast.BitAnd) and terms):
                raise Refused(s, "gen_xy: mask terms are not combined with &=")
            terms.append(k)
            continue
        # data['k'] = data['k'][not_null]   (possibly under `if 'k' in data:`)
        inner = s
        if isinstance(s, ast.If) and not s.orelse and len(s.body) == 1 and isinstance(s.test, ast.Compare) \
                and ast.unparse(s.test).endswith(" in data") and isinstance(s.test.left, ast.Constant):
            inner = s.body[0]
            guard = s.test.left.value
        else:
            guard = None
        if isinstance(inner, ast.Assign) and len(inner.targets) == 1 and data_key(inner.targets[0]) is not None \
                and ast.unparse(inner.value) == f"data[{inner.targets[0].slice.value!r}][not_null]":
            k = inner.targets[0].slice.value
            if guard not in (None, k) or (guard is None and k not in ("x", "y")) or not terms:
                raise Refused(s, "gen_xy: masked selection")
            masked.append(k)
            continue
        # jitter (random, not modelled): only x under xjitter, only y under yjitter, after their selection
        if isinstance(s, ast.If) and ast.unparse(s.test) in ("self.xjitter", "self.yjitter") and not s.orelse:
            k = "x" if ast.unparse(s.test) == "self.xjitter" else "y"
            tg = {data_key(n.targets[0]) for n in ast.walk(s) if isinstance(n, ast.Assign)}
            if tg != {k} or k not in masked:
                raise Refused(s, "gen_xy: jitter block")
            continue
        raise Refused(s, f"gen_xy: statement not recognised: {t[:60]}")
    return terms, masked


def hist_flow(fn):
    loop = inner_generator(fn, "gen_x")
    if ast.unparse(loop.target) != "z" or ast.unparse(loop.iter) != "self._z_vals":
        raise Refused(loop, "gen_x: the loop is not `for z in self._z_vals`")
    want = ("if self._multi_var:\n    x = self._ds[z].values.flatten()\n"
            "elif z is not None:\n    sub_ds = self._ds.loc[{self.z_coo: z}]\n    x = sub_ds[self.x_coo].values.flatten()\n"
            "else:\n    x = self._ds[self.x_coo].values.flatten()")
    if len(loop.body) != 2 or ast.unparse(loop.body[0]) != want:
        raise Refused(loop, "gen_x: where the values of one series come from")
    y = ast.unparse(loop.body[1])
    if y == "yield {'x': x[np.isfinite(x)]}":
        return ["x"]
    if y == "yield {'x': x}":
        return []
    raise Refused(loop.body[1], "gen_x: what is yielded")


def mesh_flow(fn):
    txt = [ast.unparse(s) for s in body_of(fn)]
    want_tail = ["self._heatmap_x = self._ds[self.x_coo].values.flatten()",
                 "self._heatmap_y = self._ds[self.y_coo].values.flatten()"]
    if txt[:1] != ["self._multi_var = False"] or txt[1:3] != want_tail:
        raise Refused(fn, "prepare_heatmap_data: coordinates of the mesh")
    order = None
    for s in body_of(fn):
        if isinstance(s, ast.Assign) and ast.unparse(s.targets[0]) == "self._heatmap_var":
            for a, b in (("y", "x"), ("x", "y")):
                if ast.unparse(s.value) == f"ma.masked_invalid(self._ds[self.z_coo].squeeze().transpose(self.{a}_coo, self.{b}_coo).values)":
                    order = [a, b]
            if order is None:
                raise Refused(s, "prepare_heatmap_data: the mesh is not masked_invalid(z.squeeze().transpose(.., ..).values)")
    if order is None:
        raise Refused(fn, "prepare_heatmap_data: no mesh assignment")
    return order


def color_norm_shape(fn):
    """which quantity the colour scale is taken from and in which order its limits are decided"""
    txt = [ast.unparse(s) for s in body_of(fn)]
    need = ["coo = self.z_coo if self.c_coo is None else self.c_coo",
            "if self.vmin is None:\n    self.vmin = self._zmin",
            "if self.vmax is None:\n    self.vmax = self._zmax",
            "self._color_norm = getattr(mpl.colors, 'LogNorm' if self.colormap_log else 'Normalize')(vmin=self.vmin, vmax=self.vmax)"]
    for n in need:
        if n not in txt:
            raise Refused(fn, f"calc_color_norm: statement missing: {n[:50]}")
    num = [s for s in body_of(fn) if isinstance(s, ast.If) and "dtype.kind in" in ast.unparse(s.test)]
    want = ["da = self._ds[coo]",
            "if da.dtype.kind == 'f':\n    da = da.where(np.isfinite(da))",
            "self._zmin = self.zlims[0]",
            "if self._zmin is None:\n    self._zmin = da.min().values.item(0)",
            "self._zmax = self.zlims[1]",
            "if self._zmax is None:\n    self._zmax = da.max().values.item(0)"]
    if len(num) != 1 or [ast.unparse(s) for s in num[0].body] != want \
            or [ast.unparse(s) for s in num[0].orelse] != ["self._zmin, self._zmax = (0.0, 1.0)"]:
        raise Refused(fn, "calc_color_norm: limits of a numeric quantity (zlims, else the finite range of the whole variable)")


def line_color_sources(fn):
    b = body_of(fn)
    want = ("if self.c_coo is not None:\n    rvals = (self._color_norm(z) for z in self._c_cols)\n"
            "elif self.z_coo is not None and np.isreal(self._z_vals[0]):\n    rvals = (self._color_norm(z) for z in self._z_vals)\n"
            "else:\n    rvals = np.linspace(0, 1, len(self._z_vals))")
    txt = [ast.unparse(s) for s in b]
    if txt[0] != "self.calc_color_norm()" or want not in txt or "self._cols = (self.cmap(rval) for rval in rvals)" not in txt:
        raise Refused(fn, "calc_line_colors: colour of a series = colour map at the normalised c value / z value / even spacing")


def generate(repo):
    tree = ast.parse(open(f"{repo}/{SRC}").read())
    terms, masked = xy_flow(find_function(tree, "Plotter.prepare_xy_vals_lineplot"))
    hist = hist_flow(find_function(tree, "Plotter.prepare_x_vals_histogram"))
    order = mesh_flow(find_function(tree, "Plotter.prepare_heatmap_data"))
    color_norm_shape(find_function(tree, "Plotter.calc_color_norm"))
    line_color_sources(find_function(tree, "Plotter.calc_line_colors"))
    from . import pins
    n = pins.check(repo, SRC)
    # the array -> Dataset conversion behind the auto_* variants (which array is transposed when y_z is given as
    # (x, z); the variants are generated with a one-dimensional x only)
    n += pins.check(repo, "xyzpy/manage.py")

    def keys(l):
        return "[" + "; ".join(KEY[k] for k in l) + "]"
    out = ["(* GENERATED by harness/translator/gen_plot.py from xyzpy/plot/core.py -- do not edit *)",
           "From XV Require Import Prelude PlotFlow.", "",
           f"Definition gen_plot_flow : plot_flow := mk_plot_flow {keys(terms)} {keys(masked)} {keys(hist)} {keys(order)}.",
           "",
           "(* shape checks that passed: the three-way source choice of gen_xy (multi-variable / positional z selection",
           "   with label fallback / no z), the joint xr.broadcast + flatten, gen_x's sources, the colour-scale limits",
           "   (user vmin/vmax, else zlims, else the finite range of the whole c or z variable), colour of a series *)",
           "Definition gen_plot_sources_checked : bool := true.",
           f"Definition gen_plot_helpers_pinned : bool := true.   (* {n} functions *)", ""]
    return "\n".join(out)
