"""Fail-closed translator from a whitelisted subset of Python (as `ast`) to Gallina.

The subset is the integer / boolean / optional-integer decision logic found in
xyzpy's batching, reaping and clean-up code:

  expressions : int literals, names and ``self.<field>`` bound in the
                environment, ``+ - * //``, unary ``-``/``not``, ``abs min max``,
                comparisons (also chained), ``and``/``or``, ``int(<bool>)``,
                ``math.ceil(a / b)`` (exactly this shape), ``divmod``,
                ``isinstance(x, int)`` (typed model: true), ``x is None``,
                ``x in (a, b, ...)``, per-unit special calls
  statements  : assignment (also tuple targets for divmod, augmented), if / elif /
                else, raise of a known exception class, return, docstrings, pass

Every other node raises ``Refused`` (never a guess).  A block is translated in
continuation-passing style into one Gallina expression of type ``res T``; tests
against ``None`` on optional fields become ``match`` so that both arms know
whether the field is an integer.
"""
import ast


class Refused(Exception):
    def __init__(self, node, why=""):
        self.node = node
        self.lineno = getattr(node, "lineno", None)
        self.why = why
        super().__init__(f"line {self.lineno}: refused {type(node).__name__} {why}: "
                         f"{ast.unparse(node) if isinstance(node, ast.AST) else node}")


ERR_TAGS = {"ValueError": "E_Value", "TypeError": "E_Type", "XYZError": "E_XYZ"}
OPT = {"optZ": "Z", "optB": "bool"}      # optional types and what they hold


def key_of(node):
    """Environment key of a name-like node, or None."""
    if isinstance(node, ast.Name):
        return node.id
    if isinstance(node, ast.Attribute) and isinstance(node.value, ast.Name):
        return f"{node.value.id}.{node.attr}"
    return None


class Env:
    """Immutable mapping key -> (coq expression, type).  Types: Z, bool, optZ, none, float."""

    def __init__(self, d=None, counter=None):
        self.d = dict(d or {})
        self.counter = counter if counter is not None else [0]

    def get(self, k):
        return self.d.get(k)

    def set(self, k, coq, ty):
        d = dict(self.d)
        d[k] = (coq, ty)
        return Env(d, self.counter)

    def fresh(self, base):
        self.counter[0] += 1
        base = "".join(c if c.isalnum() else "_" for c in base).strip("_")
        return f"{base}_{self.counter[0]}"


class Translator:
    def __init__(self, special_calls=None, float_ops=None):
        # special_calls: list of functions (node, tr, env) -> (coq, ty) or None
        self.special_calls = special_calls or []
        self.float_ops = float_ops

    # ------------------------------------------------------------ expressions
    def expr(self, n, env):
        for sc in self.special_calls:
            r = sc(n, self, env)
            if r is not None:
                return r
        if isinstance(n, ast.Constant):
            if n.value is True:
                return "true", "bool"
            if n.value is False:
                return "false", "bool"
            if n.value is None:
                return "None", "none"
            if isinstance(n.value, int):
                return (f"({n.value})" if n.value < 0 else f"{n.value}"), "Z"
            raise Refused(n, "constant")
        k = key_of(n)
        if k is not None:
            v = env.get(k)
            if v is None:
                raise Refused(n, "unbound name")
            return v
        if isinstance(n, ast.UnaryOp):
            c, t = self.expr(n.operand, env)
            if isinstance(n.op, ast.USub) and t == "Z":
                return f"(- {c})", "Z"
            if isinstance(n.op, ast.Not) and t == "bool":
                return f"(negb {c})", "bool"
            raise Refused(n, "unary")
        if isinstance(n, ast.BinOp):
            a, ta = self.expr(n.left, env)
            b, tb = self.expr(n.right, env)
            if ta == "Z" and tb == "Z":
                ops = {ast.Add: "+", ast.Sub: "-", ast.Mult: "*", ast.FloorDiv: "/", ast.Mod: "mod"}
                for cls, sym in ops.items():
                    if isinstance(n.op, cls):
                        return f"({a} {sym} {b})", "Z"
            raise Refused(n, f"binop on {ta},{tb}")
        if isinstance(n, ast.BoolOp):
            parts = [self.expr(v, env) for v in n.values]
            if any(t != "bool" for _, t in parts):
                raise Refused(n, "boolop on non-bool")
            op = "&&" if isinstance(n.op, ast.And) else "||"
            out = parts[0][0]
            for c, _ in parts[1:]:
                out = f"({out} {op} {c})"
            return out, "bool"
        if isinstance(n, ast.Compare):
            return self.compare(n, env)
        if isinstance(n, ast.Call):
            return self.call(n, env)
        raise Refused(n, "expression")

    def compare(self, n, env):
        operands = [n.left] + list(n.comparators)
        pieces = []
        for lhs, op, rhs in zip(operands, n.ops, operands[1:]):
            if isinstance(op, (ast.Is, ast.IsNot)):
                if not (isinstance(rhs, ast.Constant) and rhs.value is None):
                    raise Refused(n, "is-compare with non-None")
                a, ta = self.expr(lhs, env)
                if ta in OPT:
                    c = f"(match {a} with None => true | Some _ => false end)"
                elif ta == "none":
                    c = "true"
                elif ta in ("Z", "bool"):
                    c = "false"
                else:
                    raise Refused(n, "is None on " + ta)
                if isinstance(op, ast.IsNot):
                    c = f"(negb {c})"
                pieces.append(c)
                continue
            if isinstance(op, (ast.In, ast.NotIn)):
                a, ta = self.expr(lhs, env)
                if not isinstance(rhs, (ast.Tuple, ast.List)) or ta != "Z":
                    raise Refused(n, "in")
                alts = []
                for e in rhs.elts:
                    b, tb = self.expr(e, env)
                    if tb != "Z":
                        raise Refused(n, "in: element type")
                    alts.append(f"({a} =? {b})")
                c = "(" + " || ".join(alts) + ")" if alts else "false"
                if isinstance(op, ast.NotIn):
                    c = f"(negb {c})"
                pieces.append(c)
                continue
            a, ta = self.expr(lhs, env)
            b, tb = self.expr(rhs, env)
            if ta == "Z" and tb == "Z":
                sym = {ast.Lt: "<?", ast.LtE: "<=?", ast.Eq: "=?", ast.Gt: ">?", ast.GtE: ">=?"}
                for cls, s in sym.items():
                    if isinstance(op, cls):
                        pieces.append(f"({a} {s} {b})")
                        break
                else:
                    if isinstance(op, ast.NotEq):
                        pieces.append(f"(negb ({a} =? {b}))")
                    else:
                        raise Refused(n, "comparison operator")
            elif ta == "bool" and tb == "bool" and isinstance(op, ast.Eq):
                pieces.append(f"(Bool.eqb {a} {b})")
            else:
                raise Refused(n, f"compare {ta} with {tb}")
        out = pieces[0]
        for p in pieces[1:]:
            out = f"({out} && {p})"
        return out, "bool"

    def call(self, n, env):
        f = n.func
        fname = f.id if isinstance(f, ast.Name) else None
        if n.keywords:
            raise Refused(n, "keyword arguments")
        if fname == "int" and len(n.args) == 1:
            c, t = self.expr(n.args[0], env)
            if t == "bool":
                return f"(b2z {c})", "Z"
            if t == "Z":
                return c, "Z"
            raise Refused(n, "int() of " + t)
        if fname in ("min", "max") and len(n.args) == 2:
            a, ta = self.expr(n.args[0], env)
            b, tb = self.expr(n.args[1], env)
            if ta == tb == "Z":
                return f"(Z.{fname} {a} {b})", "Z"
            raise Refused(n, "min/max types")
        if fname == "abs" and len(n.args) == 1:
            a, ta = self.expr(n.args[0], env)
            if ta == "Z":
                return f"(Z.abs {a})", "Z"
            raise Refused(n, "abs type")
        if fname == "isinstance" and len(n.args) == 2:
            a, ta = self.expr(n.args[0], env)
            if isinstance(n.args[1], ast.Name) and n.args[1].id == "int" and ta == "Z":
                return "true", "bool"
            raise Refused(n, "isinstance")
        if (isinstance(f, ast.Attribute) and isinstance(f.value, ast.Name)
                and f.value.id == "math" and f.attr == "ceil" and len(n.args) == 1
                and isinstance(n.args[0], ast.BinOp) and isinstance(n.args[0].op, ast.Div)):
            a, ta = self.expr(n.args[0].left, env)
            b, tb = self.expr(n.args[0].right, env)
            if ta == tb == "Z":
                return f"(cdiv {a} {b})", "Z"
        raise Refused(n, "call")

    # ------------------------------------------------------------- conditions
    def cond(self, test, env, then_k, else_k):
        """Emit code branching on `test`; arms get environments refined by None-tests."""
        if isinstance(test, ast.BoolOp) and isinstance(test.op, ast.And):
            def chain(i, e):
                if i == len(test.values):
                    return then_k(e)
                return self.cond(test.values[i], e, lambda e2: chain(i + 1, e2), else_k)
            return chain(0, env)
        if isinstance(test, ast.BoolOp) and isinstance(test.op, ast.Or):
            def chain(i, e):
                if i == len(test.values):
                    return else_k(e)
                return self.cond(test.values[i], e, then_k, lambda e2: chain(i + 1, e2))
            return chain(0, env)
        if isinstance(test, ast.UnaryOp) and isinstance(test.op, ast.Not):
            return self.cond(test.operand, env, else_k, then_k)
        if (isinstance(test, ast.Compare) and len(test.ops) == 1
                and isinstance(test.ops[0], (ast.Is, ast.IsNot))
                and isinstance(test.comparators[0], ast.Constant)
                and test.comparators[0].value is None):
            k = key_of(test.left)
            v = env.get(k) if k else None
            if v is not None and v[1] in ("none", "Z", "bool"):
                # statically known: only one arm is reachable
                is_none = v[1] == "none"
                if isinstance(test.ops[0], ast.IsNot):
                    is_none = not is_none
                return then_k(env) if is_none else else_k(env)
            if v is not None and v[1] in OPT:
                inner = env.fresh(k + "_v")
                none_arm = env.set(k, "None", "none")
                some_arm = env.set(k, inner, OPT[v[1]])
                if isinstance(test.ops[0], ast.Is):
                    a, b = then_k(none_arm), else_k(some_arm)
                else:
                    a, b = else_k(none_arm), then_k(some_arm)
                return f"(match {v[0]} with\n | None => {a}\n | Some {inner} => {b}\n end)"
        c, t = self.expr(test, env)
        if t != "bool":
            raise Refused(test, "condition of type " + t)
        return f"(if {c}\n then {then_k(env)}\n else {else_k(env)})"

    # ------------------------------------------------------------- statements
    def block(self, stmts, env, k):
        """Translate statements; `k(env)` is the code for falling off the end."""
        if not stmts:
            return k(env)
        s, rest = stmts[0], stmts[1:]
        cont = lambda e: self.block(rest, e, k)
        if isinstance(s, ast.Expr) and isinstance(s.value, ast.Constant) and isinstance(s.value.value, str):
            return cont(env)
        if isinstance(s, ast.Pass):
            return cont(env)
        if isinstance(s, ast.Raise):
            exc = s.exc
            name = None
            if isinstance(exc, ast.Call) and isinstance(exc.func, ast.Name):
                name = exc.func.id
            elif isinstance(exc, ast.Name):
                name = exc.id
            if name not in ERR_TAGS:
                raise Refused(s, "raise of unknown exception")
            return f"(Err {ERR_TAGS[name]})"
        if isinstance(s, ast.Return):
            return self.ret(s, env)
        if isinstance(s, ast.If):
            return self.cond(s.test, env,
                             lambda e: self.block(s.body, e, cont),
                             lambda e: self.block(s.orelse, e, cont))
        if isinstance(s, ast.Assign) and len(s.targets) == 1:
            return self.assign(s.targets[0], s.value, env, cont, s)
        if isinstance(s, ast.AugAssign):
            binop = ast.BinOp(left=s.target, op=s.op, right=s.value)
            ast.copy_location(binop, s)
            return self.assign(s.target, binop, env, cont, s)
        raise Refused(s, "statement")

    def ret(self, s, env):
        raise Refused(s, "return not supported in this unit")

    def assign(self, target, value, env, cont, stmt):
        if isinstance(target, ast.Tuple):
            if (isinstance(value, ast.Call) and isinstance(value.func, ast.Name)
                    and value.func.id == "divmod" and len(target.elts) == 2
                    and len(value.args) == 2):
                a, ta = self.expr(value.args[0], env)
                b, tb = self.expr(value.args[1], env)
                if ta != "Z" or tb != "Z":
                    raise Refused(stmt, "divmod types")
                k0, k1 = key_of(target.elts[0]), key_of(target.elts[1])
                if k0 is None or k1 is None:
                    raise Refused(stmt, "divmod targets")
                q, r = env.fresh(k0), env.fresh(k1)
                e2 = env.set(k0, q, "Z").set(k1, r, "Z")
                return f"(let {q} := ({a} / {b}) in\n let {r} := ({a} mod {b}) in\n {cont(e2)})"
            if isinstance(value, ast.Tuple) and len(value.elts) == len(target.elts):
                vals = [self.expr(v, env) for v in value.elts]
                e2 = env
                out = ""
                for t, (c, ty) in zip(target.elts, vals):
                    kk = key_of(t)
                    if kk is None:
                        raise Refused(stmt, "tuple target")
                    nm = env.fresh(kk)
                    out += f"let {nm} := {c} in\n "
                    e2 = e2.set(kk, nm, ty)
                return f"({out}{cont(e2)})"
            raise Refused(stmt, "tuple assignment")
        k = key_of(target)
        if k is None:
            raise Refused(stmt, "assignment target")
        c, ty = self.expr(value, env)
        if ty in ("none", "placeholder"):
            # not a Gallina value: only its provenance is tracked
            return cont(env.set(k, c, ty))
        nm = env.fresh(k)
        return f"(let {nm} := {c} in\n {cont(env.set(k, nm, ty))})"


def find_function(tree, qualname):
    """Locate `Class.method` or `function` in a module AST."""
    parts = qualname.split(".")
    body = tree.body
    node = None
    for p in parts:
        node = None
        for n in body:
            if isinstance(n, (ast.FunctionDef, ast.ClassDef)) and n.name == p:
                node = n
                break
        if node is None:
            raise Refused(tree, f"cannot find {qualname}")
        body = node.body
    return node


def as_opt(coq, ty):
    """Coerce an environment entry to `option Z`."""
    if ty == "optZ":
        return coq
    if ty == "Z":
        return f"(Some {coq})"
    if ty == "none":
        return "None"
    raise ValueError(ty)
