"""GenTemplates.v: (a) every cluster-script template constant of cropping.py as a Coq string,
(b) the keys gen_cluster_script supplies to str.format, (c) the selection logic of
gen_cluster_script (which batch ids, which template pieces, the array range, the single-mode
dynamic ids, the PBS single-element rewrite) as a Gallina function over the enumerations of
Model/Script.v, (d) what the command line grower and Crop.grow_missing call.

Statements are classified by shape; anything that is not recognised is refused (fail closed)."""
import ast
import re

from .pyz import Refused, find_function

SRC = "xyzpy/gen/cropping.py"
CLI = "xyzpy/gen/xyzpy_grow_cli.py"

TEMPLATE_NAME = re.compile(r"^_(SGE|PBS|SLURM|BASE|CLUSTER|ARRAY)(_[A-Z0-9_]+)?$")
PIECES = {  # enumerator of Model/Script.v -> constant of cropping.py
    "PSgeHeader": "_SGE_HEADER", "PSgeArrayHeader": "_SGE_ARRAY_HEADER",
    "PPbsHeader": "_PBS_HEADER", "PPbsArrayHeader": "_PBS_ARRAY_HEADER",
    "PSlurmHeader": "_SLURM_HEADER", "PSlurmArrayHeader": "_SLURM_ARRAY_HEADER",
    "PBase": "_BASE",
    "PSgeAll": "_CLUSTER_SGE_GROW_ALL_SCRIPT", "PPbsAll": "_CLUSTER_PBS_GROW_ALL_SCRIPT",
    "PSlurmAll": "_CLUSTER_SLURM_GROW_ALL_SCRIPT",
    "PSgePartial": "_CLUSTER_SGE_GROW_PARTIAL_SCRIPT", "PPbsPartial": "_CLUSTER_PBS_GROW_PARTIAL_SCRIPT",
    "PSlurmPartial": "_CLUSTER_SLURM_GROW_PARTIAL_SCRIPT",
    "PSingle": "_BASE_CLUSTER_GROW_SINGLE", "PEnd": "_BASE_CLUSTER_SCRIPT_END",
}
CONST_PIECE = {v: k for k, v in PIECES.items()}
ENUMS = {  # python variable -> (gallina variable, {python constant: constructor})
    "scheduler": ("sc", {"sge": "SGE", "pbs": "PBS", "slurm": "SLURM"}),
    "mode": ("md", {"array": "MArray", "single": "MSingle"}),
    "array_mode": ("am", {"all": "AAll", "partial": "APartial"}),
}
EQB = {"scheduler": "sched_eqb", "mode": "mode_eqb", "array_mode": "amode_eqb"}
DYNAMIC = "crop.missing_results()"


# ------------------------------------------------------------------ strings
def coq_string(s, node=None):
    """Python str -> Gallina term of type string (printable ASCII and newlines only)."""
    for ch in s:
        if ch != "\n" and not (32 <= ord(ch) <= 126):
            raise Refused(node if node is not None else s, f"character {ch!r} in a template")
    parts = s.split("\n")
    terms = []
    for i, line in enumerate(parts):
        last = i == len(parts) - 1
        lit = '"' + line.replace('"', '""') + '"'
        if not last:
            terms.append(lit if line else None)
            terms.append("nl")
        elif line:
            terms.append(lit)
    terms = [t for t in terms if t is not None]
    if not terms:
        return '""'
    return "(" + " +++ ".join(terms) + ")"


def template_value(node, known):
    """String literal / `+` of earlier constants and literals -> (python value, gallina term)."""
    if isinstance(node, ast.Constant) and isinstance(node.value, str):
        return node.value, coq_string(node.value, node)
    if isinstance(node, ast.Name) and node.id in known:
        return known[node.id], "t" + node.id
    if isinstance(node, ast.BinOp) and isinstance(node.op, ast.Add):
        a, ca = template_value(node.left, known)
        b, cb = template_value(node.right, known)
        return a + b, f"({ca} +++ {cb})"
    raise Refused(node, "template constant is not a string literal / concatenation of earlier constants")


def const_str(node, what):
    if isinstance(node, ast.Constant) and isinstance(node.value, str):
        return node.value
    raise Refused(node, f"{what}: expected a string literal")


# ------------------------------------------------------------------ expressions of the selection
class Sel:
    """Translates the statements of gen_cluster_script that follow the `opts = {...}` literal."""

    VARS = ("ids", "am", "run_start", "run_stop", "pieces", "rewrite", "batch_ids")

    def __init__(self):
        self.rewrite_strings = None
        self.dynamic_seen = False

    # -- which gallina state variable a python assignment target denotes
    def target(self, t):
        if isinstance(t, ast.Name) and t.id == "array_mode":
            return "am"
        if isinstance(t, ast.Name) and t.id == "script":
            return "pieces"
        if isinstance(t, ast.Name) and t.id == "batch_ids":
            return "batch_ids"
        if (isinstance(t, ast.Subscript) and isinstance(t.value, ast.Name) and t.value.id == "opts"
                and isinstance(t.slice, ast.Constant)):
            return {"batch_ids": "ids", "run_start": "run_start", "run_stop": "run_stop"}.get(t.slice.value) \
                or self.refuse(t, "assignment to an unknown opts key")
        self.refuse(t, "assignment target")

    @staticmethod
    def refuse(node, why):
        raise Refused(node, why)

    def need(self, var, defined, node):
        if var not in defined:
            self.refuse(node, f"{var} may be read before it is assigned")

    # -- integer expressions
    def zexpr(self, n, defined):
        if isinstance(n, ast.Constant) and isinstance(n.value, int) and not isinstance(n.value, bool):
            return f"({n.value})" if n.value < 0 else str(n.value)
        txt = ast.unparse(n)
        if txt == "crop.num_batches":
            return "num_batches"
        if txt == "crop.num_results":
            return "num_results"
        if txt == "len(opts['batch_ids'])":
            self.need("ids", defined, n)
            return "(ids_len ids)"
        if isinstance(n, ast.BinOp):
            op = {ast.Add: "+", ast.Sub: "-", ast.Mult: "*"}.get(type(n.op))
            if op is None:
                self.refuse(n, "integer operator")
            return f"({self.zexpr(n.left, defined)} {op} {self.zexpr(n.right, defined)})"
        if isinstance(n, ast.UnaryOp) and isinstance(n.op, ast.USub):
            return f"(- {self.zexpr(n.operand, defined)})"
        self.refuse(n, "integer expression")

    # -- boolean expressions
    def enum_test(self, n):
        """`var == "const"` on one of the enumerated variables -> (var, const, negated) or None."""
        if (isinstance(n, ast.Compare) and len(n.ops) == 1 and isinstance(n.ops[0], (ast.Eq, ast.NotEq))
                and isinstance(n.left, ast.Name) and n.left.id in ENUMS
                and isinstance(n.comparators[0], ast.Constant) and isinstance(n.comparators[0].value, str)):
            var, const = n.left.id, n.comparators[0].value
            if const not in ENUMS[var][1]:
                self.refuse(n, f"{var} compared with an unknown constant")
            return var, const, isinstance(n.ops[0], ast.NotEq)
        return None

    def cond(self, n, defined):
        if isinstance(n, ast.Constant) and n.value is True:
            return "true"
        if isinstance(n, ast.Constant) and n.value is False:
            return "false"
        if isinstance(n, ast.BoolOp):
            op = "&&" if isinstance(n.op, ast.And) else "||"
            return "(" + f" {op} ".join(self.cond(v, defined) for v in n.values) + ")"
        if isinstance(n, ast.UnaryOp) and isinstance(n.op, ast.Not):
            return f"(negb {self.cond(n.operand, defined)})"
        if ast.unparse(n) == "isinstance(batch_ids, int)":
            self.need("batch_ids", defined, n)
            return "(arg_is_int batch_ids)"
        et = self.enum_test(n)
        if et:
            var, const, neg = et
            if var == "array_mode":
                self.need("am", defined, n)
            c = f"({EQB[var]} {ENUMS[var][0]} {ENUMS[var][1][const]})"
            return f"(negb {c})" if neg else c
        if isinstance(n, ast.Compare) and len(n.ops) == 1:
            op, lhs, rhs = n.ops[0], n.left, n.comparators[0]
            if isinstance(op, (ast.Is, ast.IsNot)):
                if ast.unparse(lhs) == "batch_ids" and isinstance(rhs, ast.Constant) and rhs.value is None:
                    return "(negb (arg_is_some batch_ids))" if isinstance(op, ast.Is) else "(arg_is_some batch_ids)"
                self.refuse(n, "identity test")
            sym = {ast.Eq: "=?", ast.Lt: "<?", ast.LtE: "<=?", ast.Gt: ">?", ast.GtE: ">=?"}.get(type(op))
            if isinstance(op, ast.NotEq):
                return f"(negb ({self.zexpr(lhs, defined)} =? {self.zexpr(rhs, defined)}))"
            if sym is None:
                self.refuse(n, "comparison operator")
            return f"({self.zexpr(lhs, defined)} {sym} {self.zexpr(rhs, defined)})"
        self.refuse(n, "condition")

    # -- the value stored under opts["batch_ids"]
    def ids_value(self, n, defined):
        txt = ast.unparse(n)
        if txt in ("tuple(batch_ids)", "tuple((int(i) for i in batch_ids))"):
            return "(IdsList (arg_ids batch_ids))"
        if txt == "crop.missing_results()":
            return "(IdsList missing)"
        if isinstance(n, ast.Call) and ast.unparse(n.func) == "range" and len(n.args) == 2 and not n.keywords:
            return f"(IdsList (zrange {self.zexpr(n.args[0], defined)} {self.zexpr(n.args[1], defined)}))"
        if isinstance(n, ast.Constant) and isinstance(n.value, str):
            if n.value != DYNAMIC:
                self.refuse(n, "batch_ids expression text is not crop.missing_results()")
            self.dynamic_seen = True
            return "IdsDynamic"
        self.refuse(n, "value stored under opts['batch_ids']")

    # -- statements
    def assigned(self, stmts):
        out = []
        for s in stmts:
            if isinstance(s, ast.Assign) and len(s.targets) == 1:
                v = self.classify_assign(s)[0]
                if v and v not in out:
                    out.append(v)
            elif isinstance(s, ast.AugAssign):
                v = self.target(s.target)
                if v not in out:
                    out.append(v)
            elif isinstance(s, ast.If):
                for v in self.assigned(s.body) + self.assigned(s.orelse):
                    if v not in out:
                        out.append(v)
        return out

    def classify_assign(self, s):
        """-> (state variable or None, kind)"""
        txt = ast.unparse(s)
        if txt == "script = script.format(**opts)":
            return None, "format"
        if (isinstance(s.targets[0], ast.Name) and s.targets[0].id == "script"
                and isinstance(s.value, ast.Call) and ast.unparse(s.value.func).startswith("script.replace")):
            return "rewrite", "replace"
        return self.target(s.targets[0]), "plain"

    def stmt(self, s, defined):
        """-> (list of `let ... in` lines, new defined set)"""
        if isinstance(s, ast.Expr) and isinstance(s.value, ast.Constant) and isinstance(s.value.value, str):
            return [], defined
        if isinstance(s, ast.Assign) and len(s.targets) == 1:
            var, kind = self.classify_assign(s)
            if kind == "format":
                self.refuse(s, "script.format(**opts) inside a branch")
            if kind == "replace":
                return [f"let rewrite := {self.replace_call(s)} in"], defined | {"rewrite"}
            if var == "ids":
                return [f"let ids := {self.ids_value(s.value, defined)} in"], defined | {"ids"}
            if var == "am":
                c = const_str(s.value, "array_mode")
                if c not in ENUMS["array_mode"][1]:
                    self.refuse(s, "array_mode value")
                return [f"let am := {ENUMS['array_mode'][1][c]} in"], defined | {"am"}
            if var in ("run_start", "run_stop"):
                return [f"let {var} := Some {self.zexpr(s.value, defined)} in"], defined | {var}
            if var == "pieces":
                return [f"let pieces := [{self.piece(s.value)}] in"], defined | {"pieces"}
            if var == "batch_ids":
                # only the normalisation of the int spelling: batch_ids = (batch_ids,)
                if ast.unparse(s.value) != "(batch_ids,)":
                    self.refuse(s, "batch_ids reassigned to something other than (batch_ids,)")
                return ["let batch_ids := arg_singleton batch_ids in"], defined
        if isinstance(s, ast.AugAssign) and isinstance(s.op, ast.Add) and self.target(s.target) == "pieces":
            self.need("pieces", defined, s)
            return [f"let pieces := app pieces [{self.piece(s.value)}] in"], defined
        if isinstance(s, ast.If):
            return self.if_stmt(s, defined)
        self.refuse(s, "unrecognised statement in the selection part of gen_cluster_script")

    def piece(self, n):
        if isinstance(n, ast.Name) and n.id in CONST_PIECE:
            return CONST_PIECE[n.id]
        self.refuse(n, "script is built from something that is not a known template constant")

    def replace_call(self, s):
        """script = script.replace(A, "").replace(B, C)"""
        outer = s.value
        if not (isinstance(outer, ast.Call) and isinstance(outer.func, ast.Attribute) and outer.func.attr == "replace"
                and len(outer.args) == 2 and not outer.keywords):
            self.refuse(s, "rewrite shape")
        inner = outer.func.value
        if not (isinstance(inner, ast.Call) and ast.unparse(inner.func) == "script.replace"
                and len(inner.args) == 2 and not inner.keywords):
            self.refuse(s, "rewrite shape")
        drop, empty = const_str(inner.args[0], "rewrite"), const_str(inner.args[1], "rewrite")
        var, val = const_str(outer.args[0], "rewrite"), const_str(outer.args[1], "rewrite")
        if empty != "":
            self.refuse(s, "the first replace of the rewrite does not delete its line")
        if self.rewrite_strings is not None:
            self.refuse(s, "second rewrite")
        self.rewrite_strings = (drop, var, val)
        return "true"

    def block(self, stmts, defined, outs):
        """Gallina expression: the statements as nested lets, ending in the tuple of [outs]."""
        lines = []
        for s in stmts:
            ls, defined = self.stmt(s, defined)
            lines += ls
        for v in outs:
            self.need(v, defined, stmts[0] if stmts else ast.Pass())
        tup = outs[0] if len(outs) == 1 else "(" + ", ".join(outs) + ")"
        return "(" + " ".join(lines + [tup]) + ")", defined

    def if_stmt(self, s, defined):
        outs = self.assigned([s])
        if not outs:
            self.refuse(s, "if-statement without effect on the selection")
        pat = outs[0] if len(outs) == 1 else "'(" + ", ".join(outs) + ")"
        chain = self.enum_chain(s)
        if chain is not None:
            var, cases, default = chain
            arms, after = [], None
            for const, ctor in ENUMS[var][1].items():
                body = cases.get(const, default)
                expr, d = self.block(body if body is not None else [], defined, outs)
                arms.append(f"| {ctor} => {expr}")
                after = d if after is None else (after & d)
            if var == "array_mode":
                self.need("am", defined, s)
            return [f"let {pat} := (match {ENUMS[var][0]} with " + " ".join(arms) + " end) in"], after | defined
        c = self.cond(s.test, defined)
        e1, d1 = self.block(s.body, defined, outs)
        e2, d2 = self.block(s.orelse, defined, outs)
        return [f"let {pat} := (if {c} then {e1} else {e2}) in"], (d1 & d2) | defined

    def enum_chain(self, s):
        """if v == "a": ... elif v == "b": ... [else: ...] on one enumerated variable."""
        et = self.enum_test(s.test)
        if not et or et[2]:
            return None
        var, cases, node = et[0], {}, s
        while True:
            et = self.enum_test(node.test)
            if not et or et[2] or et[0] != var:
                return None
            if et[1] in cases:
                self.refuse(node, "duplicate case")
            cases[et[1]] = node.body
            if len(node.orelse) == 1 and isinstance(node.orelse[0], ast.If) and self.enum_test(node.orelse[0].test) \
                    and self.enum_test(node.orelse[0].test)[0] == var:
                node = node.orelse[0]
                continue
            return var, cases, (node.orelse or None)


def selection(fn):
    """Gallina definition of gen_select and the strings of the rewrite."""
    body = fn.body
    idx = [i for i, s in enumerate(body) if isinstance(s, ast.Assign) and ast.unparse(s.targets[0]) == "opts"]
    if len(idx) != 1 or not isinstance(body[idx[0]].value, ast.Dict):
        raise Refused(fn, "expected exactly one `opts = {...}` literal")
    opts = body[idx[0]]
    keys = [const_str(k, "opts key") for k in opts.value.keys]
    pre, tail = body[:idx[0]], body[idx[0] + 1:]
    # the crop the script re-creates: its name, and ONE absolute parent directory used both for `cd` and for
    # Crop(parent_dir=...) (a relative spelling would be resolved a second time after the cd)
    vals = {const_str(k, "opts key"): ast.unparse(v) for k, v in zip(opts.value.keys, opts.value.values)}
    if vals.get("name") != "crop.name" or vals.get("parent_dir") != "full_parent_dir" \
            or vals.get("working_directory") != "full_parent_dir":
        raise Refused(opts, "name / parent_dir / working_directory of the script are not the crop's name and its "
                            "resolved parent directory")
    if "full_parent_dir = str(pathlib.Path(crop.parent_dir).expanduser().resolve())" not in [ast.unparse(x) for x in pre]:
        raise Refused(fn, "full_parent_dir is not the resolved absolute parent directory")
    # the part before: validation of scheduler / mode, and nothing that touches the selection inputs
    pre_txt = [ast.unparse(s) for s in pre]
    for need in ("scheduler = scheduler.lower()",
                 "if scheduler not in ('sge', 'pbs', 'slurm'):\n    raise ValueError(\"scheduler must be one of 'sge', 'pbs', or 'slurm'.\")",
                 "if mode not in ('array', 'single'):\n    raise ValueError(\"mode must be one of 'array' or 'single'.\")"):
        if need not in pre_txt:
            raise Refused(fn, f"validation statement missing: {need[:40]}")
    for s in pre:
        for n in ast.walk(s):
            tg = []
            if isinstance(n, ast.Assign):
                tg = n.targets
            elif isinstance(n, (ast.AugAssign, ast.AnnAssign)):
                tg = [n.target]
            for t in tg:
                for m in ast.walk(t):
                    if isinstance(m, ast.Name) and m.id in ("batch_ids", "mode", "array_mode", "script", "opts", "crop") \
                            or (isinstance(m, ast.Name) and m.id == "scheduler"
                                and ast.unparse(s) != "scheduler = scheduler.lower()"):
                        raise Refused(s, "selection input reassigned before the opts literal")
    if "crop.calc_progress()" not in pre_txt:
        raise Refused(fn, "crop.calc_progress() is not called before the selection")
    # the tail: [statements] script = script.format(**opts) [rewrite if] return script
    tr = Sel()
    fmt = [i for i, s in enumerate(tail) if ast.unparse(s) == "script = script.format(**opts)"]
    if len(fmt) != 1:
        raise Refused(fn, "expected exactly one top-level script.format(**opts)")
    if ast.unparse(tail[-1]) != "return script":
        raise Refused(tail[-1], "last statement is not `return script`")
    lines, defined = ["let run_start := @None Z in", "let run_stop := @None Z in", "let rewrite := false in"], \
        {"run_start", "run_stop", "rewrite", "batch_ids"}
    for s in tail[:fmt[0]]:
        ls, defined = tr.stmt(s, defined)
        lines += ls
    for s in tail[fmt[0] + 1:-1]:
        # after formatting only the rewrite may follow
        if not (isinstance(s, ast.If) and not s.orelse and tr.assigned([s]) == ["rewrite"]):
            raise Refused(s, "statement after script.format(**opts) is not the rewrite")
        ls, defined = tr.stmt(s, defined)
        lines += ls
    for v in Sel.VARS:
        if v not in defined:
            raise Refused(fn, f"{v} is not assigned on every path")
    if tr.rewrite_strings is None:
        raise Refused(fn, "no rewrite found")
    if not tr.dynamic_seen:
        raise Refused(fn, "single mode does not compute the missing ids dynamically")
    gal = ["Definition gen_select (sc : scheduler) (md : mode) (batch_ids : ids_arg) (num_results : Z)",
           "  (missing : list Z) (num_batches : Z) : selection :="]
    gal += ["  " + ln for ln in lines]
    gal += ["  mk_sel am run_start run_stop ids pieces rewrite.", ""]
    # keys assigned besides the literal: batch_ids on every path (checked above: ids is defined),
    # run_start / run_stop where the translated branches assign them (array mode)
    touched = tr.assigned(tail)
    extra = {"ids": ["batch_ids"], "arr": [k for k in ("run_start", "run_stop") if k in touched]}
    return gal, keys, tr.rewrite_strings, extra


def cli_part(repo):
    tree = ast.parse(open(f"{repo}/{CLI}").read())
    main = find_function(tree, "main")
    calls = [n for n in ast.walk(main) if isinstance(n, ast.Call) and isinstance(n.func, ast.Attribute)
             and isinstance(n.func.value, ast.Name) and n.func.value.id == "crop"]
    names = sorted(ast.unparse(c) for c in calls)
    if names != ["crop.grow_missing(**grow_kwargs)", "crop.is_prepared()"]:
        raise Refused(main, f"calls on the crop in the CLI: {names}")
    crops = [s for s in ast.walk(main) if isinstance(s, ast.Assign) and ast.unparse(s.targets[0]) == "crop"]
    if len(crops) != 1 or ast.unparse(crops[0].value) != "xyzpy.Crop(name=args.crop_name, parent_dir=args.parent_dir)":
        raise Refused(main, "how the CLI opens the crop")
    gk = [s for s in main.body if isinstance(s, ast.Assign) and ast.unparse(s.targets[0]) == "grow_kwargs"]
    if len(gk) != 1 or not isinstance(gk[0].value, ast.Dict) or \
            sorted(const_str(k, "grow_kwargs") for k in gk[0].value.keys) != ["num_workers", "verbosity"]:
        raise Refused(main, "grow_kwargs of the CLI")
    return "CliGrowMissing"


def grow_missing_part(tree):
    fn = find_function(tree, "Crop.grow_missing")
    stmts = [s for s in fn.body if not (isinstance(s, ast.Expr) and isinstance(s.value, ast.Constant))]
    if [ast.unparse(s) for s in stmts] != ["self.grow(batch_ids=self.missing_results(), **combo_runner_opts)"]:
        raise Refused(fn, "Crop.grow_missing body")
    fn = find_function(tree, "Crop.grow")
    core = [n for n in ast.walk(fn) if isinstance(n, ast.Call) and ast.unparse(n.func) == "combo_runner_core"]
    if len(core) != 1 or ast.unparse(core[0].args[0]) != "grow" or \
            ast.unparse([k.value for k in core[0].keywords if k.arg == "combos"][0]) != "(('batch_number', batch_ids),)":
        raise Refused(fn, "Crop.grow does not sweep grow over batch_number=batch_ids")
    return "GmMissingResults"


def generate(repo):
    tree = ast.parse(open(f"{repo}/{SRC}").read())
    out = ["(* GENERATED by harness/translator/gen_templates.py from xyzpy/gen/cropping.py and",
           "   xyzpy/gen/xyzpy_grow_cli.py -- do not edit *)",
           "From XV Require Import Prelude Script.", "Open Scope string_scope.", "Open Scope Z_scope.", ""]
    # ---- (a) template constants
    known = {}
    for s in tree.body:
        if isinstance(s, ast.Assign) and len(s.targets) == 1 and isinstance(s.targets[0], ast.Name) \
                and TEMPLATE_NAME.match(s.targets[0].id):
            name = s.targets[0].id
            if name in known:
                raise Refused(s, "template constant assigned twice")
            val, coq = template_value(s.value, known)
            known[name] = val
            out += [f"Definition t{name} : string :=", f"  {coq}.", ""]
    # no other statement of the module may rebind them
    for n in ast.walk(tree):
        if isinstance(n, (ast.Global, ast.Nonlocal)) and any(TEMPLATE_NAME.match(x) for x in n.names):
            raise Refused(n, "template constant rebound")
        if isinstance(n, (ast.AugAssign, ast.AnnAssign)) and isinstance(n.target, ast.Name) and TEMPLATE_NAME.match(n.target.id):
            raise Refused(n, "template constant rebound")
    for ctor, const in PIECES.items():
        if const not in known:
            raise Refused(tree, f"template constant {const} not found")
    out += ["Definition gen_template (p : piece) : string :=", "  match p with"]
    out += [f"  | {ctor} => t{const}" for ctor, const in PIECES.items()]
    out += ["  end.", ""]
    # ---- (b) + (c)
    fn = find_function(tree, "gen_cluster_script")
    gal, keys, (drop, var, val), extra = selection(fn)
    out += ["Definition gen_opts_keys : list string :=", "  [" + "; ".join(coq_string(k) for k in keys) + "].",
            "Definition gen_ids_keys : list string := [" + "; ".join(coq_string(k) for k in extra["ids"]) + "].",
            "Definition gen_array_keys : list string := [" + "; ".join(coq_string(k) for k in extra["arr"]) + "].", ""]
    out += gal
    out += [f"Definition gen_dynamic_expr : string := {coq_string(DYNAMIC)}.",
            f"Definition gen_rewrite_drop : string := {coq_string(drop)}.",
            f"Definition gen_rewrite_var : string := {coq_string(var)}.",
            f"Definition gen_rewrite_val : string := {coq_string(val)}.", ""]
    # ---- (d)
    out += [f"Definition gen_cli : cli_action := {cli_part(repo)}.",
            f"Definition gen_grow_missing : grow_missing_ids := {grow_missing_part(tree)}.", ""]
    return "\n".join(out)
