"""GenHarvest.v: the control flow of Harvester.add_ds / save_full_ds / load_full_ds, Sampler.add_df /
save_full_df / load_full_df (xyzpy/gen/farming.py) and save_merge_ds (xyzpy/manage.py) as data for
Model/HarvestFlow.v: which stages an add performs in which order, what [overwrite] dispatches to (receiver and
argument of combine_first / merge), where memory is updated relative to the file write, and whether a failed
write is re-raised.  Fail closed: any statement outside the recognised shapes raises Refused."""
import ast
from .pyz import Refused, find_function

FARM = "xyzpy/gen/farming.py"
MANAGE = "xyzpy/manage.py"

SIDES = {"self._full_ds": "SOld", "old_ds": "SOld", "self._full_df": "SOld",
         "new_ds": "SNew", "ds": "SNew", "new_df": "SNew"}


def body_of(fn):
    b = list(fn.body)
    if b and isinstance(b[0], ast.Expr) and isinstance(b[0].value, ast.Constant) and isinstance(b[0].value.value, str):
        b = b[1:]
    return b


def side(node):
    t = ast.unparse(node)
    if t not in SIDES:
        raise Refused(node, "operand of a merge is neither the held nor the new data")
    return SIDES[t]


def combine_of(node):
    """recv.combine_first(arg) | recv.merge(arg, compat='no_conflicts') | xr.merge([a, b])"""
    if not isinstance(node, ast.Call):
        raise Refused(node, "merge expression is not a call")
    f = node.func
    if isinstance(f, ast.Attribute) and f.attr == "combine_first" and len(node.args) == 1 and not node.keywords:
        return f"(CombineFirst {side(f.value)} {side(node.args[0])})"
    if isinstance(f, ast.Attribute) and f.attr == "merge" and ast.unparse(f.value) != "xr" and len(node.args) == 1:
        kw = {k.arg: ast.unparse(k.value) for k in node.keywords}
        if kw != {"compat": "'no_conflicts'"}:
            raise Refused(node, "Dataset.merge without compat='no_conflicts'")
        return f"(MergeNoConflicts {side(f.value)} {side(node.args[0])})"
    if ast.unparse(f) == "xr.merge" and len(node.args) == 1 and isinstance(node.args[0], ast.List) \
            and len(node.args[0].elts) == 2 and not node.keywords:
        a, b = node.args[0].elts          # xarray's default compat is 'no_conflicts' (named in the trusted base)
        return f"(MergeNoConflicts {side(a)} {side(b)})"
    raise Refused(node, "unrecognised merge expression")


def dispatch_of(stmts, target, owner):
    """if overwrite is True: T = e1 / elif overwrite is False: T = e2 / else: T = e3"""
    if len(stmts) != 1 or not isinstance(stmts[0], ast.If):
        raise Refused(owner, "overwrite dispatch is not a single if-chain")
    got = {}
    node = stmts[0]
    while True:
        t = ast.unparse(node.test)
        key = {"overwrite is True": "new", "overwrite is False": "old"}.get(t)
        if key is None or key in got:
            raise Refused(node.test, "overwrite test")
        got[key] = assigned(node.body, target, owner)
        if len(node.orelse) == 1 and isinstance(node.orelse[0], ast.If):
            node = node.orelse[0]
            continue
        got["none"] = assigned(node.orelse, target, owner)
        break
    if set(got) != {"none", "new", "old"}:
        raise Refused(owner, "overwrite dispatch does not cover None / True / False")
    return "(mk_dispatch " + " ".join(combine_of(got[k]) for k in ("none", "new", "old")) + ")"


def assigned(stmts, target, owner):
    if len(stmts) != 1 or not isinstance(stmts[0], ast.Assign) or ast.unparse(stmts[0].targets[0]) != target:
        raise Refused(owner, f"branch does not just assign {target}")
    return stmts[0].value


def add_flow(fn, x, ignorable):
    """x = 'ds' | 'df'.  Returns (requires_name, stages, first_is_new, combine stmts, else_sets_mem)."""
    new, full, new_full = f"new_{x}", f"self._full_{x}", f"new_full_{x}"
    stages, req_name, first_is_new, comb, else_sets = [], None, None, None, None
    for s in body_of(fn):
        t = ast.unparse(s)
        if t in ignorable:
            continue
        if isinstance(s, ast.Assign) and ast.unparse(s.targets[0]) == "sync_with_disk":
            v = ast.unparse(s.value)
            if v == "sync and self.data_name is not None":
                req_name = "true"
            elif v == "sync":
                req_name = "false"
            else:
                raise Refused(s, "sync_with_disk condition")
            if stages:
                raise Refused(s, "sync_with_disk computed after a stage")
            continue
        if isinstance(s, ast.If) and ast.unparse(s.test) == "sync_with_disk" and not s.orelse and len(s.body) == 1 \
                and isinstance(s.body[0], ast.Expr) and isinstance(s.body[0].value, ast.Call) \
                and ast.unparse(s.body[0].value.func) == f"self.load_full_{x}":
            stages.append("SLoad")
            continue
        if isinstance(s, ast.If) and ast.unparse(s.test) == f"{full} is None":
            v = assigned(s.body, new_full, s)
            if ast.unparse(v) == f"{new}.copy(deep=True)":
                first_is_new = "true"
            else:
                raise Refused(v, "first data is not a copy of the new data")
            comb = s.orelse
            stages.append("SCombine")
            continue
        if isinstance(s, ast.If) and ast.unparse(s.test) == "sync_with_disk" and len(s.body) == 1 \
                and isinstance(s.body[0], ast.Expr) and isinstance(s.body[0].value, ast.Call) \
                and ast.unparse(s.body[0].value.func) == f"self.save_full_{x}":
            call = s.body[0].value
            if not call.args or ast.unparse(call.args[0]) != new_full:
                raise Refused(call, "save_full_* is not given the merged data")
            if not s.orelse:
                else_sets = "false"
            elif [ast.unparse(o) for o in s.orelse] == [f"{full} = {new_full}"]:
                else_sets = "true"
            else:
                raise Refused(s, "unsynced branch")
            stages.append("SStore")
            continue
        raise Refused(s, f"statement of {fn.name}")
    if req_name is None or first_is_new is None:
        raise Refused(fn, "add flow incomplete")
    if else_sets is None:
        else_sets = "false"
    return req_name, stages, first_is_new, comb, else_sets


def linear_paths(stmts):
    """All straight-line statement sequences through nested if/else (returns end a path)."""
    paths = [[]]
    for s in stmts:
        live = [p for p in paths if not (p and isinstance(p[-1], ast.Return))]
        done = [p for p in paths if p and isinstance(p[-1], ast.Return)]
        if isinstance(s, ast.If):
            new = []
            for p in live:
                for sub in linear_paths(s.body):
                    new.append(p + [("test", ast.unparse(s.test), True)] + sub)
                for sub in linear_paths(s.orelse):
                    new.append(p + [("test", ast.unparse(s.test), False)] + sub)
            paths = done + new
        else:
            paths = done + [p + [s] for p in live]
    return paths


def save_flow(fn, x):
    """The non-zarr path through `if new_full_x is not None:` of save_full_x."""
    new_full, full = f"new_full_{x}", f"self._full_{x}"
    blocks = [s for s in body_of(fn) if isinstance(s, ast.If) and ast.unparse(s.test) == f"{new_full} is not None"]
    if len(blocks) != 1 or blocks[0].orelse:
        raise Refused(fn, "no single `if new_full is not None` block")
    paths = []
    for p in linear_paths(blocks[0].body):
        tests = [q for q in p if isinstance(q, tuple)]
        if ("test", "engine == 'zarr'", True) in tests:
            continue
        # the previous (possibly lazily loaded) dataset is closed BEFORE the file is replaced under it
        holds = ("test", f"{full} is not None", True) in tests
        p = [q for q in p if not (isinstance(q, tuple) and q[1] in ("engine == 'zarr'", f"{full} is not None"))]
        closes = [i for i, q in enumerate(p) if isinstance(q, ast.Expr) and ast.unparse(q) == f"{full}.close()"]
        tries0 = [i for i, q in enumerate(p) if isinstance(q, ast.Try)]
        if x == "ds" and holds and (len(closes) != 1 or not tries0 or closes[0] > tries0[0]):
            raise Refused(fn, "the held dataset is not closed before the new file is written and moved into place")
        p = [q for q in p if not (isinstance(q, ast.Expr) and ast.unparse(q) == f"{full}.close()")]
        paths.append(p)
    shapes = set()
    for p in paths:
        if any(isinstance(q, tuple) for q in p):
            raise Refused(fn, f"unexpected test on the write path: {[q for q in p if isinstance(q, tuple)]}")
        tries = [i for i, q in enumerate(p) if isinstance(q, ast.Try)]
        if len(tries) != 1:
            raise Refused(fn, "the write path has no single try block")
        ti = tries[0]
        tr = p[ti]
        tb = [ast.unparse(q) for q in tr.body]
        assign = f"{full} = {new_full}"
        before = any(ast.unparse(q) == assign for q in p[:ti] if isinstance(q, ast.stmt))
        after = any(ast.unparse(q) == assign for q in p[ti + 1:] if isinstance(q, ast.stmt))
        saved_ok = tb and (tb[0].startswith(f"save_{x}({new_full}, tmp_name") or
                           (before and tb[0].startswith(f"save_{x}({full}, tmp_name")))
        atomic = (len(tb) == 2 and saved_ok and
                  tb[1] in ("os.replace(tmp_name, file_name)", "os.replace(tmp_name, self.data_name)"))
        if not atomic:
            raise Refused(tr, "write is not save-to-tmp then os.replace")
        if len(tr.handlers) != 1 or tr.orelse or tr.finalbody or tr.handlers[0].type is None \
                or ast.unparse(tr.handlers[0].type) != "BaseException":
            raise Refused(tr, "handler shape")
        hb = tr.handlers[0].body
        top_raise = any(isinstance(q, ast.Raise) and q.exc is None for q in hb)
        nested_raise = any(isinstance(n, ast.Raise) for q in hb if not isinstance(q, ast.Raise) for n in ast.walk(q))
        for q in hb:
            if isinstance(q, ast.Raise):
                continue
            if isinstance(q, ast.If) and ast.unparse(q.test) == "os.path.exists(tmp_name)" and not q.orelse and \
                    [ast.unparse(z) for z in q.body if not isinstance(z, ast.Raise)] == ["os.remove(tmp_name)"]:
                continue
            raise Refused(q, "statement in the except branch")
        rr = "RrAlways" if top_raise else ("RrIfTmpExists" if nested_raise else "RrNever")
        mem = "MemBeforeWrite" if before else ("MemAfterWrite" if after else "MemNever")
        rest = [ast.unparse(q) for q in p[:ti] + p[ti + 1:] if ast.unparse(q) != assign]
        allowed = {"file_name = auto_add_extension(self.data_name, engine)", "tmp_name = file_name + '.tmp'",
                   "tmp_name = self.data_name + '.tmp'", "return"}
        extra = [r for r in rest if r not in allowed]
        if extra:
            raise Refused(fn, f"unexpected statements on the write path: {extra}")
        if not isinstance(p[-1], ast.Return):
            raise Refused(fn, "the atomic write path falls through to the plain save")
        shapes.add((mem, rr))
    if len(shapes) != 1:
        raise Refused(fn, f"write paths disagree: {shapes}")
    mem, rr = shapes.pop()
    return f"(mk_save_flow {mem} {rr} true)"


def load_rule(fn, x, exists):
    chain = [s for s in body_of(fn) if isinstance(s, ast.If) and ast.unparse(s.test).startswith("os.access(")]
    if len(chain) != 1:
        raise Refused(fn, "no os.access test")
    s = chain[0]
    t = ast.unparse(s.test)
    if t not in ("os.access(file_name, os.W_OK)", "os.access(self.data_name, os.W_OK)"):
        raise Refused(s.test, "access test")
    if len(s.body) != 1 or not ast.unparse(s.body[0]).startswith(f"self._full_{x} = load_{x}(self.data_name"):
        raise Refused(s, "writable branch does not load into memory")
    if len(s.orelse) != 1 or not isinstance(s.orelse[0], ast.If):
        raise Refused(s, "no absent-file branch")
    e = s.orelse[0]
    if ast.unparse(e.test) not in exists or [ast.unparse(q) for q in e.body] != ["pass"]:
        raise Refused(e, "absent-file branch")
    if len(e.orelse) != 1 or not isinstance(e.orelse[0], ast.Raise):
        raise Refused(e, "no error for an unwritable file")
    return "(mk_load_rule true true true)"


def generate(repo):
    ftree = ast.parse(open(f"{repo}/{FARM}").read())
    mtree = ast.parse(open(f"{repo}/{MANAGE}").read())
    out = ["(* GENERATED by harness/translator/gen_harvest.py from farming.py / manage.py -- do not edit *)",
           "From XV Require Import Prelude Harvest HarvestFlow.", ""]

    # Harvester.add_ds
    fn = find_function(ftree, "Harvester.add_ds")
    ign = {"if isinstance(new_ds, xr.DataArray):\n    new_ds = new_ds.to_dataset()",
           "if chunks is None:\n    chunks = self.chunks",
           "if chunks is not None:\n    new_ds = new_ds.chunk(chunks)"}
    req, stages, first, comb, els = add_flow(fn, "ds", ign)
    disp = dispatch_of(comb, "new_full_ds", fn)
    out += [f"Definition gen_add_flow : add_flow :=",
            f"  mk_add_flow {req} [{'; '.join(stages)}] {first} {disp} {els}.", ""]
    out += [f"Definition gen_save_flow : save_flow := {save_flow(find_function(ftree, 'Harvester.save_full_ds'), 'ds')}.", ""]
    out += [f"Definition gen_load_rule : load_rule := "
            f"{load_rule(find_function(ftree, 'Harvester.load_full_ds'), 'ds', ('not os.path.exists(file_name)',))}.", ""]

    # Sampler.add_df
    fn = find_function(ftree, "Sampler.add_df")
    ign = {"if isinstance(new_df, dict):\n    new_df = pd.DataFrame(new_df)"}
    req, stages, first, comb, els = add_flow(fn, "df", ign)
    v = assigned(comb, "new_full_df", fn)
    if not (isinstance(v, ast.Call) and ast.unparse(v.func) == "pd.concat" and len(v.args) == 1
            and isinstance(v.args[0], ast.List)):
        raise Refused(v, "sampler rows are not concatenated with pd.concat")
    kw = {k.arg: ast.unparse(k.value) for k in v.keywords}
    if kw.get("ignore_index") != "True" or kw.get("axis", "0") != "0" or kw.get("join", "'outer'") != "'outer'":
        raise Refused(v, "pd.concat keywords (rows are appended, every column of either table is kept)")
    order = "; ".join(side(e) for e in v.args[0].elts)
    out += [f"Definition gen_sadd_flow : sadd_flow := mk_sadd_flow {req} [{'; '.join(stages)}] {first} [{order}] {els}.", ""]
    out += [f"Definition gen_ssave_flow : save_flow := {save_flow(find_function(ftree, 'Sampler.save_full_df'), 'df')}.", ""]
    out += [f"Definition gen_sload_rule : load_rule := "
            f"{load_rule(find_function(ftree, 'Sampler.load_full_df'), 'df', ('not os.path.isfile(self.data_name)', 'not os.path.exists(self.data_name)'))}.", ""]

    # Sampler: how a run draws its cases (a FRESH merge of the default choices and the override, n draws per
    # argument from the allowed choices or the supplied generator) and hands them on
    want = {
        "Sampler.gen_cases_fnargs": [
            "combos = {} if combos is None else dict(combos)",
            "combos = {**self.default_combos, **combos}",
            "cases = tuple((tuple((v() if callable(v) else np.random.choice(v) for v in combos.values())) for _ in range(n)))",
            "return (tuple(combos.keys()), cases)"],
        "Sampler.sample_combos": [
            "(fn_args, cases) = self.gen_cases_fnargs(n, combos)",
            "last_df = self.runner.run_cases(cases, fn_args=fn_args, to_df=True, **case_runner_settings)",
            "self._last_df = last_df",
            "self.add_df(last_df, engine=engine)",
            "return last_df"],
    }
    for q, lines in want.items():
        got = [ast.unparse(x) for x in body_of(find_function(ftree, q))]
        got = [g.replace("fn_args, cases = ", "(fn_args, cases) = ") for g in got]
        if got != lines:
            k = next((i for i, (a, b) in enumerate(zip(got, lines)) if a != b), min(len(got), len(lines)))
            raise Refused(find_function(ftree, q), f"{q} differs from the transcription at statement {k}")
    ctree = ast.parse(open(f"{repo}/xyzpy/gen/cropping.py").read())
    got = [ast.unparse(x) for x in body_of(find_function(ctree, "Crop.sow_samples"))]
    got = [g.replace("fn_args, cases = ", "(fn_args, cases) = ") for g in got]
    # (results of an earlier sow belong to other, randomly drawn samples: they are removed before the new sow)
    if got != ["(fn_args, cases) = self.farmer.gen_cases_fnargs(n, combos)",
               "stale_results = glob.glob(os.path.join(glob.escape(self.location), 'results', RSLT_NM.format('*')))",
               "for result_file in stale_results:\n    os.remove(result_file)",
               "self.sow_cases(fn_args, cases, constants=constants, verbosity=verbosity)"]:
        raise Refused(find_function(ctree, "Crop.sow_samples"), "sow_samples differs from the transcription")
    out += ["Definition gen_sampler_draw_is_transcribed : bool := true.", ""]

    # manage.save_merge_ds
    fn = find_function(mtree, "save_merge_ds")
    b = body_of(fn)
    txt = [ast.unparse(s) for s in b]
    if len(b) != 4 or txt[0] != "engine = kwargs.get('engine', 'h5netcdf')" or txt[3] != "save_ds(new_ds, fname, **kwargs)":
        raise Refused(fn, "save_merge_ds shape")
    ex = b[1]
    if not (isinstance(ex, ast.If) and ast.unparse(ex.test).startswith("os.path.exists(")
            and ast.unparse(assigned(ex.body, "old_ds", fn)).startswith("load_ds(fname")
            and ast.unparse(assigned(ex.orelse, "old_ds", fn)) == "xr.Dataset()"):
        raise Refused(ex, "existing-file test of save_merge_ds")
    out += [f"Definition gen_save_merge_dispatch : dispatch := {dispatch_of([b[2]], 'new_ds', fn)}.",
            "Definition gen_save_merge_absent_is_empty : bool := true.", "",
            "Definition gen_flows : flows :=",
            "  mk_flows gen_add_flow gen_save_flow gen_save_merge_dispatch gen_save_merge_absent_is_empty.", ""]
    return "\n".join(out)
