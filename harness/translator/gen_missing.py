"""GenMissing.v: the wiring of is_case_missing / find_missing_cases / parse_into_cases
(xyzpy/gen/case_runner.py) read from the source by statement shape: the two reductions
(.all() / .any()), the KeyError answer, the default criterion, whether each caller forwards
`method`, and -- checked, not parameterised -- that find_missing_cases builds fn_args from
ds.dims minus ignore_dims and iterates ds[arg].data in that order, and that parse_into_cases
merges {**case, **combo setting} over itertools.product of the combo values.  Any statement
that is not exactly of the recognised shape is refused (fail closed)."""
import ast
from .pyz import Refused, find_function

SRC = "xyzpy/gen/case_runner.py"


def _body(fn):
    """Statements without the docstring and without local imports."""
    out = []
    for s in fn.body:
        if isinstance(s, ast.Expr) and isinstance(s.value, ast.Constant) and isinstance(s.value.value, str):
            continue
        if isinstance(s, (ast.Import, ast.ImportFrom)):
            continue
        out.append(s)
    return out


def _expect(stmt, text, what):
    if ast.unparse(stmt) != text:
        raise Refused(stmt, f"{what}: expected `{text}`")


def _reducer(call, recv, what):
    """`<recv>.all()` / `<recv>.any()` -> constructor."""
    if not (isinstance(call, ast.Call) and not call.args and not call.keywords
            and isinstance(call.func, ast.Attribute) and ast.unparse(call.func.value) == recv):
        raise Refused(call, what)
    r = {"all": "RAll", "any": "RAny"}.get(call.func.attr)
    if r is None:
        raise Refused(call, what)
    return r


def _default_method(fn):
    a = fn.args
    names = [x.arg for x in a.args]
    if "method" not in names:
        raise Refused(fn, "no `method` parameter")
    d = a.defaults[names.index("method") - (len(names) - len(a.defaults))] \
        if names.index("method") >= len(names) - len(a.defaults) else None
    if not (isinstance(d, ast.Constant) and d.value in ("isnull", "isfinite")):
        raise Refused(fn, "default of `method`")
    return {"isnull": "M_isnull", "isfinite": "M_isfinite"}[d.value]


def _method_src(call, pos_args):
    """is_case_missing(<pos_args>, [method=method]) -> MForward / MDefault."""
    if not (isinstance(call, ast.Call) and ast.unparse(call.func) == "is_case_missing"
            and [ast.unparse(x) for x in call.args] == pos_args):
        raise Refused(call, f"expected is_case_missing({', '.join(pos_args)}, ...)")
    if not call.keywords:
        return "MDefault"
    if len(call.keywords) == 1 and call.keywords[0].arg == "method" and ast.unparse(call.keywords[0].value) == "method":
        return "MForward"
    raise Refused(call, "keywords of the is_case_missing call")


def wiring_of(tree):
    # ---------------------------------------------------------------- is_case_missing
    icm = find_function(tree, "is_case_missing")
    if [a.arg for a in icm.args.args] != ["ds", "setting", "method"]:
        raise Refused(icm, "signature of is_case_missing")
    default = _default_method(icm)
    body = _body(icm)
    if len(body) != 3 or not isinstance(body[0], ast.Try) or not isinstance(body[1], ast.Try):
        raise Refused(icm, "is_case_missing is not try / try / return")
    t1, t2, ret = body
    if len(t1.body) != 3 or t1.orelse or t1.finalbody:
        raise Refused(t1, "first try block")
    _expect(t1.body[0], "sds = ds.sel(setting)", "selection")
    sel = t1.body[1]
    want_if = ("if method == 'isnull':\n    sds = sds.isnull()\nelif method == 'isfinite':\n    sds = ~np.isfinite(sds)\n"
               "else:\n    raise ValueError('Unknown method: {}'.format(method))")
    _expect(sel, want_if, "null criterion dispatch")
    red = t1.body[2]
    if not (isinstance(red, ast.Assign) and ast.unparse(red.targets[0]) == "nds"):
        raise Refused(red, "reduction over the cells")
    r_cells = _reducer(red.value, "sds", "reduction over the cells")
    if len(t1.handlers) != 1 or ast.unparse(t1.handlers[0].type) != "KeyError" or t1.handlers[0].name:
        raise Refused(t1, "handlers of the first try (expected exactly `except KeyError`)")
    hb = [s for s in t1.handlers[0].body]
    if len(hb) != 1 or not isinstance(hb[0], ast.Return) or not isinstance(hb[0].value, ast.Constant) \
            or hb[0].value.value not in (True, False):
        raise Refused(t1.handlers[0], "KeyError handler")
    keyerr = "true" if hb[0].value.value is True else "false"
    if len(t2.body) != 1 or t2.orelse or t2.finalbody or len(t2.handlers) != 1 \
            or ast.unparse(t2.handlers[0].type) != "AttributeError" \
            or [ast.unparse(s) for s in t2.handlers[0].body] != ["pass"]:
        raise Refused(t2, "second try block")
    red2 = t2.body[0]
    if not (isinstance(red2, ast.Assign) and ast.unparse(red2.targets[0]) == "nds"):
        raise Refused(red2, "reduction over the variables")
    r_vars = _reducer(red2.value, "nds.to_array()", "reduction over the variables")
    _expect(ret, "return nds.item()", "result")

    # ---------------------------------------------------------------- find_missing_cases
    fmc = find_function(tree, "find_missing_cases")
    if [a.arg for a in fmc.args.args] != ["ds", "ignore_dims", "method", "show_progbar"]:
        raise Refused(fmc, "signature of find_missing_cases")
    _default_method(fmc)
    b = _body(fmc)
    if len(b) != 5:
        raise Refused(fmc, "find_missing_cases: expected 5 statements")
    _expect(b[0], "ignore_dims = {ignore_dims} if isinstance(ignore_dims, str) else set(ignore_dims) if ignore_dims else set()",
            "ignore_dims parsing")
    _expect(b[1], "fn_args = tuple((coo for coo in ds.dims if coo not in ignore_dims))", "fn_args")
    _expect(b[2], "all_cases = itertools.product(*(ds[arg].data for arg in fn_args))", "grid")
    g = b[3]
    if not (isinstance(g, ast.FunctionDef) and g.name == "gen_missing_list" and len(g.body) == 1
            and isinstance(g.body[0], ast.For)):
        raise Refused(g, "generator of the missing cases")
    loop = g.body[0]
    if ast.unparse(loop.target) != "case" or ast.unparse(loop.iter) != "progbar(all_cases, disable=not show_progbar)" \
            or loop.orelse or len(loop.body) != 2:
        raise Refused(loop, "loop over the grid")
    _expect(loop.body[0], "setting = dict(zip(fn_args, case))", "setting of a location")
    test = loop.body[1]
    if not (isinstance(test, ast.If) and not test.orelse and [ast.unparse(s) for s in test.body] == ["yield case"]):
        raise Refused(test, "filter of the grid")
    find_src = _method_src(test.test, ["ds", "setting"])
    _expect(b[4], "return (fn_args, tuple(gen_missing_list()))", "result")

    # ---------------------------------------------------------------- parse_into_cases
    pic = find_function(tree, "parse_into_cases")
    if [a.arg for a in pic.args.args] != ["combos", "cases", "ds", "method"]:
        raise Refused(pic, "signature of parse_into_cases")
    _default_method(pic)
    b = _body(pic)
    want = ["if combos is None:\n    combos = {}", "if cases is None:\n    cases = [{}]",
            "combo_keys = tuple(combos)", "combo_vals = tuple(combos.values())", "new_cases = []"]
    if len(b) != 7 or [ast.unparse(s) for s in b[:5]] != want:
        raise Refused(pic, "preamble of parse_into_cases")
    outer = b[5]
    if not (isinstance(outer, ast.For) and ast.unparse(outer.target) == "case" and ast.unparse(outer.iter) == "cases"
            and len(outer.body) == 1 and isinstance(outer.body[0], ast.For) and not outer.orelse):
        raise Refused(outer, "loop over the cases")
    inner = outer.body[0]
    if not (ast.unparse(inner.target) == "setting" and ast.unparse(inner.iter) == "itertools.product(*combo_vals)"
            and len(inner.body) == 2 and not inner.orelse):
        raise Refused(inner, "loop over the combos")
    _expect(inner.body[0], "new_case = {**case, **dict(zip(combo_keys, setting))}", "merged setting")
    keep = inner.body[1]
    if not (isinstance(keep, ast.If) and not keep.orelse
            and [ast.unparse(s) for s in keep.body] == ["new_cases.append(new_case)"]
            and isinstance(keep.test, ast.BoolOp) and isinstance(keep.test.op, ast.Or) and len(keep.test.values) == 2
            and ast.unparse(keep.test.values[0]) == "ds is None"):
        raise Refused(keep, "filter of the requested settings")
    parse_src = _method_src(keep.test.values[1], ["ds", "new_case"])
    _expect(b[6], "return new_cases", "result")
    return r_cells, r_vars, keyerr, default, find_src, parse_src


def generate(repo):
    tree = ast.parse(open(f"{repo}/{SRC}").read())
    r_cells, r_vars, keyerr, default, find_src, parse_src = wiring_of(tree)
    return "\n".join([
        "(* GENERATED by harness/translator/gen_missing.py from xyzpy/gen/case_runner.py -- do not edit *)",
        "From XV Require Import Prelude DsMap Missing.", "",
        "Definition gen_wiring : wiring :=",
        f"  mk_wiring {r_cells} {r_vars} {keyerr} {default} {find_src} {parse_src}.", ""])
