"""GenLabel.v: the statement-level shape of results_to_df / results_to_ds (xyzpy/gen/combo_runner.py) as data for
Model/LabelFlow.v: the per-row steps of the DataFrame builder in order; coordinate order, dimension order,
result / name pairing, where attrs and constants go in the Dataset builder.  Fail closed."""
import ast
from .pyz import Refused, find_function

SRC = "xyzpy/gen/combo_runner.py"


def body_of(fn):
    b = list(fn.body)
    if b and isinstance(b[0], ast.Expr) and isinstance(b[0].value, ast.Constant) and isinstance(b[0].value.value, str):
        b = b[1:]
    return b


def df_flow(fn):
    if [a.arg for a in fn.args.args] != ["results_linear", "settings", "attrs", "resources", "var_names"]:
        raise Refused(fn, "results_to_df signature")
    b = body_of(fn)
    txt = [ast.unparse(s) for s in b]
    if len(b) != 4 or txt[0] != "import pandas as pd" or txt[1] != "data = []" or txt[3] != "return pd.DataFrame(data)":
        raise Refused(fn, "results_to_df frame")
    loop = b[2]
    if not (isinstance(loop, ast.For) and ast.unparse(loop.target) == "(row, result)" and not loop.orelse):
        raise Refused(loop, "row loop")
    it = ast.unparse(loop.iter)
    if it != "zip(settings, results_linear)":
        raise Refused(loop.iter, "rows are not zip(settings, results_linear)")
    steps, fallback = [], "false"
    stmts = list(loop.body)
    if not stmts or ast.unparse(stmts[-1]) != "data.append(row)":
        raise Refused(loop, "row is not appended last")
    for s in stmts[:-1]:
        t = ast.unparse(s)
        if t == "for k in resources:\n    row.pop(k, None)":
            steps.append("RDropResources")
        elif t == "if attrs:\n    row.update(attrs)":
            steps.append("RUpdateAttrs")
        elif t == ("if len(var_names) == 1:\n    row[var_names[0]] = result\nelse:\n"
                   "    row.update(dict(zip(var_names, result)))"):
            # a single output is the result itself, whatever its type; several are paired with their names
            steps.append("RUpdateOutputs")
            fallback = "true"
        elif isinstance(s, ast.Try) or t == "row.update(dict(zip(var_names, result)))":
            raise Refused(s, "the outputs are zipped with the names also when there is ONE name: a single output "
                             "that can be iterated over (str, tuple, array) is cut to its first element")
        else:
            raise Refused(s, "statement of the row loop")
    return "true", steps, fallback


def ds_flow(fn):
    if [a.arg for a in fn.args.args] != ["results", "combos", "var_names", "var_dims", "var_coords", "constants", "attrs"]:
        raise Refused(fn, "results_to_ds signature")
    b = body_of(fn)
    txt = [ast.unparse(s) for s in b]
    if txt[0] != "fn_args = tuple((x for x, _ in combos))" or txt[1] != "results = parse_combo_results(results, var_names)":
        raise Refused(fn, "results_to_ds prologue")
    counted = "false"
    i = 2
    if isinstance(b[i], ast.If) and ast.unparse(b[i].test) == "len(results) != len(var_names)" \
            and len(b[i].body) == 1 and isinstance(b[i].body[0], ast.Raise):
        counted = "true"
        i += 1
    if not txt[i].startswith("xobj_results = isinstance(get_ndim_first(results, len(fn_args) + 1), "):
        raise Refused(b[i], "xobj test")
    i += 1
    br = b[i]
    if not (isinstance(br, ast.If) and ast.unparse(br.test) == "xobj_results" and len(br.orelse) == 1):
        raise Refused(br, "construction branch")
    mk = br.orelse[0]
    if not (isinstance(mk, ast.Assign) and ast.unparse(mk.targets[0]) == "ds" and isinstance(mk.value, ast.Call)
            and ast.unparse(mk.value.func) == "xr.Dataset" and not mk.value.args):
        raise Refused(mk, "Dataset construction")
    kw = {k.arg: k.value for k in mk.value.keywords}
    if set(kw) != {"coords", "data_vars"}:
        raise Refused(mk, "Dataset keywords")
    co = kw["coords"]
    if not (isinstance(co, ast.Dict) and all(k is None for k in co.keys)):
        raise Refused(co, "coords is not a merge of mappings")
    order = []
    for v in co.values:
        t = ast.unparse(v)
        order.append({"dict(combos)": "CoCombos", "dict(var_coords)": "CoVarCoords"}.get(t))
        if order[-1] is None:
            raise Refused(v, "coords source")
    dv = kw["data_vars"]
    if not (isinstance(dv, ast.DictComp) and ast.unparse(dv.key) == "name" and len(dv.generators) == 1):
        raise Refused(dv, "data_vars")
    g = dv.generators[0]
    zipped = {"zip(results, var_names)": ("(data, name)", "true"), "zip(var_names, results)": ("(name, data)", "true")}
    gi = ast.unparse(g.iter)
    if gi not in zipped or ast.unparse(g.target) != zipped[gi][0] or g.ifs:
        raise Refused(g, "results are not zipped with var_names position by position")
    val = ast.unparse(dv.value)
    if val == "(fn_args + var_dims[name], np.asarray(data))":
        args_first = "true"
    elif val == "(var_dims[name] + fn_args, np.asarray(data))":
        args_first = "false"
    else:
        raise Refused(dv.value, "variable dims / data")
    i += 1
    copied, rule, target = None, None, None
    rest = b[i:]
    if not rest or ast.unparse(rest[-1]) != "return ds":
        raise Refused(fn, "results_to_ds does not return ds")
    for s in rest[:-1]:
        t = ast.unparse(s)
        if t == "if attrs:\n    ds.attrs = attrs":
            if rule is not None:
                raise Refused(s, "attrs assigned after the constants")
            copied = "true"
        elif isinstance(s, ast.If) and ast.unparse(s.test) == "constants" and len(s.body) == 1 \
                and isinstance(s.body[0], ast.For) and ast.unparse(s.body[0].iter) == "constants.items()" \
                and ast.unparse(s.body[0].target) == "(k, v)" and len(s.body[0].body) == 1:
            inner = s.body[0].body[0]
            if not (isinstance(inner, ast.If) and ast.unparse(inner.test) == "k in ds.dims"
                    and [ast.unparse(x) for x in inner.body] == ["ds.coords[k] = v"] and len(inner.orelse) == 1):
                raise Refused(inner, "constant rule")
            e = inner.orelse[0]
            stores = [ast.unparse(x) for x in (e.body if isinstance(e, ast.Try) else [e])]
            if stores == ["ds.attrs[k] = v"]:
                target = "TDatasetOwn"
            elif stores == ["attrs[k] = v"]:
                target = "TCallerMapping"
            else:
                raise Refused(e, "where a non-dimension constant is stored")
            rule = "KDimToCoordElseAttr"
        else:
            raise Refused(s, "statement of results_to_ds")
    if copied is None or rule is None:
        raise Refused(fn, "attrs / constants handling missing")
    return counted, order, args_first, "true", copied, rule, target


def generate(repo):
    tree = ast.parse(open(f"{repo}/{SRC}").read())
    # results that are labelled already (var_names=None) are joined by multi_concat: outer alignment on their
    # internal coordinates, one concat per swept argument; pinned
    from . import pins
    pins.check(repo, SRC, ["multi_concat", "get_ndim_first"])
    zipped, steps, fallback = df_flow(find_function(tree, "results_to_df"))
    counted, order, args_first, zip_names, copied, rule, target = ds_flow(find_function(tree, "results_to_ds"))
    return "\n".join([
        "(* GENERATED by harness/translator/gen_label.py from xyzpy/gen/combo_runner.py -- do not edit *)",
        "From XV Require Import Prelude Label LabelFlow.", "",
        "Definition gen_multi_concat_is_pinned : bool := true.", "",
        "Definition gen_label_flow : label_flow :=",
        f"  mk_label_flow {zipped} [{'; '.join(steps)}] {fallback} {counted} [{'; '.join(order)}] {args_first} "
        f"{zip_names} {copied} {rule} {target}.", ""])
