"""GenFmt.v: the body of xyzpy.utils.format_number_with_error (fail closed).

Whitelisted on top of the integer / boolean subset of pyz:
  types       float (a value of the operations record), fl (sign + exact magnitude, the result of
              abs), str, strpair (result of .split("e")), pow10 (10**k met by a float)
  f-strings   {v:e} {v:.Ne} (float) -> fmt_e_str ; {v:.{n}f} (float) -> fmt_f_str ;
              {k:+03d} (int) -> fmt_d_p03 ; {s} (str) ; literal text ; concatenation
  strings     "literal", s.split("e") (only unpacked into two names or indexed by [1]),
              s.replace(".", ""), int(s)
  floats      v / <int literal>, v / 10**k (may raise: OverflowError / ZeroDivisionError of the
              model's fpow10), abs(v), a < b
  integers    unary + (min / max / abs / comparisons / `in` of int expressions and literals come
              from pyz, e.g. the cap x_exponent = min(x_exponent, 308))
Everything else raises pyz.Refused.

pow10_table_v() writes Model/DecFmtPow.v (the binary64 values of 10**k, k = -323 .. 308); it is
not part of regeneration -- the check C20 compares the table with the running CPython."""
import ast
import math
import re
from fractions import Fraction

from .pyz import Translator, Env, Refused, find_function, key_of

SRC = "xyzpy/utils.py"
FUNC = "format_number_with_error"


def coq_string(s):
    if not all(32 <= ord(c) < 127 for c in s) or '"' in s:
        raise Refused(ast.Constant(value=s), "string literal outside the printable subset")
    return '"' + s + '"%string'


def as_fl(coq, ty, node):
    if ty == "float":
        return f"(fval ops {coq})"
    if ty == "fl":
        return coq
    raise Refused(node, f"expected a float, got {ty}")


class FmtTr(Translator):
    def __init__(self):
        super().__init__(special_calls=[self.special])

    # ---------------------------------------------------------------- expressions
    def special(self, n, tr, env):
        if isinstance(n, ast.Constant) and isinstance(n.value, str):
            return coq_string(n.value), "str"
        if isinstance(n, ast.UnaryOp) and isinstance(n.op, ast.UAdd):
            c, t = self.expr(n.operand, env)
            if t != "Z":
                raise Refused(n, "unary + on " + t)
            return c, "Z"
        if isinstance(n, ast.JoinedStr):
            return self.fstring(n, env)
        if isinstance(n, ast.BinOp) and isinstance(n.op, ast.Pow):
            if not (isinstance(n.left, ast.Constant) and n.left.value == 10 and type(n.left.value) is int):
                raise Refused(n, "power with a base other than the literal 10")
            c, t = self.expr(n.right, env)
            if t != "Z":
                raise Refused(n, "power with exponent of type " + t)
            return c, "pow10"            # carries the exponent; only valid as a divisor
        if isinstance(n, ast.BinOp) and isinstance(n.op, ast.Div):
            a, ta = self.expr(n.left, env)
            if ta != "float":
                raise Refused(n, "division with numerator of type " + ta)
            if isinstance(n.right, ast.Constant) and type(n.right.value) is int and 0 < n.right.value < 2 ** 53:
                return f"(fdiv ops {a} (fofZ ops {n.right.value}))", "float"
            raise Refused(n, "float division by something other than an int literal "
                             "(division by 10**k is only allowed as a whole assignment)")
        if isinstance(n, ast.Compare):
            if len(n.ops) == 1 and isinstance(n.ops[0], ast.Lt):
                a, ta = self.expr(n.left, env)
                b, tb = self.expr(n.comparators[0], env)
                if ta in ("float", "fl") or tb in ("float", "fl"):
                    return f"(fl_lt {as_fl(a, ta, n)} {as_fl(b, tb, n)})", "bool"
            return None
        if isinstance(n, ast.Subscript):
            if isinstance(n.slice, ast.Constant) and n.slice.value == 1 and type(n.slice.value) is int:
                c, t = self.expr(n.value, env)
                if t == "strpair":
                    return f"(snd {c})", "str"
            raise Refused(n, "subscript")
        if isinstance(n, ast.Call):
            f = n.func
            if n.keywords:
                raise Refused(n, "keyword arguments")
            if isinstance(f, ast.Attribute) and f.attr == "split":
                if len(n.args) == 1 and isinstance(n.args[0], ast.Constant) and n.args[0].value == "e":
                    c, t = self.expr(f.value, env)
                    if t == "str":
                        return f"(split_e {c})", "strpair"
                raise Refused(n, "split")
            if isinstance(f, ast.Attribute) and f.attr == "replace":
                if (len(n.args) == 2 and all(isinstance(a, ast.Constant) for a in n.args)
                        and n.args[0].value == "." and n.args[1].value == ""):
                    c, t = self.expr(f.value, env)
                    if t == "str":
                        return f"(remove_dot {c})", "str"
                raise Refused(n, "replace")
            if isinstance(f, ast.Name) and f.id == "int" and len(n.args) == 1:
                c, t = self.expr(n.args[0], env)
                if t == "str":
                    return f"(int_of_str {c})", "Z"
                return None                 # int(bool) / int(int): the base translator
            if isinstance(f, ast.Name) and f.id == "abs" and len(n.args) == 1:
                c, t = self.expr(n.args[0], env)
                if t in ("float", "fl"):
                    return f"(fl_abs {as_fl(c, t, n)})", "fl"
                return None
        return None

    def fstring(self, n, env):
        parts = []
        for v in n.values:
            if isinstance(v, ast.Constant) and isinstance(v.value, str):
                parts.append(coq_string(v.value))
            elif isinstance(v, ast.FormattedValue):
                parts.append(self.formatted(v, env))
            else:
                raise Refused(v, "f-string part")
        if not parts:
            return '""%string', "str"
        out = parts[-1]
        for p in reversed(parts[:-1]):
            out = f"(String.append {p} {out})"
        return out, "str"

    def formatted(self, v, env):
        if v.conversion != -1:
            raise Refused(v, "f-string conversion")
        c, t = self.expr(v.value, env)
        spec = v.format_spec
        if spec is None:
            if t == "str":
                return c
            raise Refused(v, "unformatted f-string field of type " + t)
        if not isinstance(spec, ast.JoinedStr):
            raise Refused(v, "format spec")
        sv = spec.values
        if len(sv) == 1 and isinstance(sv[0], ast.Constant):
            s = sv[0].value
            if t == "float" and s == "e":
                return f"(fmt_e_str 6 (fval ops {c}))"
            m = re.fullmatch(r"\.(\d+)e", s)
            if t == "float" and m:
                return f"(fmt_e_str {int(m.group(1))} (fval ops {c}))"
            if t == "Z" and s == "+03d":
                return f"(fmt_d_p03 {c})"
            raise Refused(v, f"format spec {s!r} on {t}")
        if (len(sv) == 3 and isinstance(sv[0], ast.Constant) and sv[0].value == "."
                and isinstance(sv[2], ast.Constant) and sv[2].value == "f"
                and isinstance(sv[1], ast.FormattedValue) and sv[1].conversion == -1
                and sv[1].format_spec is None and t == "float"):
            nd, tn = self.expr(sv[1].value, env)
            if tn == "Z":
                return f"(fmt_f_str {nd} (fval ops {c}))"
        raise Refused(v, "format spec")

    # ---------------------------------------------------------------- statements
    def assign(self, target, value, env, cont, stmt):
        # v = v / 10**k : may raise
        if (isinstance(value, ast.BinOp) and isinstance(value.op, ast.Div)
                and isinstance(value.right, ast.BinOp) and isinstance(value.right.op, ast.Pow)):
            k = key_of(target)
            if k is None:
                raise Refused(stmt, "assignment target")
            a, ta = self.expr(value.left, env)
            kk, tk = self.expr(value.right, env)
            if ta != "float" or tk != "pow10":
                raise Refused(stmt, "division by a power of ten")
            p, t, nm = env.fresh("p"), env.fresh("t"), env.fresh(k)
            return (f"(match fpow10 ops {kk} with\n | Err {t} => Err {t}\n | Ok {p} =>\n"
                    f" (let {nm} := (fdiv ops {a} {p}) in\n {cont(env.set(k, nm, 'float'))})\n end)")
        # a, b = s.split("e")
        if isinstance(target, ast.Tuple) and not isinstance(value, ast.Tuple):
            c, t = self.expr(value, env)
            if t == "strpair" and len(target.elts) == 2:
                k0, k1 = key_of(target.elts[0]), key_of(target.elts[1])
                if k0 is None or k1 is None:
                    raise Refused(stmt, "tuple target")
                n0, n1 = env.fresh(k0), env.fresh(k1)
                e2 = env.set(k0, n0, "str").set(k1, n1, "str")
                return f"(let '({n0}, {n1}) := {c} in\n {cont(e2)})"
            raise Refused(stmt, "tuple assignment")
        if not isinstance(target, ast.Tuple):
            c, t = self.expr(value, env)
            if t in ("strpair", "pow10"):
                raise Refused(stmt, f"a value of type {t} may not be stored")
        return super().assign(target, value, env, cont, stmt)

    def ret(self, s, env):
        if s.value is None:
            raise Refused(s, "bare return")
        c, t = self.expr(s.value, env)
        if t != "str":
            raise Refused(s, "return of type " + t)
        return f"(Ok {c})"


def generate(repo):
    tree = ast.parse(open(f"{repo}/{SRC}").read())
    fn = find_function(tree, FUNC)
    a = fn.args
    if ([x.arg for x in a.args] != ["x", "err"] or a.vararg or a.kwarg or a.kwonlyargs or a.defaults
            or a.posonlyargs or fn.decorator_list):
        raise Refused(fn, "signature of format_number_with_error")
    tr = FmtTr()
    env = Env({"x": ("x", "float"), "err": ("err", "float")})

    def fell_off(e):
        raise Refused(fn, "a path of the function does not end in return")
    body = tr.block(fn.body, env, fell_off)
    out = [f"(* GENERATED by harness/translator/gen_fmt.py from {SRC} ({FUNC}) -- do not edit *)",
           "From XV Require Import Prelude DecFmt.", "Delimit Scope string_scope with string.",
           "Open Scope Z_scope.", "",
           "Definition gen_format (ops : fops) (x err : FT ops) : res string :=", body + ".", ""]
    return "\n".join(out)


# -------------------------------------------------------------------- the table of 10**k
def float_me(f):
    """abs(f) = M * 2**E exactly with M odd (or M = E = 0)."""
    if f == 0:
        return 0, 0
    m, e = math.frexp(abs(f))
    M, E = int(m * 2 ** 53), e - 53
    while M % 2 == 0:
        M //= 2
        E += 1
    assert Fraction(M) * Fraction(2) ** E == Fraction(abs(f))
    return M, E


POW10_LO, POW10_HI = -323, 308


def pow10_float(k):
    """What `v / 10**k` divides by in CPython (None if it raises)."""
    try:
        return float(10 ** k)
    except OverflowError:
        return None


def pow10_table_v():
    rows = ["(%d, %d)" % float_me(pow10_float(k)) for k in range(POW10_LO, POW10_HI + 1)]
    out = ["(* binary64 value of Python's 10**k when it meets a float, k = -323 .. 308, as (m, e) with value",
           "   m * 2^e: for k >= 0 the exact int 10^k converted by correct rounding, for k < 0 libm's",
           "   pow(10.0, k).  Written by harness/translator/gen_fmt.py (pow10_table_v); the check C20",
           "   compares every entry with the running CPython on each run. *)",
           "From Coq Require Import ZArith List.", "Import ListNotations.", "Open Scope Z_scope.", "",
           f"Definition pow10_lo : Z := {POW10_LO}.", f"Definition pow10_hi : Z := {POW10_HI}.",
           "Definition pow10_tab : list (Z * Z) := ["]
    for i in range(0, len(rows), 6):
        out.append("  " + "; ".join(rows[i:i + 6]) + (";" if i + 6 < len(rows) else ""))
    out.append("].")
    return "\n".join(out) + "\n"


if __name__ == "__main__":
    import sys
    sys.stdout.write(pow10_table_v())
