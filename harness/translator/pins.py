"""Exact-text pins: small helper functions whose behaviour the models take for granted (argument parsing,
spelling normalisation) are compared, docstrings and comments aside, with their recorded text.  A pin is the
weakest tie (any rewrite breaks it), used where a function is too dynamic to translate and too small to model."""
import ast
from .pyz import Refused, find_function

PINNED = {
    "xyzpy/gen/prepare.py": ["_str_2_tuple", "dictify", "parse_fn_args", "check_for_duplicates", "parse_combos",
                             "parse_combo_results", "parse_cases", "parse_case_results", "parse_var_names",
                             "parse_var_dims"],
    "xyzpy/gen/combo_runner.py": ["multi_concat", "get_ndim_first", "nan_like_result", "infer_shape"],
    "xyzpy/gen/cropping.py": ["Crop._sync_info_from_disk", "Crop.all_nan_result", "Crop.delete_all",
                              "Crop.num_sown_batches", "Crop.num_results", "Crop.__init__"],
    "xyzpy/manage.py": ["auto_xyz_ds"],
    "xyzpy/plot/core.py": ["check_excess_dims", "Plotter.prepare_z_vals", "Plotter.prepare_z_labels",
                           "Plotter.prepare_colors", "calc_row_col_datasets",
                           "AbstractLinePlot.prepare_data_single", "AbstractLinePlot.prepare_data_multi_grid",
                           "AbstractScatter.prepare_data_single", "AbstractScatter.prepare_data_multi_grid",
                           "AbstractHistogram.prepare_data_single", "AbstractHistogram.prepare_data_multi_grid",
                           "AbstractHeatMap.prepare_data_single", "AbstractHeatMap.prepare_data_multi_grid"],
}


def normalised(tree, qualname):
    f = ast.parse(ast.unparse(find_function(tree, qualname))).body[0]
    for n in ast.walk(f):
        if isinstance(n, (ast.FunctionDef, ast.ClassDef)) and n.body and isinstance(n.body[0], ast.Expr) \
                and isinstance(n.body[0].value, ast.Constant) and isinstance(n.body[0].value.value, str):
            n.body = n.body[1:] or [ast.Pass()]
    return ast.unparse(f)


def check(repo, path, names=None):
    from .pins_data import DATA
    tree = ast.parse(open(f"{repo}/{path}").read())
    for q, want in DATA[path].items():
        if names is not None and q not in names:
            continue
        try:
            got = normalised(tree, q)
        except Exception as e:  # noqa
            raise Refused(tree, f"pinned function {q} of {path} not found ({e})")
        if got != want:
            a, b = got.splitlines(), want.splitlines()
            k = next((i for i, (x, y) in enumerate(zip(a, b)) if x != y), min(len(a), len(b)))
            raise Refused(find_function(tree, q), f"{q} in {path} differs from its pinned text at line {k + 1}: "
                                                  f"{a[k] if k < len(a) else '<end>'!r}")
    return len(DATA[path]) if names is None else len(names)
