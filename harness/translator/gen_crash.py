"""GenCrash.v: the ORDER of file-system effects in the code C10 reasons about, read off the source
by shape (fail closed): write_to_disk (unique temporary file, dump, close, os.replace),
Crop.prepare / ensure_dirs_exists, sow_combos / sow_cases (prepare before the Sower runs), the
writers of crop files (each goes through write_to_disk exactly once), grow (the single write
comes after the loop over every case), Harvester.save_full_ds / Sampler.save_full_df (save to
<name>.tmp, os.replace, only then update the in-memory copy).
(The order of the stages of the reap entry points is GenStages; the paths are GenNames.)"""
import ast
from .pyz import Refused, find_function

CROPPING = "xyzpy/gen/cropping.py"
FARMING = "xyzpy/gen/farming.py"


def body_of(fn):
    """statements without the docstring"""
    b = list(fn.body)
    if b and isinstance(b[0], ast.Expr) and isinstance(b[0].value, ast.Constant) and isinstance(b[0].value.value, str):
        b = b[1:]
    return b


def calls_in(node, callee):
    return [n for n in ast.walk(node) if isinstance(n, ast.Call) and ast.unparse(n.func) == callee]


def write_opens(node):
    """open(...) calls that can write"""
    out = []
    for n in calls_in(node, "open"):
        mode = None
        if len(n.args) >= 2:
            mode = n.args[1]
        for k in n.keywords:
            if k.arg == "mode":
                mode = k.value
        if mode is None:
            continue                       # default mode "r"
        if not isinstance(mode, ast.Constant) or not isinstance(mode.value, str):
            raise Refused(n, "open() with a computed mode")
        if any(c in mode.value for c in "wax+"):
            out.append(n)
    return out


def write_to_disk_shape(tree):
    fn = find_function(tree, "write_to_disk")
    if [a.arg for a in fn.args.args] != ["obj", "fname"]:
        raise Refused(fn, "write_to_disk signature")
    body = body_of(fn)
    if len(body) != 2:
        raise Refused(fn, "write_to_disk: expected the temporary-name assignment and one try block")
    asg, tr = body
    if not (isinstance(asg, ast.Assign) and ast.unparse(asg.targets[0]) == "tmp_fname"):
        raise Refused(asg, "write_to_disk: temporary name")
    unique = ast.unparse(asg.value) == "'{}.tmp-{}-{}'.format(fname, os.getpid(), uuid.uuid4().hex)"
    if not unique:
        raise Refused(asg, "write_to_disk: the temporary name is not <final>.tmp-<pid>-<uuid>")
    if not isinstance(tr, ast.Try) or tr.orelse or tr.finalbody:
        raise Refused(tr, "write_to_disk: try block")
    steps = []
    for s in tr.body:
        if isinstance(s, ast.With):
            if len(s.items) != 1 or ast.unparse(s.items[0].context_expr) != "open(tmp_fname, 'wb')" \
                    or ast.unparse(s.items[0].optional_vars) != "file":
                raise Refused(s, "write_to_disk: the file opened is not the temporary one")
            steps.append("WOpenTmp")
            for b in s.body:
                if ast.unparse(b) == "pickle.dump(obj, file)":
                    steps.append("WDump")
                else:
                    raise Refused(b, "write_to_disk: statement inside the with block")
            steps.append("WCloseTmp")
        elif ast.unparse(s) == "os.replace(tmp_fname, fname)":
            steps.append("WReplace")
        else:
            raise Refused(s, "write_to_disk: statement in the try block")
    # the handler may only remove the temporary file and re-raise
    for h in tr.handlers:
        txt = [ast.unparse(x) for x in h.body]
        if txt != ["if os.path.exists(tmp_fname):\n    os.remove(tmp_fname)", "raise"]:
            raise Refused(h, "write_to_disk: exception handler")
    return steps, unique


def prepare_shape(tree):
    fn = find_function(tree, "Crop.prepare")
    out = []
    for s in body_of(fn):
        t = ast.unparse(s)
        if t == "self.ensure_dirs_exists()":
            out.append("PDirs")
        elif t == "if self.save_fn:\n    self.save_function_to_disk()":
            out.append("PFunction")
        elif t == "self.save_info(combos=combos, cases=cases, fn_args=fn_args, constants=constants)":
            out.append("PSettings")
        else:
            raise Refused(s, "Crop.prepare")
    dirs = []
    for s in body_of(find_function(tree, "Crop.ensure_dirs_exists")):
        t = ast.unparse(s)
        if t == "os.makedirs(os.path.join(self.location, 'batches'), exist_ok=True)":
            dirs.append("DBatches")
        elif t == "os.makedirs(os.path.join(self.location, 'results'), exist_ok=True)":
            dirs.append("DResults")
        else:
            raise Refused(s, "Crop.ensure_dirs_exists")
    return out, dirs


def sow_order(tree, name):
    """top-level statements of a sow method that touch the disk, in order"""
    fn = find_function(tree, name)
    out = []
    for s in body_of(fn):
        t = ast.unparse(s)
        if isinstance(s, ast.With):
            if len(s.items) != 1 or ast.unparse(s.items[0].context_expr) != "Sower(self)":
                raise Refused(s, f"{name}: with block")
            out.append("SSower")
        elif t.startswith("self.prepare("):
            out.append("SPrepare")
        elif calls_in(s, "write_to_disk") or write_opens(s) or calls_in(s, "self.save_info") \
                or calls_in(s, "self.save_function_to_disk") or calls_in(s, "self.ensure_dirs_exists") \
                or calls_in(s, "Sower") or calls_in(s, "self.delete_all") or calls_in(s, "shutil.rmtree"):
            raise Refused(s, f"{name}: unexpected disk effect")
    return out


def writers_atomic(tree):
    ok = True
    for q in ("Crop.save_info", "Crop.save_function_to_disk", "Sower.save_batch", "grow"):
        fn = find_function(tree, q)
        if len(calls_in(fn, "write_to_disk")) != 1 or write_opens(fn) or calls_in(fn, "pickle.dump") \
                or calls_in(fn, "joblib.dump"):
            ok = False
    return ok


def batch_counter_first(tree):
    fn = find_function(tree, "Sower.save_batch")
    b = body_of(fn)
    if not b or ast.unparse(b[0]) != "self._batch_counter += 1":
        return False
    w = calls_in(fn, "write_to_disk")
    if len(w) != 1 or "BTCH_NM.format(self._batch_counter)" not in ast.unparse(w[0]):
        return False
    # the counter starts at 0
    init = find_function(tree, "Sower.__init__")
    return any(ast.unparse(s) == "self._batch_counter = 0" for s in body_of(init))


def grow_shape(tree):
    fn = find_function(tree, "grow")
    out = []
    for s in body_of(fn):
        t = ast.unparse(s)
        has_write = bool(calls_in(s, "write_to_disk"))
        if t == "if fn is None:\n    fn = from_pickle(read_from_disk(fn_file))":
            out.append("GLoadFn")
        elif t == "cases = read_from_disk(cases_file)":
            out.append("GLoadCases")
        elif isinstance(s, ast.For) and ast.unparse(s.iter) == "enumerate(results_it)":
            if has_write or write_opens(s):
                out.append("GWrite")          # a write INSIDE the loop: before the last case
            if not any(ast.unparse(b) == "results.append(r)" for b in s.body):
                raise Refused(s, "grow: the loop does not collect the results")
            out.append("GLoop")
        elif t == "if rank == 0:\n    write_to_disk(tuple(results), results_file)":
            out.append("GWrite")
        elif has_write or write_opens(s):
            raise Refused(s, "grow: unexpected write")
    return out


def save_shape(tree, qual, new, saver, target, mem):
    """The branch taken when a new dataset / table is given (non-zarr engine)."""
    fn = find_function(tree, qual)
    branch = None
    for s in body_of(fn):
        if isinstance(s, ast.If) and ast.unparse(s.test) == f"{new} is not None":
            branch = s
    if branch is None:
        raise Refused(fn, f"{qual}: no branch for a new object")
    stmts = list(branch.body)
    # Harvester: the non-zarr arm of `if engine == 'zarr': ... else: ...`
    for s in branch.body:
        if isinstance(s, ast.If) and ast.unparse(s.test) == "engine == 'zarr'":
            stmts = list(s.orelse)
    out, suffix = [], False
    for s in stmts:
        t = ast.unparse(s)
        if isinstance(s, ast.Assign) and ast.unparse(s.targets[0]) == "tmp_name":
            suffix = ast.unparse(s.value) == f"{target} + '.tmp'"
        elif isinstance(s, ast.Try):
            for b in s.body:
                bt = ast.unparse(b)
                if bt == f"{saver}({new}, tmp_name, engine=engine)":
                    out.append("VSaveTmp")
                elif bt == f"os.replace(tmp_name, {target})":
                    out.append("VReplace")
                else:
                    raise Refused(b, f"{qual}: statement in the try block")
            for h in s.handlers:
                if [ast.unparse(x) for x in h.body] != ["if os.path.exists(tmp_name):\n    os.remove(tmp_name)", "raise"]:
                    raise Refused(h, f"{qual}: exception handler")
        elif t == f"{mem} = {new}":
            out.append("VSetMem")
        elif t == "return":
            break
        elif calls_in(s, "os.remove") or calls_in(s, "shutil.rmtree") or calls_in(s, saver) or calls_in(s, "os.replace"):
            raise Refused(s, f"{qual}: unexpected disk effect")
    return out, suffix


def lst(xs):
    return "[" + "; ".join(xs) + "]"


def b(x):
    return "true" if x else "false"


def generate(repo):
    ctree = ast.parse(open(f"{repo}/{CROPPING}").read())
    ftree = ast.parse(open(f"{repo}/{FARMING}").read())
    wsteps, unique = write_to_disk_shape(ctree)
    prep, dirs = prepare_shape(ctree)
    ds, ds_suffix = save_shape(ftree, "Harvester.save_full_ds", "new_full_ds", "save_ds", "file_name", "self._full_ds")
    df, df_suffix = save_shape(ftree, "Sampler.save_full_df", "new_full_df", "save_df", "self.data_name", "self._full_df")
    out = [
        "(* GENERATED by harness/translator/gen_crash.py from xyzpy/gen/cropping.py, xyzpy/gen/farming.py -- do not edit *)",
        "From XV Require Import Prelude CrashFS.", "",
        "Definition gen_shape : code_shape :=",
        "  {| cs_write := " + lst(wsteps) + ";",
        "     cs_tmp_unique := " + b(unique) + ";",
        "     cs_prepare := " + lst(prep) + ";",
        "     cs_dirs := " + lst(dirs) + ";",
        "     cs_sow_combos := " + lst(sow_order(ctree, "Crop.sow_combos")) + ";",
        "     cs_sow_cases := " + lst(sow_order(ctree, "Crop.sow_cases")) + ";",
        "     cs_writers_atomic := " + b(writers_atomic(ctree)) + ";",
        "     cs_batch_counter_first := " + b(batch_counter_first(ctree)) + ";",
        "     cs_grow := " + lst(grow_shape(ctree)) + ";",
        "     cs_save_ds := " + lst(ds) + ";",
        "     cs_save_df := " + lst(df) + ";",
        "     cs_save_ds_tmp_suffix := " + b(ds_suffix) + ";",
        "     cs_save_df_tmp_suffix := " + b(df_suffix) + " |}.", ""]
    return "\n".join(out)
