"""GenWelford.v: RunningStatistics / RunningCovariance arithmetic and the loop guards of
estimate_from_repeats (xyzpy/utils.py), as straight-line applications of the operations
record `ops` of Model/Welford.v.

Float subset (everything else raises pyz.Refused):
  names, self.<field>, self.<property already translated>, int constants >= 0, 0.0, np.inf
  + - * /  between floats (an int operand is converted with of_nat, as Python does),
  + - between ints (nat; `-` is truncated: only `self.count - 1` with count >= 1 is meant),
  <expr> ** 0.5 -> sqrt, abs(<float>) -> abs, <float> < <float> -> ltb, <int> == <int>,
  assignment / augmented assignment to locals and self.<field>, `if <test>: return ...`,
  return.
The loops that are hand-modelled (update_from_it, the covariance-matrix dictionary, the
frame of estimate_from_repeats around its two guards) are pinned to their exact shape:
any edit to them makes this unit refuse.
"""
import ast
import copy

from .pyz import Translator, Env, Refused, find_function, key_of

SRC = "xyzpy/utils.py"


def _strip_doc(fn):
    body = list(fn.body)
    if (body and isinstance(body[0], ast.Expr) and isinstance(body[0].value, ast.Constant)
            and isinstance(body[0].value.value, str)):
        body = body[1:]
    return body


def _dump_fn(fn):
    f = copy.deepcopy(fn)
    f.body = _strip_doc(f) or [ast.Pass()]
    return ast.dump(f)


def _pin(tree, qualname, text):
    """Refuse unless `qualname` is, up to its docstring, exactly `text`."""
    fn = find_function(tree, qualname)
    want = ast.parse(text).body[0]
    if _dump_fn(fn) != _dump_fn(want):
        raise Refused(fn, f"{qualname} is no longer the pinned shape")


class FloatTr(Translator):
    """Types: T (float), nat (non-negative int), bool."""

    def __init__(self, props=None, fields=()):
        super().__init__()
        self.props = props or {}       # property name -> generated definition
        self.fields = fields           # state fields passed to a property, in order

    def as_T(self, c, t, node):
        if t == "T":
            return c
        if t == "nat":
            return f"(of_nat Op {c})"
        raise Refused(node, f"{t} where a number is expected")

    def expr(self, n, env):
        if isinstance(n, ast.Constant):
            v = n.value
            if isinstance(v, bool) or v is None:
                raise Refused(n, "constant")
            if isinstance(v, int) and v >= 0:
                return f"{v}%nat", "nat"
            if isinstance(v, float) and v == 0.0 and str(v) == "0.0":
                return "(of_nat Op 0)", "T"
            raise Refused(n, "constant")
        if isinstance(n, ast.Attribute) and isinstance(n.value, ast.Name):
            if n.value.id == "np" and n.attr == "inf":
                return "(inf Op)", "T"
            if n.value.id == "self" and n.attr in self.props:
                args = []
                for f in self.fields:
                    v = env.get(f"self.{f}")
                    if v is None:
                        raise Refused(n, "property needs field " + f)
                    args.append(v[0])
                return f"({self.props[n.attr]} {' '.join(args)})", "T"
        k = key_of(n)
        if k is not None:
            v = env.get(k)
            if v is None:
                raise Refused(n, "unbound name")
            return v
        if isinstance(n, ast.BinOp):
            if isinstance(n.op, ast.Pow):
                if not (isinstance(n.right, ast.Constant) and type(n.right.value) is float
                        and n.right.value == 0.5):
                    raise Refused(n, "power other than ** 0.5")
                a, ta = self.expr(n.left, env)
                return f"(sqrt Op {self.as_T(a, ta, n)})", "T"
            a, ta = self.expr(n.left, env)
            b, tb = self.expr(n.right, env)
            names = {ast.Add: "add", ast.Sub: "sub", ast.Mult: "mul", ast.Div: "div"}
            for cls, nm in names.items():
                if isinstance(n.op, cls):
                    if ta == "nat" and tb == "nat":
                        if nm == "add":
                            return f"({a} + {b})%nat", "nat"
                        if nm == "sub":
                            return f"({a} - {b})%nat", "nat"
                        raise Refused(n, "int * or / int")
                    if ta in ("T", "nat") and tb in ("T", "nat"):
                        return f"({nm} Op {self.as_T(a, ta, n)} {self.as_T(b, tb, n)})", "T"
            raise Refused(n, f"binop on {ta},{tb}")
        if isinstance(n, ast.Call):
            if (isinstance(n.func, ast.Name) and n.func.id == "abs" and len(n.args) == 1
                    and not n.keywords):
                a, ta = self.expr(n.args[0], env)
                if ta == "T":
                    return f"(abs Op {a})", "T"
            raise Refused(n, "call")
        if isinstance(n, ast.Compare) and len(n.ops) == 1:
            a, ta = self.expr(n.left, env)
            b, tb = self.expr(n.comparators[0], env)
            if isinstance(n.ops[0], ast.Lt) and ta == "T" and tb == "T":
                return f"(ltb Op {a} {b})", "bool"
            if isinstance(n.ops[0], ast.Eq) and ta == "nat" and tb == "nat":
                return f"(Nat.eqb {a} {b})", "bool"
            raise Refused(n, f"compare {ta} with {tb}")
        raise Refused(n, "expression")

    def ret(self, s, env):
        if s.value is None:
            raise Refused(s, "bare return")
        c, t = self.expr(s.value, env)
        if t != self.ret_type:
            raise Refused(s, f"returns {t}, expected {self.ret_type}")
        return c


def _args(fn):
    a = fn.args
    if a.vararg or a.kwarg or a.kwonlyargs or a.posonlyargs or a.defaults:
        raise Refused(fn, "signature")
    return [x.arg for x in a.args]


def _is_property(fn):
    return len(fn.decorator_list) == 1 and isinstance(fn.decorator_list[0], ast.Name) \
        and fn.decorator_list[0].id == "property"


def _no_return(stmts):
    for s in stmts:
        for n in ast.walk(s):
            if isinstance(n, ast.Return):
                raise Refused(n, "return in an update method")


def _fall_off(node):
    def k(env):
        raise Refused(node, "a path does not return")
    return k


# ---- pinned shapes of the hand-modelled loops
PINS = {
    "RunningStatistics.update_from_it": """
def update_from_it(self, xs):
    for x in xs:
        self.update(x)
""",
    "RunningCovariance.update_from_it": """
def update_from_it(self, xs, ys):
    for x, y in zip(xs, ys):
        self.update(x, y)
""",
    "RunningCovarianceMatrix.__init__": """
def __init__(self, n=2):
    self.n = n
    self.rcs = {}
    for i in range(self.n):
        for j in range(i, self.n):
            self.rcs[i, j] = RunningCovariance()
""",
    "RunningCovarianceMatrix.update": """
def update(self, *x):
    for i in range(self.n):
        for j in range(i, self.n):
            self.rcs[i, j].update(x[i], x[j])
""",
    "RunningCovarianceMatrix.update_from_it": """
def update_from_it(self, *xs):
    xs = [x if hasattr(x, "__len__") else tuple(x) for x in xs]
    for i in range(self.n):
        for j in range(i, self.n):
            self.rcs[i, j].update_from_it(xs[i], xs[j])
""",
    "RunningCovarianceMatrix.count": """
@property
def count(self):
    return self.rcs[0, 0].count
""",
    "RunningCovarianceMatrix.covar_matrix": """
@property
def covar_matrix(self):
    covar_matrix = np.empty((self.n, self.n))
    for i in range(self.n):
        for j in range(self.n):
            if j >= i:
                covar_matrix[i, j] = self.rcs[i, j].covar
            else:
                covar_matrix[i, j] = self.rcs[j, i].covar
    return covar_matrix
""",
    "RunningCovarianceMatrix.sample_covar_matrix": """
@property
def sample_covar_matrix(self):
    covar_matrix = np.empty((self.n, self.n))
    for i in range(self.n):
        for j in range(self.n):
            if j >= i:
                covar_matrix[i, j] = self.rcs[i, j].sample_covar
            else:
                covar_matrix[i, j] = self.rcs[j, i].sample_covar
    return covar_matrix
""",
}

# the frame of estimate_from_repeats; __G1__ __G2__ __A__ __B__ are the translated parts
ESTIMATE = """
def estimate_from_repeats(fn, *fn_args, rtol=0.02, tol_scale=1.0, get="stats", verbosity=0,
                          min_samples=5, max_samples=1000000, **fn_kwargs):
    rs = RunningStatistics()
    repeats = itertools.count()
    if verbosity >= 1:
        repeats = progbar(repeats)
    if get == "samples":
        xs = []
    try:
        for i in repeats:
            x = fn(*fn_args, **fn_kwargs)
            if get == "samples":
                xs.append(x)
            rs.update(x)
            if verbosity >= 2:
                repeats.set_description(f"{rs.count}: {format_number_with_error(rs.mean, rs.err)}")
            if __G1__:
                if rs.converged(__A__, __B__):
                    break
            if __G2__:
                break
    except KeyboardInterrupt:
        pass
    finally:
        if verbosity >= 1:
            repeats.close()
    if verbosity >= 1:
        sys.stderr.flush()
        print(rs)
    if get == "samples":
        return rs, xs
    if get == "mean":
        return rs.mean
    return rs
"""


def _estimate_parts(tree):
    fn = copy.deepcopy(find_function(tree, "estimate_from_repeats"))
    body = _strip_doc(fn)
    tries = [s for s in body if isinstance(s, ast.Try)]
    if len(tries) != 1 or len(tries[0].body) != 1 or not isinstance(tries[0].body[0], ast.For):
        raise Refused(fn, "estimate_from_repeats: loop not found")
    loop = tries[0].body[0]
    if len(loop.body) < 2:
        raise Refused(loop, "estimate_from_repeats: loop body")
    g1, g2 = loop.body[-2], loop.body[-1]
    if not (isinstance(g1, ast.If) and not g1.orelse and len(g1.body) == 1
            and isinstance(g1.body[0], ast.If) and isinstance(g1.body[0].test, ast.Call)
            and len(g1.body[0].test.args) == 2 and isinstance(g2, ast.If)):
        raise Refused(loop, "estimate_from_repeats: guards")
    call = g1.body[0].test
    parts = {"G1": g1.test, "G2": g2.test, "A": call.args[0], "B": call.args[1]}
    g1.test = ast.Name(id="__G1__", ctx=ast.Load())
    g2.test = ast.Name(id="__G2__", ctx=ast.Load())
    call.args = [ast.Name(id="__A__", ctx=ast.Load()), ast.Name(id="__B__", ctx=ast.Load())]
    if _dump_fn(fn) != _dump_fn(ast.parse(ESTIMATE).body[0]):
        raise Refused(fn, "estimate_from_repeats is no longer the pinned frame around its guards")
    return parts


def generate(repo):
    tree = ast.parse(open(f"{repo}/{SRC}").read())
    out = ["(* GENERATED by harness/translator/gen_welford.py from xyzpy/utils.py -- do not edit *)",
           "From XV Require Import Prelude Welford.", "Open Scope Z_scope.", "",
           "Section Gen.", "Context {T : Type}.", "Variable Op : ops T.", ""]

    for q, text in PINS.items():
        _pin(tree, q, text)

    # ------------------------------------------------------------ RunningStatistics
    def init_of(cls, fields):
        fn = find_function(tree, cls + ".__init__")
        if _args(fn) != ["self"]:
            raise Refused(fn, "signature")
        tr = FloatTr()
        body = _strip_doc(fn)
        _no_return(body)

        def fin(e):
            vals = []
            for f, ty in fields:
                v = e.get("self." + f)
                if v is None or v[1] != ty:
                    raise Refused(fn, f"field {f} not initialised as {ty}")
                vals.append(v[0])
            extra = set(k for k in e.d if k.startswith("self.")) - {"self." + f for f, _ in fields}
            if extra:
                raise Refused(fn, f"unexpected fields {sorted(extra)}")
            return "(" + ", ".join(vals) + ")"
        return tr.block(body, Env(), fin)

    RS = [("count", "nat"), ("mean", "T"), ("M2", "T")]
    out += ["Definition gen_rs_init : nat * T * T :=", init_of("RunningStatistics", RS) + ".", ""]

    fn = find_function(tree, "RunningStatistics.update")
    if _args(fn) != ["self", "x"]:
        raise Refused(fn, "signature")
    env = Env({"self.count": ("count", "nat"), "self.mean": ("mean", "T"), "self.M2": ("M2", "T"),
               "x": ("x", "T")})
    body = _strip_doc(fn)
    _no_return(body)

    def fin_rs(e):
        for f, ty in RS:
            if e.get("self." + f)[1] != ty:
                raise Refused(fn, f"field {f} changes type")
        return "(" + ", ".join(e.get("self." + f)[0] for f, _ in RS) + ")"
    out += ["Definition gen_rs_update (count : nat) (mean M2 x : T) : nat * T * T :=",
            FloatTr().block(body, env, fin_rs) + ".", ""]

    props = {}
    base_env = Env({"self.count": ("count", "nat"), "self.mean": ("mean", "T"), "self.M2": ("M2", "T")})
    for name in ("var", "std", "err", "rel_err"):
        fn = find_function(tree, "RunningStatistics." + name)
        if _args(fn) != ["self"] or not _is_property(fn):
            raise Refused(fn, "property signature")
        tr = FloatTr(props=dict(props), fields=("count", "mean", "M2"))
        tr.ret_type = "T"
        code = tr.block(_strip_doc(fn), base_env, _fall_off(fn))
        out += [f"Definition gen_rs_{name} (count : nat) (mean M2 : T) : T :=", code + ".", ""]
        props[name] = f"gen_rs_{name}"

    fn = find_function(tree, "RunningStatistics.converged")
    if _args(fn) != ["self", "rtol", "atol"] or fn.decorator_list:
        raise Refused(fn, "signature")
    tr = FloatTr(props=dict(props), fields=("count", "mean", "M2"))
    tr.ret_type = "bool"
    code = tr.block(_strip_doc(fn), base_env.set("rtol", "rtol", "T").set("atol", "atol", "T"), _fall_off(fn))
    out += ["Definition gen_rs_converged (count : nat) (mean M2 rtol atol : T) : bool :=", code + ".", ""]

    # ------------------------------------------------------------ RunningCovariance
    RC = [("count", "nat"), ("xmean", "T"), ("ymean", "T"), ("C", "T")]
    out += ["Definition gen_rc_init : nat * T * T * T :=", init_of("RunningCovariance", RC) + ".", ""]

    fn = find_function(tree, "RunningCovariance.update")
    if _args(fn) != ["self", "x", "y"]:
        raise Refused(fn, "signature")
    env = Env({"self.count": ("count", "nat"), "self.xmean": ("xmean", "T"), "self.ymean": ("ymean", "T"),
               "self.C": ("C", "T"), "x": ("x", "T"), "y": ("y", "T")})
    body = _strip_doc(fn)
    _no_return(body)

    def fin_rc(e):
        for f, ty in RC:
            if e.get("self." + f)[1] != ty:
                raise Refused(fn, f"field {f} changes type")
        return "(" + ", ".join(e.get("self." + f)[0] for f, _ in RC) + ")"
    out += ["Definition gen_rc_update (count : nat) (xmean ymean C x y : T) : nat * T * T * T :=",
            FloatTr().block(body, env, fin_rc) + ".", ""]

    cenv = Env({"self.count": ("count", "nat"), "self.xmean": ("xmean", "T"), "self.ymean": ("ymean", "T"),
                "self.C": ("C", "T")})
    for name in ("covar", "sample_covar"):
        fn = find_function(tree, "RunningCovariance." + name)
        if _args(fn) != ["self"] or not _is_property(fn):
            raise Refused(fn, "property signature")
        tr = FloatTr()
        tr.ret_type = "T"
        code = tr.block(_strip_doc(fn), cenv, _fall_off(fn))
        out += [f"Definition gen_rc_{name} (count : nat) (xmean ymean C : T) : T :=", code + ".", ""]

    # ------------------------------------------------------------ estimate_from_repeats
    parts = _estimate_parts(tree)
    tr = FloatTr()
    a, ta = tr.expr(parts["A"], Env({"rtol": ("rtol", "T"), "tol_scale": ("tol_scale", "T")}))
    b, tb = tr.expr(parts["B"], Env({"rtol": ("rtol", "T"), "tol_scale": ("tol_scale", "T")}))
    if ta != "T" or tb != "T":
        raise Refused(parts["A"], "arguments of converged")
    out += ["(* the (rtol, atol) pair the loop passes to converged *)",
            "Definition gen_conv_args (rtol tol_scale : T) : T * T :=", f"({a}, {b}).", "", "End Gen.", ""]

    ztr = Translator()
    zenv = Env({"i": ("i", "Z"), "min_samples": ("min_samples", "Z"), "max_samples": ("max_samples", "Z")})
    for nm, key, doc in (("gen_guard_conv", "G1", "test convergence after iteration i (i = 0, 1, ...)?"),
                         ("gen_guard_max", "G2", "leave after iteration i whatever the statistics?")):
        c, t = ztr.expr(parts[key], zenv)
        if t != "bool":
            raise Refused(parts[key], "guard is not a boolean")
        out += [f"(* {doc} *)", f"Definition {nm} (i min_samples max_samples : Z) : bool :=", c + ".", ""]
    return "\n".join(out)
