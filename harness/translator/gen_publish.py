"""GenPublish.v (C11): how a grown result is PUBLISHED and how the waiting reaper and the progress
queries LOOK at it, read off xyzpy/gen/cropping.py by statement shape (fail closed):

  gen_publish        the effect sequence of `write_to_disk`: where the pickle is written (a
                     temporary name next to `fname`, or `fname` itself), whether the temporary name
                     is unique per call (process id AND a uuid4), whether it matches the result
                     glob RSLT_NM.format('*'), and the ordered operations create / write chunks /
                     close / rename
  gen_load           `read_from_disk`: open 'rb' + pickle.load
  gen_grow_shape     `grow`: number of write_to_disk calls, that the call follows the loop which
                     collects every result, writes tuple(results) to the batch's result name and
                     is guarded by `rank == 0` only
  gen_reaper_wait    `Reaper.wait_to_load`: exists-poll with sleep, isfile-else-raise, load; files
                     are visited in batch order 1..num_batches and wait=True never substitutes a
                     default
  gen_query_ops      num_results / missing_results / is_ready_to_reap as sequences of directory
                     listings (the RSLT_NM glob) and isfile tests of the exact result name
"""
import ast
import fnmatch
import os

from .pyz import Refused, find_function

SRC = "xyzpy/gen/cropping.py"
PID = "os.getpid()"
UUID = "uuid.uuid4().hex"


def _const_str(tree, name):
    for n in tree.body:
        if isinstance(n, ast.Assign) and len(n.targets) == 1 and isinstance(n.targets[0], ast.Name) \
                and n.targets[0].id == name:
            if isinstance(n.value, ast.Constant) and isinstance(n.value.value, str):
                return n.value.value
            raise Refused(n, f"{name} is not a string constant")
    raise Refused(tree, f"cannot find {name}")


def _no_doc(stmts):
    return [s for s in stmts if not (isinstance(s, ast.Expr) and isinstance(s.value, ast.Constant)
                                     and isinstance(s.value.value, str))]


def _format_pieces(node):
    """'<fmt>'.format(args...) with plain '{}' placeholders -> (literal pieces, arg nodes)."""
    if not (isinstance(node, ast.Call) and isinstance(node.func, ast.Attribute) and node.func.attr == "format"
            and isinstance(node.func.value, ast.Constant) and isinstance(node.func.value.value, str)
            and not node.keywords):
        return None
    fmt = node.func.value.value
    pieces = fmt.split("{}")
    if "{" in "".join(pieces) or "}" in "".join(pieces) or len(pieces) != len(node.args) + 1:
        raise Refused(node, "format string of the temporary name")
    return pieces, node.args


def tmp_name_shape(value, rslt_nm):
    """Classify the temporary-name expression.  Returns (unique, globbed).  The name must be
    `fname` followed by a suffix; unique = the suffix interpolates BOTH the process id and a
    uuid4; globbed = a sample of the name matches the result glob."""
    sample_fname = "/d/results/" + rslt_nm.format(3)
    fill = {PID: "4242", UUID: "0123456789abcdef0123456789abcdef"}

    def render(pieces, args, first_is_fname):
        out, seen = pieces[0], []
        for i, a in enumerate(args):
            t = ast.unparse(a)
            if i == 0 and first_is_fname:
                if t != "fname":
                    raise Refused(a, "the temporary name must start with fname")
                out += sample_fname
            elif t in fill:
                out += fill[t]
                seen.append(t)
            else:
                raise Refused(a, "unknown ingredient of the temporary name")
            out += pieces[i + 1]
        return out, seen

    fp = _format_pieces(value)
    if fp is not None:                                   # "{}<suffix>".format(fname, ...)
        pieces, args = fp
        if pieces[0] != "" or not args:
            raise Refused(value, "the temporary name must be fname + suffix")
        name, seen = render(pieces, args, True)
    elif isinstance(value, ast.BinOp) and isinstance(value.op, ast.Add) and ast.unparse(value.left) == "fname":
        r = value.right
        if isinstance(r, ast.Constant) and isinstance(r.value, str):
            name, seen = sample_fname + r.value, []        # fname + "<literal>"
        else:
            fp = _format_pieces(r)
            if fp is None:
                raise Refused(value, "temporary name expression")
            tail, seen = render(fp[0], fp[1], False)
            name = sample_fname + tail
    else:
        raise Refused(value, "temporary name expression")
    if os.path.dirname(name) != os.path.dirname(sample_fname) or not name.startswith(sample_fname) \
            or name == sample_fname:
        raise Refused(value, "the temporary file must be fname + a non-empty suffix in the same directory")
    unique = PID in seen and UUID in seen
    globbed = fnmatch.fnmatchcase(os.path.basename(name), rslt_nm.format("*"))
    return unique, globbed


def _is_with_open_dump(s, name):
    """with open(<name>, 'wb') as file: pickle.dump(obj, file)"""
    return (isinstance(s, ast.With) and len(s.items) == 1
            and ast.unparse(s.items[0].context_expr) == f"open({name}, 'wb')"
            and isinstance(s.items[0].optional_vars, ast.Name)
            and [ast.unparse(b) for b in s.body] == [f"pickle.dump(obj, {s.items[0].optional_vars.id})"])


def publish_of(fn, rslt_nm):
    if [a.arg for a in fn.args.args] != ["obj", "fname"]:
        raise Refused(fn, "write_to_disk signature")
    body = _no_doc(fn.body)
    # the publication before the repair: written in place
    if len(body) == 1 and _is_with_open_dump(body[0], "fname"):
        return "TFinal", True, False, ["GCreate", "GWriteFirst", "GWriteLast", "GClose"]
    if len(body) != 2:
        raise Refused(fn, "write_to_disk: expected `tmp = ...; try: ...`")
    a, t = body
    if not (isinstance(a, ast.Assign) and len(a.targets) == 1 and isinstance(a.targets[0], ast.Name)):
        raise Refused(a, "temporary name assignment")
    tmp = a.targets[0].id
    unique, globbed = tmp_name_shape(a.value, rslt_nm)
    if not (isinstance(t, ast.Try) and not t.orelse and not t.finalbody and len(t.handlers) == 1):
        raise Refused(t, "write_to_disk: try block")
    if len(t.body) != 2 or not _is_with_open_dump(t.body[0], tmp):
        raise Refused(t, "write_to_disk: the temporary file must be opened 'wb', dumped into, and closed by "
                         "leaving the with-block")
    if ast.unparse(t.body[1]) != f"os.replace({tmp}, fname)":
        raise Refused(t.body[1], "write_to_disk: os.replace(tmp, fname) after the with-block")
    h = t.handlers[0]
    hb = [ast.unparse(x) for x in h.body]
    if not (h.type is not None and ast.unparse(h.type) == "BaseException" and h.name is None
            and hb == [f"if os.path.exists({tmp}):\n    os.remove({tmp})", "raise"]):
        raise Refused(h, "write_to_disk: clean-up of the temporary file on failure and re-raise")
    return "TTmp", unique, globbed, ["GCreate", "GWriteFirst", "GWriteLast", "GClose", "GRename"]


def load_of(fn):
    body = _no_doc(fn.body)
    if not (len(body) == 1 and isinstance(body[0], ast.With) and len(body[0].items) == 1
            and ast.unparse(body[0].items[0].context_expr) == "open(fname, 'rb')"
            and isinstance(body[0].items[0].optional_vars, ast.Name)
            and [ast.unparse(b) for b in body[0].body]
            == [f"return pickle.load({body[0].items[0].optional_vars.id})"]):
        raise Refused(fn, "read_from_disk shape")
    return ["LOpenRead", "LUnpickle"]


def _calls(node, name):
    return [n for n in ast.walk(node) if isinstance(n, ast.Call) and ast.unparse(n.func) == name]


def grow_shape_of(fn):
    body = _no_doc(fn.body)
    writes = _calls(fn, "write_to_disk")
    # the collecting loop
    loops = [i for i, s in enumerate(body) if isinstance(s, ast.For)]
    if len(loops) != 1:
        raise Refused(fn, f"grow: expected exactly one top-level for loop, found {len(loops)}")
    li = loops[0]
    loop = body[li]
    if ast.unparse(loop.target) != "(i, r)" or ast.unparse(loop.iter) != "enumerate(results_it)" or loop.orelse:
        raise Refused(loop, "grow: collecting loop header")
    inits = [i for i, s in enumerate(body[:li]) if ast.unparse(s) == "results = []"]
    if len(inits) != 1:
        raise Refused(fn, "grow: `results = []` before the loop")
    for s in body[inits[0] + 1:li]:
        if any(isinstance(n, ast.Name) and n.id == "results" for n in ast.walk(s)):
            raise Refused(s, "grow: results touched between its creation and the loop")
    appended = False
    in_loop_write = False
    for s in loop.body:
        t = ast.unparse(s)
        if t == "results.append(r)":
            appended = True
        elif isinstance(s, ast.If) and ast.unparse(s.test) == "verbosity >= 2" and not s.orelse \
                and all(ast.unparse(b).startswith("results_it.set_description(") for b in s.body):
            pass
        elif _calls(s, "write_to_disk"):
            in_loop_write = True          # recorded (the bridge will reject it), not refused
        else:
            raise Refused(s, "grow: statement in the collecting loop")
    # the lazy iterator must evaluate every case
    gens = [ast.unparse(s) for s in ast.walk(fn) if isinstance(s, ast.Assign)
            and ast.unparse(s.targets[0]) == "results_it"]
    if "results_it = (fn(**case) for case in cases)" not in gens:
        raise Refused(fn, "grow: sequential results iterator")
    # ... and with a worker pool the results are collected in SUBMISSION order (one future per case, in the
    # order of the batch file), whatever order they complete in
    allowed = {"results_it = (fn(**case) for case in cases)", "results_it = (f.result() for f in fs)",
               "results_it = progbar(results_it, total=len(cases))"}
    if set(gens) - allowed:
        raise Refused(fn, f"grow: results iterator {sorted(set(gens) - allowed)}")
    subs = [ast.unparse(s) for s in ast.walk(fn) if isinstance(s, ast.Assign) and ast.unparse(s.targets[0]) == "fs"]
    if "results_it = (f.result() for f in fs)" in gens and subs != ["fs = [executor.submit(fn, **case) for case in cases]"]:
        raise Refused(fn, f"grow: futures are not one per case in batch order: {subs}")
    after = body[li + 1:]
    guard_ok, tuple_ok, name_ok, after_loop = False, False, False, False
    for j, s in enumerate(after):
        ws = _calls(s, "write_to_disk")
        if not ws:
            if any(isinstance(n, ast.Name) and n.id == "results" for n in ast.walk(s)):
                raise Refused(s, "grow: results touched between the loop and the write")
            continue
        after_loop = not in_loop_write
        if isinstance(s, ast.If) and not s.orelse and len(s.body) == 1 and isinstance(s.body[0], ast.Expr) \
                and s.body[0].value is ws[0]:
            guard_ok = ast.unparse(s.test) == "rank == 0"
        call = ws[0]
        if len(call.args) == 2 and not call.keywords:
            tuple_ok = ast.unparse(call.args[0]) == "tuple(results)"
            name_ok = ast.unparse(call.args[1]) == "results_file"
    for s in body[:li]:
        if _calls(s, "write_to_disk"):
            raise Refused(s, "grow: write_to_disk before the collecting loop")
    rf = [ast.unparse(s.value) for s in body if isinstance(s, ast.Assign)
          and ast.unparse(s.targets[0]) == "results_file"]
    if rf != ["os.path.join(crop_location, 'results', RSLT_NM.format(batch_number))"]:
        name_ok = False
    return {"gs_writes": len(writes), "gs_after_loop": after_loop, "gs_all_appended": appended,
            "gs_whole_tuple": tuple_ok, "gs_result_name": name_ok, "gs_rank0_only": guard_ok}


def reaper_wait_of(init):
    body = _no_doc(init.body)
    defs = {s.name: s for s in body if isinstance(s, ast.FunctionDef)}
    if set(defs) != {"_load", "wait_to_load"}:
        raise Refused(init, "Reaper.__init__: nested functions")
    w = _no_doc(defs["wait_to_load"].body)
    if [a.arg for a in defs["wait_to_load"].args.args] != ["x"] or len(w) != 2:
        raise Refused(defs["wait_to_load"], "wait_to_load shape")
    loop, test = w
    if not (isinstance(loop, ast.While) and ast.unparse(loop.test) == "not os.path.exists(x)" and not loop.orelse
            and len(loop.body) == 1 and isinstance(loop.body[0], ast.Expr)
            and isinstance(loop.body[0].value, ast.Call) and ast.unparse(loop.body[0].value.func) == "time.sleep"
            and len(loop.body[0].value.args) == 1 and isinstance(loop.body[0].value.args[0], ast.Constant)):
        raise Refused(loop, "wait_to_load: exists-poll loop with sleep")
    if not (isinstance(test, ast.If) and ast.unparse(test.test) == "os.path.isfile(x)"
            and [ast.unparse(b) for b in test.body] == ["return _load(x)"]
            and len(test.orelse) == 1 and isinstance(test.orelse[0], ast.Raise)):
        raise Refused(test, "wait_to_load: isfile test, load, else raise")
    # _load under wait=True reads the file itself (no default substituted)
    ld = _no_doc(defs["_load"].body)
    if not (len(ld) == 4 and ast.unparse(ld[0]) == "use_default = allow_incomplete and (not wait) and (not os.path.isfile(x))"
            and isinstance(ld[1], ast.If) and ast.unparse(ld[1].test) == "use_default"
            and [ast.unparse(b) for b in ld[1].orelse] == ["res = read_from_disk(x)"]
            and isinstance(ld[2], ast.If) and ast.unparse(ld[2].test) == "res is None or len(res) == 0"
            and len(ld[2].body) == 1 and isinstance(ld[2].body[0], ast.Raise) and not ld[2].orelse
            and ast.unparse(ld[3]) == "return res"):
        raise Refused(defs["_load"], "_load shape")
    srcs = [ast.unparse(s) for s in body]
    if "files = (os.path.join(self.crop.location, 'results', RSLT_NM.format(i + 1)) for i in range(num_batches))" not in srcs:
        raise Refused(init, "Reaper: result files in batch order 1..num_batches")
    if "self.results = itertools.chain.from_iterable(map(wait_to_load if wait else _load, files))" not in srcs:
        raise Refused(init, "Reaper: lazily chained loads")
    return ["WExistsPollSleep", "WIsFileElseRaise", "WLoad"]


GLOB_RESULTS = "len(glob.glob(os.path.join(glob.escape(self.location), 'results', RSLT_NM.format('*'))))"   # the crop's own path taken literally


def query_ops_of(tree):
    calc = find_function(tree, "Crop.calc_progress")
    nres = [ast.unparse(n.value) for n in ast.walk(calc) if isinstance(n, ast.Assign)
            and ast.unparse(n.targets[0]) == "self._num_results"]
    if sorted(nres) != sorted([GLOB_RESULTS, "-1"]):
        raise Refused(calc, "calc_progress: _num_results must be the length of the RSLT_NM glob")
    if len(_calls(calc, "glob.glob")) != 2:
        raise Refused(calc, "calc_progress: number of directory listings")

    def simple_property(name, field):
        f = find_function(tree, f"Crop.{name}")
        if [ast.unparse(s) for s in _no_doc(f.body)] != ["self.calc_progress()", f"return self.{field}"]:
            raise Refused(f, f"{name} shape")
    simple_property("num_results", "_num_results")
    simple_property("num_sown_batches", "_num_sown_batches")
    ready = [ast.unparse(s) for s in _no_doc(find_function(tree, "Crop.is_ready_to_reap").body)]
    if ready != ["self.calc_progress()",
                 "return self._num_results > 0 and self._num_results == self.num_sown_batches"]:
        raise Refused(find_function(tree, "Crop.is_ready_to_reap"), "is_ready_to_reap shape")
    miss = find_function(tree, "Crop.missing_results")
    mb = _no_doc(miss.body)
    if not (len(mb) == 3 and ast.unparse(mb[0]) == "self.calc_progress()" and isinstance(mb[1], ast.FunctionDef)
            and ast.unparse(mb[2]) == "return tuple(filter(no_result_exists, range(1, self.num_batches + 1)))"):
        raise Refused(miss, "missing_results shape")
    pred = [ast.unparse(s) for s in _no_doc(mb[1].body)]
    exact = pred == ["return not os.path.isfile(os.path.join(self.location, 'results', RSLT_NM.format(x)))"]
    if not exact and len(pred) != 1:
        raise Refused(mb[1], "no_result_exists shape")
    return {"qo_num": ["PList"], "qo_missing_head": ["PList"], "qo_missing_exact_isfile": exact,
            "qo_ready": ["PList", "PListIfPos"]}


def _b(x):
    return "true" if x else "false"


def generate(repo):
    tree = ast.parse(open(f"{repo}/{SRC}").read())
    rslt_nm = _const_str(tree, "RSLT_NM")
    if rslt_nm.count("{}") != 1 or "{" in rslt_nm.replace("{}", "") or "*" in rslt_nm:
        raise Refused(tree, "RSLT_NM must contain exactly one '{}' placeholder")
    target, unique, globbed, ops = publish_of(find_function(tree, "write_to_disk"), rslt_nm)
    load = load_of(find_function(tree, "read_from_disk"))
    gs = grow_shape_of(find_function(tree, "grow"))
    wait = reaper_wait_of(find_function(tree, "Reaper.__init__"))
    qo = query_ops_of(tree)
    out = ["(* GENERATED by harness/translator/gen_publish.py from xyzpy/gen/cropping.py -- do not edit *)",
           "From XV Require Import Prelude Sched.", "Open Scope nat_scope.", "",
           "Definition gen_publish : publish :=",
           f"  {{| pb_target := {target}; pb_tmp_unique := {_b(unique)}; pb_tmp_globbed := {_b(globbed)};",
           "     pb_ops := [" + "; ".join(ops) + "] |}.", "",
           "Definition gen_load : list load_op := [" + "; ".join(load) + "].", "",
           "Definition gen_grow_shape : grow_shape :=",
           f"  {{| gs_writes := {gs['gs_writes']}; gs_after_loop := {_b(gs['gs_after_loop'])};",
           f"     gs_all_appended := {_b(gs['gs_all_appended'])}; gs_whole_tuple := {_b(gs['gs_whole_tuple'])};",
           f"     gs_result_name := {_b(gs['gs_result_name'])}; gs_rank0_only := {_b(gs['gs_rank0_only'])} |}}.", "",
           "Definition gen_reaper_wait : list wait_op := [" + "; ".join(wait) + "].", "",
           "Definition gen_query_ops : query_ops :=",
           "  {| qo_num := [" + "; ".join(qo["qo_num"]) + "]; qo_missing_head := ["
           + "; ".join(qo["qo_missing_head"]) + "];",
           f"     qo_missing_exact_isfile := {_b(qo['qo_missing_exact_isfile'])};",
           "     qo_ready := [" + "; ".join(qo["qo_ready"]) + "] |}.", ""]
    return "\n".join(out)
