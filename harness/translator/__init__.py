"""Translators that regenerate coq/Gen/*.v from /repo on every run (fail closed).

UNITS maps the Gen file name to the module (in this package) whose generate(repo)
returns the file's text.  To register a unit add ONE line to UNIT_MODULES."""
import importlib

UNIT_MODULES = {
    "GenBatch": "gen_batch",
    "GenCrash": "gen_crash",
    "GenFmt": "gen_fmt",
    "GenInfini": "gen_infini",
    "GenLabel": "gen_label",
    "GenMissing": "gen_missing",
    "GenFarmer": "gen_farmer",
    "GenHarvest": "gen_harvest",
    "GenNames": "gen_names",
    "GenPlot": "gen_plot",
    "GenPublish": "gen_publish",
    "GenReap": "gen_reap",
    "GenRunner": "gen_runner",
    "GenStages": "gen_stages",
    "GenTemplates": "gen_templates",
    "GenWelford": "gen_welford",
}


class _Broken:
    """Stands in for a unit whose module cannot even be imported (fails closed)."""

    def __init__(self, err):
        self.err = err

    def generate(self, repo):
        raise RuntimeError(f"translator module failed to import: {self.err}")


def _load():
    out = {}
    for name, modname in UNIT_MODULES.items():
        try:
            out[name] = importlib.import_module(f"{__name__}.{modname}")
        except Exception as e:  # noqa
            out[name] = _Broken(f"{type(e).__name__}: {e}")
    return out


UNITS = _load()
