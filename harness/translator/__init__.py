"""Translators that regenerate coq/Gen/*.v from /repo on every run (fail closed)."""
from . import gen_batch

UNITS = {
    "GenBatch": gen_batch,
}
