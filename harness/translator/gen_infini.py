"""GenInfini.v: the constants and the wiring of xyzpy/plot/infiniplot.py that Model/Infini.v relies on,
extracted from the source by shape (fail closed: anything not recognised raises pyz.Refused):

  * the ORDER of the `self.init_mapped_dim("<prop>", ...)` calls in Infiniplotter.__init__, and the default
    value source of each: itertools.cycle(<table>) / np.linspace(lo, hi, N) / a colour generator
  * lengths (and distinctness of the entries) of _MARKERS_DEFAULT, _LINESTYLES_DEFAULT, _COLORS_DEFAULT
  * the rule "hue alone acts as color" (the swap executed before the init calls)
  * init_mapped_dim: the sequence stack -> sel(order) -> dropna(dim, how=...) applied to self.ds, the `how`,
    and that the default values are taken positionally (zip with range(size))
  * plot_lines / plot_heatmap: `ax = self.axs[i_ax, j_ax]` with i_ax from the row and j_ax from the col
    coordinate; plot_lines: the all-null skip, the join_across_missing mask, the style loop
    (`idx = loc[dim]`, `prop_out = self.values[prop][idx]`) and that ax.plot is called once per iteration
  * the histogram call: np.histogram(x, bins=self.bins, density=self.bins_density)[0], and how '__hist_dim__' is
    built (stack of the unmapped dimensions, or a length-one dimension when every dimension is mapped)
"""
import ast
import os

from .pyz import Refused, find_function

SRC = "xyzpy/plot/infiniplot.py"


def coq_str_list(xs):
    return "[" + "; ".join(f'"{x}"%string' for x in xs) + "]"


def module_tuple(tree, name):
    for n in tree.body:
        if isinstance(n, ast.Assign) and len(n.targets) == 1 and isinstance(n.targets[0], ast.Name) \
                and n.targets[0].id == name:
            if not isinstance(n.value, ast.Tuple):
                raise Refused(n, f"{name} is not a tuple literal")
            return n.value.elts
    raise Refused(tree, f"cannot find {name}")


def table_info(tree, name):
    elts = module_tuple(tree, name)
    dumps = [ast.dump(e) for e in elts]
    for e in elts:
        for sub in ast.walk(e):
            if not isinstance(sub, (ast.Constant, ast.Tuple, ast.Load, ast.UnaryOp, ast.USub)):
                raise Refused(e, f"entry of {name} is not a literal")
    return len(elts), len(set(dumps)) == len(dumps)


def int_const(node, what):
    if isinstance(node, ast.Constant) and isinstance(node.value, (int, float)) and not isinstance(node.value, bool) \
            and float(node.value) == int(node.value):
        return int(node.value)
    raise Refused(node, f"{what}: not an integral constant")


def defaults_dict(tree):
    for n in tree.body:
        if isinstance(n, ast.Assign) and isinstance(n.targets[0], ast.Name) and n.targets[0].id == "INFINIPLOTTER_DEFAULTS":
            if isinstance(n.value, ast.Call) and ast.unparse(n.value.func) == "dict":
                return {k.arg: k.value for k in n.value.keywords}
    raise Refused(tree, "cannot find INFINIPLOTTER_DEFAULTS")


def default_source(call, defaults):
    """Classify the default_values keyword of an init_mapped_dim call."""
    dv = None
    for k in call.keywords:
        if k.arg == "default_values":
            dv = k.value
        elif k.arg != "custom_values":
            raise Refused(call, "unexpected keyword")
    if dv is None:
        return "DNone"
    txt = ast.unparse(dv)
    if txt == "itertools.cycle(_MARKERS_DEFAULT)":
        return "DCycleMarkers"
    if txt == "itertools.cycle(_LINESTYLES_DEFAULT)":
        return "DCycleLinestyles"
    if txt == "default_colormaps":
        return "DHueSweep"
    if txt == "lambda N: auto_colors(N)":
        return "DAutoColors"
    if isinstance(dv, ast.Lambda) and [a.arg for a in dv.args.args] == ["N"] and isinstance(dv.body, ast.Call) \
            and ast.unparse(dv.body.func) == "np.linspace" and len(dv.body.args) == 3 and not dv.body.keywords \
            and ast.unparse(dv.body.args[2]) == "N":
        lo, hi = dv.body.args[0], dv.body.args[1]
        if ast.unparse(lo) == "self.colormap_start" and ast.unparse(hi) == "self.colormap_stop":
            lo, hi = defaults.get("colormap_start"), defaults.get("colormap_stop")
        return f"(DLinspace {int_const(lo, 'linspace start')} {int_const(hi, 'linspace stop')})"
    raise Refused(dv, "default_values of init_mapped_dim")


def init_calls(tree):
    fn = find_function(tree, "Infiniplotter.__init__")
    defaults = defaults_dict(tree)
    calls, swap_seen, swap_before = [], False, None
    for s in fn.body:
        if isinstance(s, ast.If) and ast.unparse(s.test) == "self.hue is not None and self.color is None":
            body = [ast.unparse(b) for b in s.body]
            want0 = ("self.color, self.color_order, self.colors, self.color_label = "
                     "(self.hue, self.hue_order, self.hues, self.hue_label)")
            want1 = "self.hue = self.hue_order = self.hues = self.hue_label = None"
            if body != [want0, want1] or s.orelse:
                raise Refused(s, "hue -> color rule changed")
            swap_seen = True
            swap_before = len(calls) == 0
        for node in ([s.value] if isinstance(s, ast.Expr) else []):
            if isinstance(node, ast.Call) and ast.unparse(node.func) == "self.init_mapped_dim":
                if len(node.args) != 1 or not isinstance(node.args[0], ast.Constant):
                    raise Refused(node, "init_mapped_dim call shape")
                calls.append((node.args[0].value, default_source(node, defaults)))
    # no init_mapped_dim call may hide in a nested statement
    total = sum(1 for n in ast.walk(fn) if isinstance(n, ast.Call) and ast.unparse(n.func) == "self.init_mapped_dim")
    if total != len(calls):
        raise Refused(fn, "init_mapped_dim called from a nested statement")
    if not (swap_seen and swap_before):
        raise Refused(fn, "hue -> color rule not found before the init_mapped_dim calls")
    return calls


def init_steps(tree):
    fn = find_function(tree, "Infiniplotter.init_mapped_dim")
    steps, how = [], None
    for n in ast.walk(fn):
        if isinstance(n, ast.Assign) and ast.unparse(n.targets[0]) == "self.ds" and isinstance(n.value, ast.Call):
            f = ast.unparse(n.value.func)
            if not f.startswith("self.ds."):
                raise Refused(n, "self.ds assigned from something else")
            steps.append((n.lineno, f[len("self.ds."):], n))
    steps.sort()
    names = [s[1] for s in steps]
    for _, nm, n in steps:
        txt = ast.unparse(n.value)
        if nm == "stack" and txt != "self.ds.stack({new_dim: dim})":
            raise Refused(n, "stack call")
        if nm == "sel" and txt != "self.ds.sel({dim: list(order)})":
            raise Refused(n, "sel call")
        if nm == "dropna":
            c = n.value
            if len(c.args) != 1 or ast.unparse(c.args[0]) != "dim" or [k.arg for k in c.keywords] != ["how"] \
                    or not isinstance(c.keywords[0].value, ast.Constant):
                raise Refused(n, "dropna call")
            how = c.keywords[0].value.value
    # positional default values
    src = ast.unparse(fn)
    if "self.values[name] = tuple((x for x, _ in zip(default_values, range(self.sizes[name]))))" not in src:
        raise Refused(fn, "default values are no longer taken positionally")
    if "self.domains[name] = self.ds[dim].values" not in src or "self.sizes[name] = len(self.domains[name])" not in src:
        raise Refused(fn, "domain / size bookkeeping changed")
    return names, how


def loop_of(fn):
    loops = [n for n in fn.body if isinstance(n, ast.For)]
    loops = [l for l in loops if ast.unparse(l.iter) == "itertools.product(*self.ranges)"]
    if len(loops) != 1 or ast.unparse(loops[0].target) != "iloc":
        raise Refused(fn, "the loop over itertools.product(*self.ranges)")
    return loops[0]


def panel_wiring(loop):
    src = [ast.unparse(s) for s in loop.body]
    want = ["loc = dict(zip(self.remaining_dims, iloc))",
            "if self.row is not None:\n    i_ax = loc[self.row]\nelse:\n    i_ax = 0",
            "if self.col is not None:\n    j_ax = loc[self.col]\nelse:\n    j_ax = 0",
            "ax = self.axs[i_ax, j_ax]"]
    if src[:4] != want:
        raise Refused(loop, "panel selection changed")
    return ["row", "col"]


def lines_wiring(tree):
    fn = find_function(tree, "Infiniplotter.plot_lines")
    loop = loop_of(fn)
    panel = panel_wiring(loop)
    body = loop.body
    texts = [ast.unparse(s) for s in body]
    style_loop = None
    for s in body:
        if isinstance(s, ast.For) and ast.unparse(s.target) == "prop" and isinstance(s.iter, ast.Tuple):
            style_loop = [e.value for e in s.iter.elts]
            inner = ast.unparse(s)
            for need in ("dim = getattr(self, prop)", "idx = loc[dim]", "prop_in = self.domains[prop][idx]",
                         "prop_out = self.values[prop][idx]", "specific_style[prop] = prop_out"):
                if need not in inner:
                    raise Refused(s, f"style loop: missing `{need}`")
    if style_loop is None:
        raise Refused(fn, "style loop not found")
    for need in ["ds_loc = self.ds.isel(loc)", "mask = ds_loc[self.y].notnull().values",
                 "if not np.any(mask):\n    continue",
                 "if not self.join_across_missing:\n    data_mask = ()\nelse:\n    data_mask = mask",
                 "xmdata = xdata[data_mask]", "ymdata = ds_loc[self.y].values[data_mask]",
                 "plot_opts = {**self.base_style, **specific_style}"]:
        if need not in texts:
            raise Refused(fn, f"plot_lines: missing `{need}`")
    if "if not x_is_constant:\n    xdata = ds_loc[self.x].values\n    mask &= ds_loc[self.x].notnull().values" not in texts:
        raise Refused(fn, "plot_lines: x mask")
    colour = [t for t in texts if t.startswith("if self.color is not None:")]
    if len(colour) != 1 or "icolor = loc[self.color]" not in colour[0] or "ihue = loc[self.hue]" not in colour[0] \
            or "color_out = self.cmap_or_colors[icolor]" not in colour[0] \
            or "color_out = self.cmap_or_colors(self.values['color'][icolor])" not in colour[0] \
            or "self.cmap_or_colors = self.values['hue'][ihue]" not in colour[0]:
        raise Refused(fn, "plot_lines: colour selection")
    # exactly one ax.plot per iteration, with the masked data
    plots = [n for n in ast.walk(loop) if isinstance(n, ast.Call) and ast.unparse(n.func) == "ax.plot"]
    if len(plots) != 1 or [ast.unparse(a) for a in plots[0].args] != ["xmdata", "ymdata"]:
        raise Refused(fn, "ax.plot must be called exactly once per iteration with (xmdata, ymdata)")
    top = [s for s in body if isinstance(s, ast.Assign) and isinstance(s.value, ast.Call)
           and ast.unparse(s.value.func) == "ax.plot"]
    if len(top) != 1:
        raise Refused(fn, "ax.plot is not a top-level statement of the loop")
    return panel, style_loop


def heat_wiring(tree):
    fn = find_function(tree, "Infiniplotter.plot_heatmap")
    loop = loop_of(fn)
    panel = panel_wiring(loop)
    texts = [ast.unparse(s) for s in loop.body]
    if "zdata = self.ds[self.z].isel(loc).transpose(self.y, self.x).values" not in texts:
        raise Refused(fn, "heat map: z slice")
    meshes = [n for n in ast.walk(loop) if isinstance(n, ast.Call) and ast.unparse(n.func) == "ax.pcolormesh"]
    if len(meshes) != 1 or [ast.unparse(a) for a in meshes[0].args] != ["xdata", "ydata", "zdata"]:
        raise Refused(fn, "heat map: pcolormesh(xdata, ydata, zdata) once per iteration")
    return panel


def hist_call(tree):
    fn = find_function(tree, "Infiniplotter.__init__")
    calls = [n for n in ast.walk(fn) if isinstance(n, ast.Call) and ast.unparse(n.func) == "np.histogram"]
    if len(calls) != 1:
        raise Refused(fn, "np.histogram call")
    c = calls[0]
    lam = [n for n in ast.walk(fn) if isinstance(n, ast.Lambda) and any(m is c for m in ast.walk(n))]
    if len(lam) != 1 or ast.unparse(lam[0]) != "lambda x: np.histogram(x, bins=self.bins, density=self.bins_density)[0]":
        raise Refused(c, "histogram lambda changed")
    src = ast.unparse(fn)
    for need in ("nbins = min(max(3, int(self.ds['__hist_dim__'].size ** 0.5)), 50)",
                 "self.bins = np.linspace(xmin, xmax, nbins + 1)",
                 "bin_coords = (self.bins[1:] + self.bins[:-1]) / 2"):
        if need not in src:
            raise Refused(fn, f"histogram branch: missing `{need}`")
    return "density=self.bins_density"


def hist_stack(tree):
    """How the histogram branch builds '__hist_dim__' (the dimension np.histogram runs over):
    'stack-or-expand_dims' -- the unmapped dimensions are stacked, and when there is none a length-one dimension
    is added (every slice is then a single value); 'stack-only' -- the older shape, which raises in that case."""
    fn = find_function(tree, "Infiniplotter.__init__")
    branch = [n for n in fn.body if isinstance(n, ast.If) and ast.unparse(n.test) == "self.is_histogram"]
    if len(branch) != 1:
        raise Refused(fn, "histogram branch not found")
    stack = "self.ds = self.ds.stack({'__hist_dim__': self.unmapped})"
    texts = [ast.unparse(b) for b in branch[0].body]
    makers = [t for t in texts if "__hist_dim__" in t and t.startswith(("self.ds =", "if "))
              and "nbins" not in t and "apply_ufunc" not in t]
    if makers == [stack]:
        return "stack-only"
    if makers == [f"if self.unmapped:\n    {stack}\nelse:\n    self.ds = self.ds.expand_dims('__hist_dim__')"]:
        return "stack-or-expand_dims"
    raise Refused(branch[0], "construction of __hist_dim__ changed")


def generate(repo):
    path = os.path.join(repo, SRC)
    tree = ast.parse(open(path).read())
    calls = init_calls(tree)
    steps, how = init_steps(tree)
    panel, style_loop = lines_wiring(tree)
    hpanel = heat_wiring(tree)
    hc = hist_call(tree)
    hs = hist_stack(tree)
    nm, dm = table_info(tree, "_MARKERS_DEFAULT")
    nl, dl = table_info(tree, "_LINESTYLES_DEFAULT")
    nc, dc = table_info(tree, "_COLORS_DEFAULT")
    out = ["(* GENERATED from xyzpy/plot/infiniplot.py by harness/translator/gen_infini.py -- do not edit *)",
           "From XV Require Import Prelude.",
           "Delimit Scope string_scope with string.",
           "Open Scope Z_scope.",
           "Inductive dsrc := DNone | DCycleMarkers | DCycleLinestyles | DHueSweep | DAutoColors | DLinspace (lo hi : Z).",
           f"Definition gen_init_order : list string := {coq_str_list([c[0] for c in calls])}.",
           "Definition gen_init_defaults : list dsrc := [" + "; ".join(c[1] for c in calls) + "].",
           f"Definition gen_init_steps : list string := {coq_str_list(steps)}.",
           f'Definition gen_dropna_how : string := "{how}"%string.',
           f"Definition gen_panel_lines : list string := {coq_str_list(panel)}.",
           f"Definition gen_panel_heat : list string := {coq_str_list(hpanel)}.",
           f"Definition gen_style_loop : list string := {coq_str_list(style_loop)}.",
           f"Definition gen_n_markers : nat := {nm}%nat.",
           f"Definition gen_markers_distinct : bool := {'true' if dm else 'false'}.",
           f"Definition gen_n_linestyles : nat := {nl}%nat.",
           f"Definition gen_linestyles_distinct : bool := {'true' if dl else 'false'}.",
           f"Definition gen_n_colors : nat := {nc}%nat.",
           f"Definition gen_colors_distinct : bool := {'true' if dc else 'false'}.",
           f'Definition gen_hist_density : string := "{hc}"%string.',
           f'Definition gen_hist_stack : string := "{hs}"%string.',
           ""]
    return "\n".join(out)
